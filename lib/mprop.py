"""Generic runner for Engine-M (mirsym) obligations of a property.

An obligation is a callable(ex) -> obl_index.Obligation-like object (name, status, time_s,
detail, cex, queries, paths).  A 'violated' obligation carries a solver model (concrete values
of the symbolic pre-state and inputs); it is replayed natively against the real code before
anything is reported."""
import json
import os
import re
import time

import vlib
import kprop
from vlib import log


def native_replay_m(prop, replay_inj, replay_test, payload):
    path = vlib.write_replay(prop, payload)
    if not replay_test:
        return None, path, "no native replay defined"
    with vlib.Scratch("native", tag=f"{prop}-replay") as scr:
        kprop.inject_all(scr, replay_inj, cfg="test")
        rc, out = vlib.run_native_test(scr, replay_test, env={"VERIF_REPLAY": path})
        oc = vlib.test_outcome(out, replay_test)
        if oc is None:
            return None, path, "replay did not run:\n" + out[-2500:]
        if oc == "failed":
            return True, path, out[-2500:]
        return False, path, out[-1500:]


def run_m(prop, tier, seed, ev, ex, obligations, replay_inj=None, replay_test=None, replay_fn=None):
    """obligations: list of (name, role, thunk). Returns 0/1/2.
    replay_fn(ob) -> (reproduced True/False/None, text): custom native replay (e.g. crash injection)"""
    rc, viol = 0, False
    import random
    order = list(obligations)
    random.Random(seed).shuffle(order)
    for name, role, thunk in order:
        t0 = time.time()
        try:
            ob = thunk(ex)
        except Exception as e:  # unmodelled construct etc. -> inconclusive, never a pass
            import traceback
            log(f"[{prop}] {name}: INCONCLUSIVE ({type(e).__name__}: {str(e)[:300]})")
            if os.environ.get("VERIF_DEBUG"):
                traceback.print_exc()
            ev.add(name, "mirsym+z3", "inconclusive", time.time() - t0, note=str(e)[:300])
            rc = max(rc, 2)
            continue
        info = dict(detail=ob.detail[:300], queries=ob.queries, paths=ob.paths)
        if ob.status == "discharged":
            log(f"[{prop}] {name}: discharged ({ob.detail}) in {ob.time_s:.1f}s")
            ev.add(name, "mirsym+z3", "discharged", ob.time_s, nonvacuous=ob.paths > 0, **info)
            continue
        if ob.status == "inconclusive":
            log(f"[{prop}] {name}: INCONCLUSIVE: {ob.detail}")
            ev.add(name, "mirsym+z3", "inconclusive", ob.time_s, **info)
            rc = max(rc, 2)
            continue
        # violated: replay natively
        log(f"[{prop}] {name}: solver counterexample: {ob.detail}\n    values: {json.dumps(ob.cex, default=str)[:700]}")
        r_inj = replay_inj(ob) if callable(replay_inj) else replay_inj
        r_test = replay_test(ob) if callable(replay_test) else replay_test
        payload = {"property": prop, "obligation": name, "role": role, "detail": ob.detail,
                   "values": ob.cex, "replay_test": r_test, "source_digest": vlib.src_digest()}
        custom = replay_fn(ob) if replay_fn is not None else None
        if custom is not None:
            path = vlib.write_replay(prop, payload)
            try:
                reproduced, out = custom
            except Exception:
                reproduced, out = None, str(custom)
        else:
            reproduced, path, out = native_replay_m(prop, r_inj or [], r_test, payload)
        role = getattr(ob, "role", None) or role
        kf = vlib.known_finding_for(prop, role)
        if reproduced is True:
            if kf:
                log(f"KNOWN-FINDING: property={prop} {kf['what']}")
                ev.known.append(kf["what"])
                ev.add(name, "mirsym+z3", "known-finding", ob.time_s, replay=path, **info)
            else:
                log(f"VIOLATION property={prop} replay={path}")
                log(out[-1200:])
                ev.violations += 1
                ev.add(name, "mirsym+z3", "violated", ob.time_s, replay=path, counterexample=ob.cex, **info)
                viol = True
        elif reproduced is False:
            log(f"[{prop}] {name}: counterexample did NOT reproduce natively -> INCONCLUSIVE (encoding disagreement)\n{out[-800:]}")
            ev.add(name, "mirsym+z3", "inconclusive", ob.time_s, note="cex not reproduced", replay=path, **info)
            rc = max(rc, 2)
        else:
            log(f"[{prop}] {name}: {out[-1200:]} -> INCONCLUSIVE")
            ev.add(name, "mirsym+z3", "inconclusive", ob.time_s, note="no replay", replay=path, **info)
            rc = max(rc, 2)
    return 1 if viol else rc
