"""Lock-gated native replay of interleaving counterexamples on the REAL code with REAL threads.

The solver-side schedule (obl_sched) is a total order of visible events: lock acquisitions on the three
index locks and blob-directory calls (rename into cas/, unlink under cas/ and staging/, open of a blob).
Here the same operations run as real threads through the crate's public API and are forced through
exactly that order:

  * locks: the scratch copy is built against a *gated* parking_lot - the registry's own source of the
    version pinned in Cargo.lock with ONE line added to RawMutex::lock / RawRwLock::lock_shared /
    lock_exclusive (a scope object that calls a hook before the acquisition and after it succeeded);
    nothing in /repo is touched;
  * file system: the test binary defines `rename`, `unlink` and `open64` itself (they pre-empt libc's),
    calls the hook and forwards to the real function through dlsym(RTLD_NEXT); the same layer injects the
    counterexample's failed call (errno EIO) when the schedule contains a fault.

A thread arriving at a gate waits until the next event of the schedule is its own; an event that does not
match (model and code disagree) or a stall releases everything and the replay reports 'diverged', which the
caller turns into INCONCLUSIVE, never into a violation."""
import glob
import os
import re
import shutil
import subprocess

import vlib
import kprop

INJ = [("src/lib.rs", "replay_gated.rs", "verif_replay_gated")]

GATE_MOD = r'''
/// verification hook (added by /verif/lib/gated.py in a scratch copy only)
pub mod verif_gate {
    use core::sync::atomic::{AtomicUsize, Ordering};
    pub static BEFORE: AtomicUsize = AtomicUsize::new(0);
    pub static AFTER: AtomicUsize = AtomicUsize::new(0);
    pub struct Scope(usize, u8);
    impl Scope {
        #[inline]
        pub fn new(addr: usize, mode: u8) -> Scope {
            let f = BEFORE.load(Ordering::Acquire);
            if f != 0 {
                let f: fn(usize, u8) = unsafe { core::mem::transmute(f) };
                f(addr, mode);
            }
            Scope(addr, mode)
        }
    }
    impl Drop for Scope {
        #[inline]
        fn drop(&mut self) {
            let f = AFTER.load(Ordering::Acquire);
            if f != 0 {
                let f: fn(usize, u8) = unsafe { core::mem::transmute(f) };
                f(self.0, self.1);
            }
        }
    }
}
'''


def make_gated_parking_lot(lock_text, dst):
    m = re.search(r'name = "parking_lot"\nversion = "([^"]+)"', lock_text)
    if not m:
        raise RuntimeError("parking_lot is not in Cargo.lock")
    ver = m.group(1)
    cands = glob.glob(os.path.expanduser(f"~/.cargo/registry/src/*/parking_lot-{ver}"))
    if not cands:
        raise RuntimeError(f"parking_lot-{ver} sources not in the cargo registry")
    shutil.copytree(cands[0], dst)
    for f in ("Cargo.lock", ".cargo-checksum.json", ".cargo_vcs_info.json"):
        try:
            os.remove(os.path.join(dst, f))
        except OSError:
            pass

    def patch(rel, needle, mode):
        p = os.path.join(dst, "src", rel)
        t = open(p).read()
        if t.count(needle) != 1:
            raise RuntimeError(f"gated parking_lot: anchor `{needle}` not unique in {rel}")
        t = t.replace(needle, needle + f"\n        let _verif_scope = crate::verif_gate::Scope::new(self as *const _ as usize, {mode});")
        open(p, "w").write(t)
    patch("raw_mutex.rs", "    fn lock(&self) {", 2)
    patch("raw_rwlock.rs", "    fn lock_exclusive(&self) {", 1)
    patch("raw_rwlock.rs", "    fn lock_shared(&self) {", 0)
    with open(os.path.join(dst, "src", "lib.rs"), "a") as fh:
        fh.write(GATE_MOD)
    return ver


class GatedScratch(vlib.Scratch):
    """native scratch copy whose parking_lot is the gated one"""

    def __init__(self, tag="gated"):
        super().__init__("native", tag=tag)
        pl = os.path.join(self.dir, "gated-parking_lot")
        self.pl_version = make_gated_parking_lot(open(os.path.join(self.dir, "Cargo.lock")).read(), pl)
        with open(os.path.join(self.dir, "Cargo.toml"), "a") as fh:
            fh.write('\n[patch.crates-io]\nparking_lot = { path = "%s" }\n' % pl)


def gated_target_dir():
    d = os.path.join(vlib.CACHE, "gated-target")
    os.makedirs(d, exist_ok=True)
    return d


def run_gated(prop, cex, test="replay_gated", timeout_s=900):
    """-> (reproduced True/False/None, replay path, text)"""
    payload = {"property": prop, "values": cex, "replay_test": test, "source_digest": vlib.src_digest()}
    path = vlib.write_replay(prop, payload)
    try:
        scr = GatedScratch(tag=f"{prop}-gated")
    except Exception as e:  # registry layout changed etc.: cannot build the gate -> no verdict
        return None, path, f"gated replay unavailable: {e}"
    with scr:
        kprop.inject_all(scr, INJ, cfg="test")
        cmd = ["cargo", "test", "--offline", "--lib", test, "--", "--nocapture", "--test-threads", "1", "--exact",
               "verif_replay_gated::" + test]
        e = vlib.env_offline({"VERIF_REPLAY": path, "CARGO_TARGET_DIR": gated_target_dir()})
        with vlib.native_lock():
            try:
                p = subprocess.run(cmd, cwd=scr.dir, env=e, stdout=subprocess.PIPE, stderr=subprocess.STDOUT, text=True, timeout=timeout_s)
                out = p.stdout
            except subprocess.TimeoutExpired:
                return None, path, "gated replay timed out"
        if "GATED-REPLAY: diverged" in out:
            return None, path, "the real code does not follow the solver's schedule (diverged):\n" + "\n".join(
                l for l in out.splitlines() if "GATED-REPLAY" in l)[-1500:]
        oc = vlib.test_outcome(out, test)
        if oc is None:
            return None, path, "gated replay did not run:\n" + out[-2500:]
        return (oc == "failed"), path, "\n".join(l for l in out.splitlines() if "GATED-REPLAY" in l or "panicked" in l)[-1500:] or out[-1500:]


def fault_spec(steps):
    """(kind 'op:class', 1-based ordinal among the steps of that kind) of the first failed call of a T.short step list"""
    for i, sstep in enumerate(steps):
        parts = sstep.split(":")
        if len(parts) >= 3 and parts[1] == "err":
            kind = f"{parts[0]}:{parts[2]}"
            nth = sum(1 for x in steps[:i + 1] if x.split(":")[0] == parts[0] and x.split(":")[-1] == parts[2] and len(x.split(":")) >= 3)
            return kind, nth
    return None, 0


SUPPORTED_FAULTS = {"write", "sync", "rename", "unlink", "open"}


def run_faultplan(prop, cex, timeout_s=900):
    """sequential history with one injected failure, replayed through the public API -> (True/False/None, path, text)"""
    kind, nth = fault_spec(cex.get("steps", []))
    if kind is None or kind.split(":")[0] not in SUPPORTED_FAULTS or kind.split(":")[1] in ("", "parent-of", "?"):
        path = vlib.write_replay(prop, {"property": prop, "values": cex})
        return None, path, f"no native injection for a failure of `{kind}`"
    vals = dict(cex, fault_kind=kind, fault_nth=nth)
    vals.setdefault("num_ops_per_wal", int(cex.get("N", 10000) or 10000))
    return run_gated(prop, vals, test="replay_faultplan", timeout_s=timeout_s)
