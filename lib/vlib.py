"""Shared machinery for the cassadilia verification checks.

Everything a check does goes through here: snapshotting /repo's *current working tree*
into a scratch directory outside /repo and /verif, injecting harness modules into the
copy (the code under test stays byte-identical), running Kani, running native replays,
and writing evidence.  Nothing about the code under test is cached.
"""
import hashlib
import json
import os
import re
import shutil
import subprocess
import sys
import tempfile
import time

REPO = os.environ.get("VERIF_REPO", "/repo")
VERIF = os.path.dirname(os.path.dirname(os.path.abspath(__file__)))
SCRATCH_ROOT = os.environ.get("VERIF_SCRATCH", "/tmp")
CACHE = os.path.join(VERIF, ".cache")  # third-party dependency artefacts only (git-ignored)
NCPU = os.cpu_count() or 4

EXIT_OK, EXIT_VIOLATION, EXIT_INCONCLUSIVE = 0, 1, 2


def log(*a):
    print(*a, flush=True)


def env_offline(extra=None):
    e = dict(os.environ)
    e["CARGO_NET_OFFLINE"] = "true"
    e.setdefault("CARGO_TERM_COLOR", "never")
    e.pop("RUSTFLAGS", None)
    if extra:
        e.update(extra)
    return e


def src_digest(root=None):
    """sha256 over src/**, Cargo.toml of the tree being verified (recorded in evidence)."""
    root = root or REPO
    h = hashlib.sha256()
    files = []
    for d, _, fs in os.walk(os.path.join(root, "src")):
        for f in fs:
            files.append(os.path.join(d, f))
    files.append(os.path.join(root, "Cargo.toml"))
    for f in sorted(files):
        h.update(os.path.relpath(f, root).encode())
        with open(f, "rb") as fh:
            h.update(fh.read())
    return h.hexdigest()[:16]


class Scratch:
    """A throw-away copy of /repo's working tree. flavour = 'kani' | 'mir' | 'native'.

    kani/mir: [dev-dependencies] dropped and `tracing` replaced by the 5-macro no-op crate
    (logging gets empty bodies).  native: manifest untouched (real tracing, real dev-deps).
    """

    def __init__(self, flavour="kani", tag="x"):
        self.flavour = flavour
        self.dir = tempfile.mkdtemp(prefix=f"cassverif-{tag}-", dir=SCRATCH_ROOT)
        self._populate()

    def _populate(self):
        shutil.copytree(os.path.join(REPO, "src"), os.path.join(self.dir, "src"))
        for f in ("Cargo.toml", "Cargo.lock"):
            shutil.copy(os.path.join(REPO, f), os.path.join(self.dir, f))
        if self.flavour in ("kani", "mir"):
            p = os.path.join(self.dir, "Cargo.toml")
            t = open(p).read()
            t = re.sub(r"\[dev-dependencies\].*?(?=\n\[)", "", t, flags=re.S)
            t += '\n[patch.crates-io]\ntracing = { path = "%s" }\n' % os.path.join(
                VERIF, "kani", "tracing-noop"
            )
            open(p, "w").write(t)

    def path(self, rel):
        return os.path.join(self.dir, rel)

    def inject(self, target_rel, harness_src_path, mod_name, cfg="kani", text=None):
        """Append `#[cfg(<cfg>)] #[path=..] mod <mod_name>;` at the end of target_rel.

        The harness becomes a *child module* of the target, so it reaches private items;
        the target's own code is untouched (append at EOF)."""
        dst = os.path.join(self.dir, "src", "_verif_" + mod_name + ".rs")
        if text is None:
            text = open(harness_src_path).read()
        open(dst, "w").write(text)
        with open(os.path.join(self.dir, target_rel), "a") as fh:
            fh.write(f'\n#[cfg({cfg})]\n#[path = "{dst}"]\npub(crate) mod {mod_name};\n')
        return dst

    def cleanup(self):
        shutil.rmtree(self.dir, ignore_errors=True)

    def __enter__(self):
        return self

    def __exit__(self, *a):
        if not os.environ.get("VERIF_KEEP"):
            self.cleanup()
        else:
            log(f"[keep] scratch at {self.dir}")


# ----------------------------------------------------------------------------------------
# Kani


class KaniResult:
    def __init__(self, name):
        self.name = name
        self.status = "NOT_RUN"  # SUCCESSFUL | FAILED | TIMEOUT | ERROR | NOT_RUN
        self.time_s = 0.0
        self.checks_total = 0
        self.checks_failed = 0
        self.covers_total = 0
        self.covers_sat = 0
        self.failed_checks = []  # descriptions
        self.raw = ""

    def to_json(self):
        return {
            "harness": self.name,
            "status": self.status,
            "solver_time_s": round(self.time_s, 2),
            "cbmc_checks": self.checks_total,
            "failed": self.checks_failed,
            "covers": f"{self.covers_sat}/{self.covers_total}",
            "failed_checks": self.failed_checks[:6],
        }


def _parse_one(out, r):
    """Parse the regular-format output of one `cargo kani --harness X` run into r."""
    r.raw = out[-6000:]
    m = re.search(r"\*\* (\d+) of (\d+) failed", out)
    if m:
        r.checks_failed, r.checks_total = int(m.group(1)), int(m.group(2))
    m = re.search(r"\*\* (\d+) of (\d+) cover properties satisfied", out)
    if m:
        r.covers_sat, r.covers_total = int(m.group(1)), int(m.group(2))
    m = re.search(r"Verification Time: ([\d.]+)s", out)
    if m:
        r.time_s = float(m.group(1))
    if "VERIFICATION:- SUCCESSFUL" in out:
        r.status = "SUCCESSFUL"
    elif "VERIFICATION:- FAILED" in out:
        r.status = "FAILED"
        r.failed_checks = re.findall(r"Failed Checks: (.*)", out)
        if ("CBMC failed" in out or "out of memory" in out.lower() or "Status: ERROR" in out
                or (r.checks_failed == 0 and not r.failed_checks)):
            r.status = "ERROR"  # OOM / solver crash / unsupported construct: never a verdict
    elif re.search(r"^error(\[E\d+\])?:", out, re.M):
        r.status = "BUILD_ERROR"
    else:
        r.status = "ERROR"
    return r


def _kani_one(scratch_dir, target_dir, harness, timeout_s, mem_gb, extra_args=()):
    cmd = ["cargo", "kani", "-Z", "stubbing", "-Z", "unstable-options", "--target-dir", target_dir,
           "--harness", harness] + list(extra_args)
    shell = f"ulimit -v {int(mem_gb * 1024 * 1024)}; exec " + " ".join(cmd)
    r = KaniResult(harness)
    t0 = time.time()
    p = subprocess.Popen(["bash", "-c", shell], cwd=scratch_dir, env=env_offline(),
                         stdout=subprocess.PIPE, stderr=subprocess.STDOUT, text=True,
                         start_new_session=True)
    try:
        out, _ = p.communicate(timeout=timeout_s)
    except subprocess.TimeoutExpired:
        try:
            os.killpg(p.pid, 9)
        except Exception:
            pass
        out, _ = p.communicate()
        r.status = "TIMEOUT"
        r.time_s = time.time() - t0
        r.raw = (out or "")[-3000:]
        return r
    _parse_one(out or "", r)
    if r.time_s == 0:
        r.time_s = time.time() - t0
    return r


def run_kani(scratch, harness_names, jobs=None, harness_timeout_s=900, extra_args=(), mem_gb=None):
    """Run each named harness as its own `cargo kani --harness X` process (regular output,
    own timeout, own address-space limit), W at a time, each worker on its own copy of a
    target dir that was built once.  Returns ({name: KaniResult}, wall_s, build_error|None)."""
    from concurrent.futures import ThreadPoolExecutor
    jobs = jobs or int(os.environ.get("VERIF_JOBS", "0")) or min(len(harness_names), max(1, NCPU // 2 - 2))
    jobs = max(1, min(jobs, len(harness_names)))
    if mem_gb is None:
        mem_gb = max(9, int(54 / jobs))
    t0 = time.time()
    base = os.path.join(scratch.dir, "target-k0")
    # 1. build dependencies + crate once (codegen for the first harness only)
    p = subprocess.run(["cargo", "kani", "-Z", "stubbing", "--only-codegen", "--target-dir", base,
                        "--harness", harness_names[0]], cwd=scratch.dir, env=env_offline(),
                       stdout=subprocess.PIPE, stderr=subprocess.STDOUT, text=True)
    res = {n: KaniResult(n) for n in harness_names}
    if p.returncode != 0:
        out = p.stdout
        errs = "\n".join(l for l in out.splitlines() if l.startswith("error"))[:3000]
        return res, time.time() - t0, f"kani build failed:\n{errs}\n...\n" + "\n".join(out.splitlines()[-40:])
    tdirs = [base]
    for i in range(1, jobs):
        d = os.path.join(scratch.dir, f"target-k{i}")
        subprocess.run(["cp", "-r", "--reflink=auto", base, d], check=True)
        tdirs.append(d)
    import queue
    free = queue.Queue()
    for d in tdirs:
        free.put(d)

    def work(h):
        d = free.get()
        try:
            return _kani_one(scratch.dir, d, h, harness_timeout_s, mem_gb, extra_args)
        finally:
            free.put(d)

    with ThreadPoolExecutor(max_workers=jobs) as ex:
        for r in ex.map(work, harness_names):
            res[r.name] = r
    if os.environ.get("VERIF_DEBUG"):
        with open(os.path.join(SCRATCH_ROOT, f"kani-last-{os.getpid()}.log"), "w") as fh:
            for r in res.values():
                fh.write(f"===== {r.name} {r.status}\n{r.raw}\n")
    for d in tdirs[1:]:
        shutil.rmtree(d, ignore_errors=True)
    be = [r for r in res.values() if r.status == "BUILD_ERROR"]
    if be:
        return res, time.time() - t0, "kani build failed for harness " + be[0].name + ":\n" + be[0].raw[-3000:]
    return res, time.time() - t0, None


def kani_trace(scratch, harness, timeout_s=1800):
    """Re-run one failing harness with a CBMC trace; returns the raw text."""
    cmd = ["cargo", "kani", "-Z", "stubbing", "-Z", "unstable-options", "--harness", harness,
           "--target-dir", os.path.join(scratch.dir, "target-k0"),
           "--output-format", "old", "--cbmc-args", "--trace"]
    try:
        p = subprocess.run(cmd, cwd=scratch.dir, env=env_offline(), stdout=subprocess.PIPE,
                           stderr=subprocess.STDOUT, text=True, timeout=timeout_s)
        return p.stdout
    except subprocess.TimeoutExpired:
        return ""


def _parse_cval(rhs):
    rhs = rhs.strip()
    m = re.match(r"(-?\d+)(ul|u|l|ll|ull)?$", rhs)
    if m:
        return int(m.group(1))
    if rhs in ("TRUE", "true"):
        return 1
    if rhs in ("FALSE", "false"):
        return 0
    return rhs


def trace_values(trace_text, fn_substr, var_names):
    """Last assignment to each named local of the harness function in a CBMC text trace.

    Scalars -> int; arrays -> {index: int} (unlisted elements are don't-care, read as 0)."""
    vals = {}
    traces = re.split(r"\nTrace for ([^\n]+):\n", trace_text)
    # traces = [pre, title1, body1, ...]; use the first trace of a real assertion / overflow
    chosen = None
    for i in range(1, len(traces), 2):
        if "reachability_check" in traces[i]:
            continue
        chosen = traces[i + 1]
        break
    if chosen is None:
        chosen = trace_text
    for blk in re.split(r"\nState \d+ ", chosen)[1:]:
        head, _, rest = blk.partition("\n")
        m = re.search(r"function (.+?) line \d+", head)
        fn = m.group(1) if m else ""
        if fn_substr not in fn:
            continue
        for line in rest.split("\n"):
            line = line.strip()
            mm = re.match(r"([A-Za-z_]\w*)((?:\[\d+\]|\.\w+)*)=(.*?)(?: \([01 ]+\))?$", line)
            if not mm:
                continue
            base, sel, rhs = mm.group(1), mm.group(2), mm.group(3)
            if base not in var_names:
                continue
            v = _parse_cval(rhs)
            if sel:
                vals.setdefault(base, {})
                if isinstance(vals[base], dict):
                    vals[base][sel] = v
            else:
                vals[base] = v
    return vals


# ----------------------------------------------------------------------------------------
# native builds (replays, translator validation)


def native_target_dir():
    d = os.path.join(CACHE, "native-target")
    os.makedirs(d, exist_ok=True)
    return d


class native_lock:
    """checks may run concurrently; the shared dependency cache under .cache/native-target is used by
    one native build/run at a time (cargo's own lock does not cover the test binary's run)"""

    def __enter__(self):
        import fcntl
        os.makedirs(CACHE, exist_ok=True)
        self.fh = open(os.path.join(CACHE, "native.lock"), "w")
        fcntl.flock(self.fh, fcntl.LOCK_EX)
        return self

    def __exit__(self, *a):
        import fcntl
        fcntl.flock(self.fh, fcntl.LOCK_UN)
        self.fh.close()


def run_native_test(scratch, test_filter, env=None, timeout_s=1200, release=False):
    """cargo test --lib <filter> in a 'native' scratch; returns (rc, output)."""
    cmd = ["cargo", "test", "--offline", "--lib"]
    if release:
        cmd.append("--release")
    cmd += [test_filter, "--", "--nocapture", "--test-threads", "1"]
    e = env_offline(env or {})
    e["CARGO_TARGET_DIR"] = native_target_dir()
    with native_lock():
        try:
            p = subprocess.run(cmd, cwd=scratch.dir, env=e, stdout=subprocess.PIPE,
                               stderr=subprocess.STDOUT, text=True, timeout=timeout_s)
            return p.returncode, p.stdout
        except subprocess.TimeoutExpired as ex:
            return 124, "timeout"


def test_outcome(out, name):
    """'failed' / 'passed' / None (did not run) for one test of a `cargo test` output"""
    if re.search(rf"^\s+\S*{re.escape(name)}\s*$", out, re.M) and "test result: FAILED" in out:
        return "failed"
    if re.search(rf"test \S*{re.escape(name)} \.\.\. FAILED", out):
        return "failed"
    m = re.search(r"test result: ok\. (\d+) passed", out)
    if m and int(m.group(1)) >= 1:
        return "passed"
    return None


# ----------------------------------------------------------------------------------------
# known findings / evidence / verdict plumbing


def load_known_findings():
    p = os.path.join(VERIF, "known_findings.json")
    if not os.path.exists(p):
        return {"findings": [], "fixed": []}
    return json.load(open(p))


def known_finding_for(prop, role):
    """role = stable identifier of the failing obligation (harness / call site / schedule)."""
    for f in load_known_findings().get("findings", []):
        if f.get("property") == prop and f.get("role") == role:
            return f
    return None


def write_replay(prop, payload):
    os.makedirs(os.path.join(VERIF, "replays"), exist_ok=True)
    if os.environ.get("VERIF_EVIDENCE_DIR"):
        os.makedirs(os.environ["VERIF_EVIDENCE_DIR"], exist_ok=True)
    blob = json.dumps(payload, sort_keys=True, indent=1)
    dig = hashlib.sha256(blob.encode()).hexdigest()[:10]
    p = os.path.join(os.environ.get("VERIF_EVIDENCE_DIR") or os.path.join(VERIF, "replays"), f"{prop}-{dig}.json")
    open(p, "w").write(blob)
    return p


class Evidence:
    def __init__(self, prop, tier, seed):
        self.prop, self.tier, self.seed = prop, tier, seed
        self.t0 = time.time()
        self.obligations = []  # dicts: {name, engine, status, time_s, ...}
        self.assumptions = []
        self.functions = []
        self.bounds = {}
        self.stubs = []
        self.samples = []
        self.outside = []
        self.violations = 0
        self.known = []
        self.extra = {}

    def add(self, name, engine, status, time_s=0.0, **kw):
        d = {"obligation": name, "engine": engine, "status": status, "solver_time_s": round(time_s, 3)}
        d.update(kw)
        self.obligations.append(d)

    def write(self):
        ok = [o for o in self.obligations if o["status"] in ("discharged", "known-finding")]
        nontriv = len({o["obligation"] for o in self.obligations
                       if o["status"] == "discharged" and o.get("nonvacuous", True)})
        cov = {
            "evaluations": max(1, sum(int(o.get("queries", 1)) for o in self.obligations)),
            "distinct_nontrivial": nontriv,
            "rule": "one evaluation = one solver query (a Kani/CBMC harness run or an SMT "
                    "check-sat); distinct_nontrivial counts distinct obligations that were "
                    "discharged AND whose reachability/vacuity witness was confirmed "
                    "(kani::cover satisfied, or the path/assumption set shown satisfiable)",
            "obligations": len(self.obligations),
            "discharged": len(ok),
            "samples": self.samples[:12] or [o for o in self.obligations[:5]],
            "functions_encoded": self.functions,
            "bounds": self.bounds,
            "stubs_and_models": self.stubs,
            "outside_the_claim": self.outside,
            "queries": self.obligations,
            "solver_time_s": round(sum(o.get("solver_time_s", 0) for o in self.obligations), 2),
            "source_digest": src_digest(),
            "known_findings_reported": self.known,
            "exhaustive": False,
            "explanation": "bounded, solver-decided: every obligation is a SAT/SMT verdict over all "
                           "values of the symbolic inputs within the stated bounds",
        }
        # model_checking keys: states = feasible symbolic paths explored (Engine M) + CBMC properties decided
        # (Engine K); transitions = solver queries issued (z3 check-sat calls / CBMC property verdicts);
        # traces_validated_against_impl = native validations performed in this run (real system-call traces
        # checked against the same predicates, counterexample replays)
        paths = sum(int(o.get("paths", 0) or 0) for o in self.obligations)
        cbmc = sum(int(o.get("cbmc_checks", 0) or 0) for o in self.obligations)
        q = sum(int(o.get("queries", 0) or 0) for o in self.obligations)
        cov["states"] = max(1, paths + cbmc)
        cov["transitions"] = max(1, q + cbmc)
        cov["traces_validated_against_impl"] = int(self.extra.pop("traces_validated_against_impl", 0)) + \
            sum(1 for o in self.obligations if o.get("replay"))
        self.extra.pop("_validated_preds", None)
        cov.update(self.extra)
        ev = {
            "property_id": self.prop,
            "tier": self.tier,
            "seed": self.seed,
            "level": "model_checking",
            "coverage": cov,
            "assumptions": self.assumptions,
            "wall_s": round(time.time() - self.t0, 2),
            "violations": self.violations,
        }
        evdir = os.environ.get("VERIF_EVIDENCE_DIR") or os.path.join(VERIF, "evidence")
        os.makedirs(evdir, exist_ok=True)
        p = os.path.join(evdir, f"{self.prop}.json")
        tmp = p + ".tmp"
        json.dump(ev, open(tmp, "w"), indent=1, default=str)
        os.replace(tmp, p)
        return p
