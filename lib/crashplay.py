"""Native crash replay for image-level counterexamples (C03/C09/C20).

kill model : the workload runs in a child under `strace -f -e inject=<fs calls>:signal=SIGKILL:when=k`
             for EVERY k inside the traced window, i.e. the real process is killed on entering its k-th
             filesystem call and the real kernel state is what is left; then `crash_verify` reopens it.
power model: additionally, from the system-call trace up to the kill, every file's bytes that no
             fdatasync/fsync of that file covered are cut off (files are tracked through renames), for the
             choice of files the counterexample names (default: all)."""
import json
import os
import re
import shutil
import subprocess
import tempfile

import vlib
import kprop
import straceplay

INJ = [("src/lib.rs", "replay_crash.rs", "verif_replay_crash")]
FS_CALLS = "write,pwrite64,writev,openat,open,creat,rename,renameat,renameat2,unlink,unlinkat,fdatasync,fsync,ftruncate,truncate"


def plan_from_cex(cex):
    """history that puts the real store where the counterexample's world is: `next-1` earlier operations
    (the position inside the segment and the rollover/checkpoint phase are what matter), the keys the
    world holds, then the operation under test"""
    N = int(cex.get("N", 2) or 2)
    nxt = int(cex.get("next", 1) or 1)
    if nxt > 4 * N + 1:
        nxt = 2 * N + ((nxt - 1) % N) + 1
    pre = []
    keys, pk, hk = cex.get("keys", []), cex.get("pk", []), cex.get("hk", [])
    for i, k in enumerate(keys):
        if i < len(pk) and pk[i]:
            pre.append(("put", f"key{k}", hk[i]))
    pad = 0
    while len(pre) < nxt - 1:
        # padding operations come LAST (own keys): the most recent base records are the ones a premature prune or
        # truncation destroys, and losing one of them must be observable
        pre.append(("put", f"pad{pad}", 900 + pad))
        pad += 1
    pre = pre[:max(nxt - 1, 0)] if len(pre) > nxt - 1 and nxt - 1 >= sum(1 for p in pk if p) else pre
    entry = cex.get("entry", "put.finish")
    if entry == "recover":
        # a history that leaves un-checkpointed records behind (the writing process dies without a clean shutdown);
        # the traced window is the NEXT open, i.e. start-up recovery itself
        p = int(cex.get("history_len", N + 2))
        return N, [("put", f"r{i}", 100 + i) for i in range(p)], [("put", "tail", 777)]
    if entry == "open.new":
        return N, [], [("put", "first", 1), ("put", "tail", 777)]
    if entry == "put.finish":
        op = ("put", f"key{cex.get('op_key', 0)}", cex.get("op_hash", 0))
    elif entry == "remove":
        op = ("rm", f"key{cex.get('op_key', 0)}", 0)
    elif entry == "remove_range":
        op = ("range", "key", 0)
    elif entry in ("delete_orphan", "delete_orphans", "quarantine_orphans"):
        for j, h in enumerate(cex.get("hashes", [])):
            ob = cex.get("orphans", [])
            if j < len(ob) and ob[j]:
                pre.append(("plant", "-", h))
        op = ("quarantine" if entry.startswith("quarantine") else "orphans", "-", cex.get("op_hash", 0) or 0)
    else:
        op = ("ckpt", "-", 0)
    # one more operation after it, so that cuts after the acknowledgement are explored too
    return N, pre, [op, ("put", "tail", 777)]


def plan_str(N, sync, ops):
    return ";".join([str(N), "sync" if sync else "async"] + [f"{k},{key},{h}" for (k, key, h) in ops])


def _run(exe, test, env, strace_args=None, timeout=120):
    cmd = ([] if strace_args is None else ["strace"] + strace_args) + [exe, test, "--exact", "--test-threads", "1", "--nocapture"]
    return subprocess.run(cmd, env=env, stdout=subprocess.PIPE, stderr=subprocess.STDOUT, text=True, timeout=timeout)


def unsynced_truncate(trace_text, db, lose=None):
    """cut every file under db back to the length its last fdatasync/fsync covered (files followed through renames)"""
    fds, files, by_path = {}, {}, {}
    nid = [0]

    def fid_for(path, create):
        if path in by_path:
            return by_path[path]
        nid[0] += 1
        # the database directory is created inside the traced process: every file starts empty
        files[nid[0]] = dict(path=path, size=0, synced=0)
        by_path[path] = nid[0]
        return nid[0]
    for line in trace_text.splitlines():
        m = re.match(r"(?:\d+\s+)?(\w+)\((.*)\)\s+=\s+(-?\d+|\?)(.*)$", line)
        if not m:
            continue
        call, args, ret = m.group(1), m.group(2), m.group(3)
        if ret == "?":
            break
        ret = int(ret)
        if call in ("openat", "open", "creat") and ret >= 0:
            pm = re.search(r'"([^"]*)"', args)
            if pm and pm.group(1).startswith(db) and "O_DIRECTORY" not in args:
                fds[ret] = fid_for(pm.group(1), "O_TRUNC" in args)
                if "O_TRUNC" in args:
                    files[fds[ret]]["len"] = 0
                    files[fds[ret]]["synced"] = 0
        elif call in ("write", "pwrite64", "writev") and ret > 0:
            f = fds.get(int(args.split(",")[0]))
            if f:
                fl = files[f]
                fl["len"] = fl.get("len", fl["size"]) + ret
        elif call in ("fdatasync", "fsync") and ret == 0:
            f = fds.get(int(args.split(",")[0]))
            if f:
                files[f]["synced"] = files[f].get("len", files[f]["size"])
        elif call == "close":
            fds.pop(int(args.split(",")[0] or -1), None)
        elif call in ("rename", "renameat", "renameat2") and ret == 0:
            ps = re.findall(r'"([^"]*)"', args)
            if len(ps) >= 2 and ps[0] in by_path:
                f = by_path.pop(ps[0])
                files[f]["path"] = ps[1]
                by_path[ps[1]] = f
        elif call in ("unlink", "unlinkat") and ret == 0:
            pm = re.search(r'"([^"]*)"', args)
            if pm and pm.group(1) in by_path:
                by_path.pop(pm.group(1))
    cut = []
    for f, fl in files.items():
        p = fl["path"]
        if by_path.get(p) != f or not os.path.isfile(p):
            continue
        if fl["synced"] is not None and fl.get("len", fl["size"]) > fl["synced"]:
            if lose is None or any(x in p for x in lose):
                with open(p, "r+b") as fh:
                    fh.truncate(fl["synced"])
                cut.append((os.path.relpath(p, db), fl["synced"], fl.get("len")))
    return cut


def crash_replay(cex, max_cuts=400):
    """-> (reproduced: True/False/None, text)"""
    if cex.get("entry") == "recover" and "history_len" not in cex:
        # which records are un-checkpointed when the writer dies depends on where the history stops inside a
        # segment: try every phase (N..2N+1 operations)
        # (and on the segment size: with the counterexample's N the same image may need a nested crash to arise)
        N0 = int(cex.get("N", 2) or 2)
        texts = []
        for N in (N0, N0 + 1, N0 + 2):
            for p in range(max(N - 1, 1), 2 * N + 2):
                rep, out = _crash_replay(dict(cex, history_len=p, N=N), max_cuts)
                if rep is True or rep is None:
                    return rep, out
                texts.append(out)
        return False, "\n".join(texts)
    return _crash_replay(cex, max_cuts)


def _crash_replay(cex, max_cuts=400):
    mode = cex.get("mode", "kill")
    sync = cex.get("sync_mode", "sync") == "sync"
    N, pre, ops = plan_from_cex(cex)
    allops = pre + ops
    with vlib.Scratch("native", tag="crash") as scr, vlib.native_lock():
        kprop.inject_all(scr, INJ, cfg="test")
        exe = straceplay.build_test_binary(scr)
        root = tempfile.mkdtemp(prefix="cassverif-crash-", dir=vlib.SCRATCH_ROOT)
        try:
            base = None

            def fresh(tag):
                d = os.path.join(root, tag)
                shutil.rmtree(d, ignore_errors=True)
                if base is not None:
                    shutil.copytree(base, d)
                    shutil.rmtree(os.path.join(d, "acks", "scratch"), ignore_errors=True)
                    for mk in ("begin", "end"):
                        shutil.rmtree(os.path.join(d, "acks", mk), ignore_errors=True)
                else:
                    os.makedirs(os.path.join(d, "acks"))
                return os.path.join(d, "db"), os.path.join(d, "acks")
            env0 = dict(os.environ, VERIF_PLAN=plan_str(N, sync, allops), VERIF_FIRST=str(len(pre)))
            if cex.get("entry") == "open.new":
                env0["VERIF_TRACE_OPEN"] = "1"
            if cex.get("entry") == "recover":
                db, acks = fresh("base")
                p0 = _run(exe, "verif_replay_crash::crash_workload", dict(env0, VERIF_DB=db, VERIF_ACKS=acks, VERIF_PLAN=plan_str(N, sync, pre),
                                                                          VERIF_FIRST=str(len(pre) + 5)))
                if not os.path.exists(os.path.join(acks, "end")):
                    return None, "the history before the recovery did not run:\n" + p0.stdout[-1500:]
                base = os.path.join(root, "base")
                env0["VERIF_TRACE_OPEN"] = "1"
                env0["VERIF_SKIP"] = str(len(pre))
            # reference run: count the filesystem calls before / inside the traced window
            db, acks = fresh("ref")
            tr = os.path.join(root, "ref.trace")
            p = _run(exe, "verif_replay_crash::crash_workload", dict(env0, VERIF_DB=db, VERIF_ACKS=acks),
                     ["-f", "-o", tr, "-e", "trace=" + FS_CALLS + ",mkdir,mkdirat"])
            if not os.path.exists(os.path.join(acks, "end")):
                return None, "reference run of the workload did not finish:\n" + p.stdout[-1500:]
            # strace's `when=` counts per (thread, syscall): translate "the k-th filesystem call of the test
            # thread" into (syscall name, its ordinal among calls of that name)
            seq, begin_at, total = [], None, None
            per_name = {}
            for line in open(tr):
                m = re.match(r"(\d+)\s+(\w+)\(", line)
                if not m:
                    continue
                tid, call = m.group(1), m.group(2)
                if call in ("mkdir", "mkdirat"):
                    if "acks/begin" in line and begin_at is None:
                        begin_at = len(seq)
                        seq = [x for x in seq if x[0] == tid]
                        begin_at = len(seq)
                        main_tid = tid
                    if "acks/end" in line:
                        total = len([x for x in seq if x[0] == tid])
                    continue
                per_name[(tid, call)] = per_name.get((tid, call), 0) + 1
                seq.append((tid, call, per_name[(tid, call)]))
            if begin_at is None or total is None:
                return None, "could not locate the traced window in the reference trace"
            seq = [x for x in seq if x[0] == main_tid]
            cuts = [(i + 1, seq[i][1], seq[i][2]) for i in range(begin_at, min(total, len(seq)))]
            if len(cuts) > max_cuts:
                cuts = cuts[:max_cuts]
            ks = cuts
            failures = []
            for (k, cname, cord) in ks:
                db, acks = fresh("run")
                tr = os.path.join(root, "run.trace")
                p = _run(exe, "verif_replay_crash::crash_workload", dict(env0, VERIF_DB=db, VERIF_ACKS=acks),
                         ["-f", "-o", tr, "-s", "0", "-e", "trace=" + FS_CALLS, "-e", f"inject={cname}:signal=SIGKILL:when={cord}"])
                if p.returncode == 0 or os.path.exists(os.path.join(acks, "end")):
                    return None, f"kill injection at call #{k} ({cname} #{cord}) did not fire"
                what = f"{mode} crash on entering filesystem call #{k} = {cname} #{cord} (window {begin_at + 1}..{total})"
                if mode == "power":
                    lose = None
                    cut = unsynced_truncate(open(tr).read() if os.path.exists(tr) else "", db, lose)
                    what += f"; unsynced bytes dropped: {cut}"
                v = _run(exe, "verif_replay_crash::crash_verify", dict(env0, VERIF_DB=db, VERIF_ACKS=acks, VERIF_WHAT=what))
                if os.environ.get("VERIF_DEBUG"):
                    print(what, "->", "ok" if "test result: ok" in v.stdout else "FAIL", flush=True)
                if "test result: ok" not in v.stdout:
                    msg = [l for l in v.stdout.splitlines() if "panicked" in l or what[:20] in l]
                    failures.append(what + " :: " + (" ".join(msg)[-600:] if msg else v.stdout[-600:]))
                    if len(failures) >= 3:
                        break
            if failures:
                return True, f"plan {plan_str(N, sync, allops)}\n" + "\n".join(failures)
            return False, f"plan {plan_str(N, sync, allops)}: {len(ks)} crash cuts replayed on the real code, every recovered store is correct"
        finally:
            shutil.rmtree(root, ignore_errors=True)
