"""Generic runner for the Kani-decided obligations of a property.

A property module hands over a list of injections (harness source -> target file of the
scratch copy) and a list of KH harness descriptors; this runs them with Kani (unwinding
assertions on), checks the vacuity witnesses, extracts a counterexample from the CBMC trace
for a failing harness and replays it natively against the real code before anything is
reported as a violation.
"""
import json
import os
import re
import time

import vlib
from vlib import log


class KH:
    def __init__(self, name, tiers=("quick", "thorough"), vars=(), replay=None, role=None,
                 min_covers=1, desc="", bounds="", functions=(), timeout_s=900, replay_fn=None):
        self.name = name
        self.tiers = tiers
        self.vars = list(vars)          # named harness locals to read from the CBMC trace
        self.replay = replay            # name of the #[cfg(test)] replay fn, or None
        self.role = role or name        # stable id used by known_findings.json
        self.min_covers = min_covers    # how many kani::cover! witnesses must be satisfied
        self.desc = desc
        self.bounds = bounds
        self.functions = list(functions)
        self.timeout_s = timeout_s
        self.replay_fn = replay_fn      # optional custom native replay: fn(values) -> (reproduced|None, text)


PRELUDE = os.path.join(vlib.VERIF, "kani", "harness", "_prelude.rs")


def harness_text(fname):
    return open(PRELUDE).read() + "\n" + open(os.path.join(vlib.VERIF, "kani", "harness", fname)).read()


def inject_all(scr, injections, cfg):
    for target, fname, mod in injections:
        scr.inject(target, None, mod, cfg=cfg, text=harness_text(fname))


def native_replay(prop, injections, kh, values, extra=None):
    """Run the harness's replay test natively on a fresh copy of /repo. -> (reproduced, path, out)"""
    payload = {"property": prop, "harness": kh.name, "role": kh.role, "values": values,
               "replay_test": kh.replay, "source_digest": vlib.src_digest()}
    if extra:
        payload.update(extra)
    path = vlib.write_replay(prop, payload)
    if kh.replay_fn is not None:
        rep, out = kh.replay_fn(values)
        return rep, path, out
    if not kh.replay:
        return None, path, "no native replay defined for this harness"
    with vlib.Scratch("native", tag=f"{prop}-replay") as scr:
        inject_all(scr, injections, cfg="test")
        rc, out = vlib.run_native_test(scr, kh.replay, env={"VERIF_REPLAY": path})
        oc = vlib.test_outcome(out, kh.replay)
        if oc is None:
            return None, path, "replay did not run:\n" + out[-3000:]
        if oc == "failed":
            return True, path, out[-3000:]
        # also try the release profile users run
        rc, out2 = vlib.run_native_test(scr, kh.replay, env={"VERIF_REPLAY": path}, release=True)
        if vlib.test_outcome(out2, kh.replay) == "failed":
            return True, path, out2[-3000:]
        return False, path, out[-2000:]


def run_k(prop, tier, seed, ev, injections, harnesses, jobs=None, mem_gb=None):
    """Returns exit code contribution: 0 ok, 1 violation, 2 inconclusive. Fills `ev`."""
    sel = [h for h in harnesses if tier in h.tiers]
    if not sel:
        return 0
    # VERIF_SEED only permutes the order harnesses are handed to the solver
    import random
    rnd = random.Random(seed)
    rnd.shuffle(sel)
    rc = 0
    viol = False
    with vlib.Scratch("kani", tag=prop) as scr:
        inject_all(scr, injections, cfg="kani")
        tmo = max(h.timeout_s for h in sel)
        log(f"[{prop}] kani: {len(sel)} harnesses, tier={tier}")
        res, wall, err = vlib.run_kani(scr, [h.name for h in sel], jobs=jobs,
                                       harness_timeout_s=tmo, mem_gb=mem_gb)
        if err:
            log(f"[{prop}] INCONCLUSIVE: {err[-4000:]}")
            ev.add("kani-build", "kani", "inconclusive", 0, note=err[-1500:])
            return 2
        # a solver process that dies (memory pressure from its neighbours, address-space limit) ends as ERROR: give each such
        # harness ONE more run on its own with the whole memory budget before calling it inconclusive
        again = [h.name for h in sel if res[h.name].status == "ERROR"]
        if again:
            log(f"[{prop}] kani: re-running {len(again)} harness(es) that ended in ERROR, one at a time")
            for name in again:
                res2, _, err2 = vlib.run_kani(scr, [name], jobs=1, harness_timeout_s=tmo, mem_gb=44)
                if not err2 and res2[name].status != "ERROR":
                    res[name] = res2[name]
        for h in sel:
            r = res[h.name]
            info = dict(bounds=h.bounds, desc=h.desc, cbmc_checks=r.checks_total,
                        covers=f"{r.covers_sat}/{r.covers_total}", harness=h.name)
            if r.status == "SUCCESSFUL":
                if r.covers_sat < h.min_covers:
                    log(f"[{prop}] {h.name}: passes but vacuity witness missing "
                        f"({r.covers_sat}/{r.covers_total}, need {h.min_covers}) -> INCONCLUSIVE")
                    ev.add(h.name, "kani", "vacuous", r.time_s, nonvacuous=False, **info)
                    rc = max(rc, 2)
                else:
                    log(f"[{prop}] {h.name}: SUCCESSFUL in {r.time_s:.1f}s "
                        f"({r.checks_total} CBMC checks, covers {r.covers_sat}/{r.covers_total})")
                    ev.add(h.name, "kani", "discharged", r.time_s, nonvacuous=True, **info)
                continue
            if r.status != "FAILED":
                log(f"[{prop}] {h.name}: {r.status} -> INCONCLUSIVE (never reported as pass)\n{r.raw[-1500:]}")
                ev.add(h.name, "kani", "inconclusive", r.time_s, note=r.status, **info)
                rc = max(rc, 2)
                continue
            # an unwinding-assertion failure is a too-small bound in *my* harness, not a violation
            real_fail = [c for c in r.failed_checks if "unwinding assertion" not in c]
            if not real_fail and r.failed_checks:
                log(f"[{prop}] {h.name}: unwinding assertion failed (bound too small) -> INCONCLUSIVE")
                ev.add(h.name, "kani", "inconclusive", r.time_s, note="unwind bound too small", **info)
                rc = max(rc, 2)
                continue
            log(f"[{prop}] {h.name}: FAILED: {r.failed_checks[:4]}")
            # extract the counterexample
            t0 = time.time()
            trace = vlib.kani_trace(scr, h.name)
            vals = vlib.trace_values(trace, h.name, h.vars) if h.vars else {}
            log(f"[{prop}] {h.name}: counterexample values {json.dumps(vals)[:600]}")
            kf = vlib.known_finding_for(prop, h.role)
            reproduced, path, out = native_replay(prop, injections, h, vals,
                                                  extra={"failed_checks": r.failed_checks[:6]})
            if reproduced is True:
                if kf:
                    log(f"KNOWN-FINDING: property={prop} {kf['what']}")
                    ev.known.append(kf["what"])
                    ev.add(h.name, "kani", "known-finding", r.time_s, replay=path, **info)
                else:
                    log(f"VIOLATION property={prop} replay={path}")
                    log(out[-1500:])
                    ev.violations += 1
                    ev.add(h.name, "kani", "violated", r.time_s, replay=path,
                           failed_checks=r.failed_checks[:6], counterexample=vals, **info)
                    viol = True
            elif reproduced is False:
                log(f"[{prop}] {h.name}: counterexample did NOT reproduce natively -> INCONCLUSIVE "
                    f"(encoding disagreement)\n{out[-1500:]}")
                ev.add(h.name, "kani", "inconclusive", r.time_s, note="cex not reproduced", replay=path, **info)
                rc = max(rc, 2)
            else:
                log(f"[{prop}] {h.name}: {out[-1500:]} -> INCONCLUSIVE")
                ev.add(h.name, "kani", "inconclusive", r.time_s, note="no replay: " + out[-300:], replay=path, **info)
                rc = max(rc, 2)
    return 1 if viol else rc
