"""Runner for trace-predicate obligations (ordering / discipline facts decided on mirsym traces)
with native replay: 'strace' = the same predicate on the real system-call trace of the scenario
test; 'probe:<test>' = a lock-state probe test on the real code."""
import json
import os
import time

import vlib
import kprop
import mprop
import straceplay
from vlib import log

SCEN_INJ = [("src/lib.rs", "replay_scenario.rs", "verif_replay_scenario"), ("src/lib.rs", "replay_open.rs", "verif_replay_open")]
_strace_cache = {}


def real_trace():
    if "t" not in _strace_cache:
        _strace_cache["t"] = straceplay.run_scenario_trace(SCEN_INJ)
    return _strace_cache["t"]


_replay_cache = {}


def replay(prop, ob, kind, role):
    """one native run per (replay kind, role): several paths/entry points with the same role share it"""
    if kind.startswith(("probe:", "gatedprobe:")) and (kind, role) in _replay_cache:
        rep, out = _replay_cache[(kind, role)]
        path = vlib.write_replay(prop, {"property": prop, "obligation": ob.name, "role": role, "detail": ob.detail,
                                        "values": ob.cex, "replay": kind, "source_digest": vlib.src_digest()})
        return rep, path, out
    rep, path, out = _replay(prop, ob, kind, role)
    if kind.startswith(("probe:", "gatedprobe:")) and rep is not None:
        _replay_cache[(kind, role)] = (rep, out)
    return rep, path, out


def _replay(prop, ob, kind, role):
    payload = {"property": prop, "obligation": ob.name, "role": role, "detail": ob.detail, "values": ob.cex,
               "replay": kind, "source_digest": vlib.src_digest()}
    path = vlib.write_replay(prop, payload)
    if kind == "strace":
        ev, ok, out = real_trace()
        if not ev:
            return None, path, "scenario produced no trace:\n" + out
        v = getattr(ob.pred_fn, 'native', ob.pred_fn)(None, straceplay.FakeFinal(ev))
        if v is not None:
            return True, path, f"real system-call trace of the scenario violates the same predicate: {v[0]}: {v[1]}"
        if not ok:
            return True, path, "scenario test itself fails on the real code:\n" + out[-800:]
        return False, path, "real system-call trace satisfies the predicate"
    if kind == "crash":
        import crashplay
        rep, out = crashplay.crash_replay(dict(ob.cex or {}))
        return rep, path, out
    if kind.startswith("gatedprobe:"):
        # a lock probe at the system-call layer (interposed unlink/rename + gated parking_lot), see replay_gated.rs
        import gated
        rep, _, out = gated.run_gated(prop, dict(ob.cex or {}, probe=kind), test=kind.split(":", 1)[1])
        return rep, path, out
    if kind.startswith("probe:"):
        test = kind.split(":", 1)[1]
        with vlib.Scratch("native", tag=f"{prop}-probe") as scr:
            kprop.inject_all(scr, SCEN_INJ, cfg="test")
            rc, out = vlib.run_native_test(scr, test)
            oc = vlib.test_outcome(out, test)
            if oc is None:
                return None, path, "probe did not run:\n" + out[-2000:]
            return (oc == "failed"), path, out[-1500:]
    return None, path, "no replay"


def run_t(prop, tier, seed, ev, ex, plan, U=2, HU=2, **world):
    """plan: [(entry, [(label, pred, role, replay_kind)])]; returns 0/1/2"""
    import obl_trace as T
    rc, viol = 0, False
    for entry_name, preds in plan:
        try:
            obs = T.run_preds(ex, entry_name, [(l, p) for (l, p, _, _) in preds], U=U, HU=HU, tags=[prop], **world)
        except Exception as e:
            log(f"[{prop}] {entry_name}: INCONCLUSIVE ({type(e).__name__}: {str(e)[:300]})")
            if os.environ.get("VERIF_DEBUG"):
                import traceback
                traceback.print_exc()
            ev.add(f"explore {entry_name}", "mirsym+z3", "inconclusive", 0, note=str(e)[:300])
            rc = max(rc, 2)
            continue
        for ob, (label, pred, role, rkind) in zip(obs, preds):
            info = dict(detail=ob.detail[:300], queries=ob.queries, paths=ob.paths)
            if ob.status == "discharged":
                log(f"[{prop}] {ob.name}: discharged ({ob.detail}) in {ob.time_s:.1f}s")
                ev.add(ob.name, "mirsym+z3", "discharged", ob.time_s, nonvacuous=ob.paths > 0, **info)
                if getattr(ob, "sample", None) and len(ev.samples) < 6:
                    ev.samples.append({"entry": entry_name, "longest_trace": ob.sample})
                continue
            if ob.status == "inconclusive":
                log(f"[{prop}] {ob.name}: INCONCLUSIVE: {ob.detail}")
                ev.add(ob.name, "mirsym+z3", "inconclusive", ob.time_s, **info)
                rc = max(rc, 2)
                continue
            log(f"[{prop}] {ob.name}: solver-feasible path violates it: {ob.detail}\n    trace: {ob.cex.get('trace', '')[:600]}")
            reproduced, path, out = replay(prop, ob, rkind, role)
            kf = vlib.known_finding_for(prop, role)
            if reproduced is True:
                if kf:
                    log(f"KNOWN-FINDING: property={prop} {kf['what']}")
                    ev.known.append(kf["what"])
                    ev.add(ob.name, "mirsym+z3", "known-finding", ob.time_s, replay=path, **info)
                else:
                    log(f"VIOLATION property={prop} replay={path}")
                    log("    " + out[-900:])
                    ev.violations += 1
                    ev.add(ob.name, "mirsym+z3", "violated", ob.time_s, replay=path, **info)
                    viol = True
            else:
                log(f"[{prop}] {ob.name}: not confirmed on the real code -> INCONCLUSIVE\n    {str(out)[-600:]}")
                ev.add(ob.name, "mirsym+z3", "inconclusive", ob.time_s, note="cex not reproduced natively", replay=path, **info)
                rc = max(rc, 2)
    # translator validation: the predicates that were discharged symbolically and have a system-call
    # counterpart must also hold on the REAL system-call trace of the scenario test (unchanged tree)
    if not viol and os.environ.get("VERIF_NO_STRACE") != "1":
        done = ev.extra.setdefault("_validated_preds", set())
        todo = [(l, p, role) for _, preds in plan for (l, p, role, k) in preds if k == "strace" and role not in done]
        if todo:
            try:
                evs, ok, out = real_trace()
                n = 0
                for l, p, role in todo:
                    done.add(role)
                    v = getattr(p, "native", p)(None, straceplay.FakeFinal(evs))
                    if v is not None or not ok:
                        log(f"[{prop}] translator validation: predicate `{role}` does NOT hold on the real system-call trace "
                            f"although every symbolic path satisfies it -> INCONCLUSIVE (model disagreement): {v}")
                        ev.add(f"real-trace validation of {role}", "strace", "inconclusive", 0, note=str(v))
                        rc = max(rc, 2)
                    else:
                        n += 1
                ev.extra["traces_validated_against_impl"] = ev.extra.get("traces_validated_against_impl", 0) + n
                if len(ev.samples) < 8:
                    ev.samples.append({"real_syscall_trace_prefix": " ".join(T_short(e) for e in evs[:40])})
            except Exception as e:
                log(f"[{prop}] real-trace validation could not run: {e}")
    return 1 if viol else rc


def T_short(e):
    p = e.get("path", ("",))
    return f"{e['op']}:{e['outcome']}:{p[0] if p else ''}"
