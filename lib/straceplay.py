"""Native replay of ordering counterexamples: run the real scenario test under strace and turn
the real system-call trace into the same event vocabulary the mirsym traces use, so the SAME
predicate that failed symbolically is evaluated on what the real code did."""
import json
import os
import re
import shutil
import subprocess
import tempfile

import vlib
import kprop

SYSCALLS = "openat,open,creat,rename,renameat,renameat2,unlink,unlinkat,fdatasync,fsync,write,pwrite64,writev,close,mkdir,mkdirat,ftruncate,truncate,link,linkat"


def build_test_binary(scr):
    env = vlib.env_offline({"CARGO_TARGET_DIR": vlib.native_target_dir()})
    p = subprocess.run(["cargo", "test", "--offline", "--lib", "--no-run", "--message-format=json"],
                       cwd=scr.dir, env=env, stdout=subprocess.PIPE, stderr=subprocess.PIPE, text=True)
    exe = None
    for line in p.stdout.splitlines():
        try:
            j = json.loads(line)
        except Exception:
            continue
        if j.get("reason") == "compiler-artifact" and j.get("executable") and j.get("profile", {}).get("test"):
            exe = j["executable"]
    if exe is None:
        raise RuntimeError("test binary not built:\n" + p.stderr[-2500:])
    return exe


def classify(path, db):
    if not path.startswith(db):
        return None
    rel = path[len(db):].lstrip("/")
    if rel.startswith("cas/"):
        return ("cas", rel[4:])
    if rel == "cas":
        return ("casdir",)
    if rel.startswith("staging/"):
        return ("staging", rel[8:])
    if rel.endswith("_index.wal"):
        return ("wal", rel.split("_")[0])
    if rel in ("index", "index.tmp", "LOCK"):
        return (rel if rel != "LOCK" else "lock",)
    if rel.startswith("db_settings"):
        return ("settings",) if rel == "db_settings.json" else ("settings", ".tmp")
    return ("other", rel)


def parse_strace(text, db):
    """-> list of event dicts (kind='io') in program order (single-threaded scenario)"""
    fds = {}
    ev = []
    for line in text.splitlines():
        m = re.match(r"(?:\d+\s+)?(\w+)\((.*)\)\s+=\s+(-?\d+)(.*)$", line)
        if not m:
            continue
        call, args, ret, tail = m.group(1), m.group(2), int(m.group(3)), m.group(4)
        if call in ("openat", "open", "creat"):
            pm = re.search(r'"([^"]*)"', args)
            if not pm:
                continue
            path = pm.group(1)
            flags = args[pm.end():]
            c = classify(path, db)
            if ret >= 0:
                fds[ret] = c
            if c is None or "O_DIRECTORY" in flags:
                continue
            fl = dict(write=("O_WRONLY" in flags or "O_RDWR" in flags), create="O_CREAT" in flags,
                      truncate="O_TRUNC" in flags, append="O_APPEND" in flags, read="O_RDONLY" in flags,
                      reopen=(c[0] == "staging" and "O_CREAT" not in flags), excl="O_EXCL" in flags)
            ev.append(dict(kind="io", op="open", outcome="ok" if ret >= 0 else "err", path=c, flags=fl, locks=()))
            if c[0] == "staging" and "O_CREAT" in flags and "O_EXCL" in flags and ret >= 0:
                ev[-1]["op"] = "create-temp"
        elif call in ("write", "pwrite64", "writev"):
            fd = int(args.split(",")[0])
            c = fds.get(fd)
            if c is not None:
                ev.append(dict(kind="io", op="write", outcome="ok" if ret >= 0 else "err", path=c, n=ret, locks=()))
        elif call in ("fdatasync", "fsync"):
            fd = int(args.split(",")[0])
            c = fds.get(fd)
            if c is not None:
                ev.append(dict(kind="io", op="sync", outcome="ok" if ret == 0 else "err", path=c, locks=()))
        elif call == "close":
            fds.pop(int(args.split(",")[0] or -1), None)
        elif call in ("rename", "renameat", "renameat2"):
            ps = re.findall(r'"([^"]*)"', args)
            if len(ps) >= 2:
                a, b = classify(ps[0], db), classify(ps[1], db)
                if a is not None or b is not None:
                    ev.append(dict(kind="io", op="rename", outcome="ok" if ret == 0 else "err",
                                   path=a or ("outside",), dst=b or ("outside",), locks=()))
        elif call in ("unlink", "unlinkat"):
            pm = re.search(r'"([^"]*)"', args)
            if pm:
                c = classify(pm.group(1), db)
                if c is not None and "AT_REMOVEDIR" not in args:
                    ev.append(dict(kind="io", op="unlink", outcome="ok" if ret == 0 else ("NotFound" if "ENOENT" in tail else "err"),
                                   path=c, locks=()))
        elif call in ("ftruncate", "truncate"):
            c = fds.get(int(args.split(",")[0])) if call == "ftruncate" else None
            if c is not None:
                ev.append(dict(kind="io", op="write", outcome="ok", path=c, n=0, truncate=True, locks=()))
    return ev


class FakeFinal:
    def __init__(self, trace):
        self.trace = trace
        self.status = "returned"
        self.pc = []
        self.locks = []
        self.retval = None
        self.meta = {}


def run_scenario_trace(injections, test_name="replay_scenario"):
    """build the native test binary from a fresh copy of /repo, run the scenario under strace"""
    with vlib.Scratch("native", tag="strace") as scr, vlib.native_lock():
        kprop.inject_all(scr, injections, cfg="test")
        exe = build_test_binary(scr)
        db = tempfile.mkdtemp(prefix="cassverif-db-", dir=vlib.SCRATCH_ROOT)
        out = os.path.join(scr.dir, "strace.txt")
        try:
            p = subprocess.run(["strace", "-f", "-s", "0", "-e", "trace=" + SYSCALLS, "-o", out, exe, test_name,
                                "--test-threads", "1", "--nocapture"],
                               env=dict(os.environ, VERIF_DB=db), stdout=subprocess.PIPE, stderr=subprocess.STDOUT,
                               text=True, timeout=600)
            text = open(out).read() if os.path.exists(out) else ""
            ok = "test result: ok" in p.stdout
            return parse_strace(text, db), ok, p.stdout[-1500:]
        finally:
            shutil.rmtree(db, ignore_errors=True)
