"""Regenerate the MIR of /repo's current working tree and hand out a mirsym executor.

Every call snapshots /repo, compiles the snapshot with the nightly toolchain
(`-Zunpretty=mir -C debug-assertions=off -C overflow-checks=on`, `tracing` replaced by the
no-op crate) and parses the dump.  Only third-party dependency artefacts are cached
(/verif/.cache/mir-target)."""
import contextlib
import os
import subprocess
import sys
import time

import vlib

sys.path.insert(0, os.path.join(vlib.VERIF, "mirsym"))


def dump_mir(scr):
    tdir = os.path.join(vlib.CACHE, "mir-target")
    os.makedirs(tdir, exist_ok=True)
    out = scr.path("mir.txt")
    env = vlib.env_offline({"CARGO_TARGET_DIR": tdir})
    t0 = time.time()
    import fcntl
    lock = open(os.path.join(vlib.CACHE, "mir.lock"), "w")
    fcntl.flock(lock, fcntl.LOCK_EX)
    with open(out, "w") as fh:
        p = subprocess.run(["cargo", "+nightly", "rustc", "--offline", "--lib", "--", "-Zunpretty=mir",
                            "-C", "debug-assertions=off", "-C", "overflow-checks=on"],
                           cwd=scr.dir, env=env, stdout=fh, stderr=subprocess.PIPE, text=True)
    fcntl.flock(lock, fcntl.LOCK_UN)
    lock.close()
    if p.returncode != 0 or os.path.getsize(out) < 1000:
        raise RuntimeError("MIR dump failed:\n" + p.stderr[-3000:])
    return out, time.time() - t0


@contextlib.contextmanager
def mir_executor(tag, **kw):
    """yields (ex, scratch, mir_dump_seconds)"""
    import world
    with vlib.Scratch("mir", tag=tag) as scr:
        path, secs = dump_mir(scr)
        ex = world.make_executor(path, scr.path("src"), **kw)
        yield ex, scr, secs
