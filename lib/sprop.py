"""Runner for bounded interleaving obligations (mirsym threads): counterexample schedule ->
native sequential replay of the lock-atomic blocks in scheduled order (replay_sched.rs)."""
import json
import os
import time

import vlib
import kprop
from vlib import log

INJ = [("src/lib.rs", "replay_sched.rs", "verif_replay_sched")]


def native(prop, cex):
    """1. lock-gated replay: the real operations as real threads forced through the schedule (lib/gated.py);
    2. the block-wise sequential replay (replay_sched.rs).  Reproduced if either shows the violation."""
    import gated
    try:
        rep, path, out = gated.run_gated(prop, cex)
    except Exception as e:  # noqa: BLE001
        rep, path, out = None, None, f"gated replay failed to run: {e}"
    if rep is True:
        return True, path, out
    rep2, path2, out2 = native_blocks(prop, cex)
    if rep2 is True:
        return True, path2, out2
    if rep is False or rep2 is False:
        return False, path or path2, f"gated: {str(out)[-600:]}\nblock-wise: {str(out2)[-600:]}"
    return None, path or path2, f"gated: {str(out)[-600:]}\nblock-wise: {str(out2)[-600:]}"


def native_blocks(prop, cex):
    payload = {"property": prop, "values": cex, "replay_test": "replay_schedule", "source_digest": vlib.src_digest()}
    path = vlib.write_replay(prop, payload)
    with vlib.Scratch("native", tag=f"{prop}-sched") as scr:
        kprop.inject_all(scr, INJ, cfg="test")
        rc, out = vlib.run_native_test(scr, "replay_schedule", env={"VERIF_REPLAY": path})
        oc = vlib.test_outcome(out, "replay_schedule")
        if oc is None:
            return None, path, "schedule replay did not run:\n" + out[-2000:]
        return (oc == "failed"), path, out[-1500:]


def run_s(prop, tier, seed, ev, ex, plans, accept=None, **opts):
    """plans: [(kinds tuple, U, HU)]; accept(cex)->bool filters which violation kinds belong to this property"""
    import obl_sched as S
    rc, viol = 0, False
    for plan in plans:
        kinds, U, HU = plan[:3]
        popts = dict(opts, **(plan[3] if len(plan) > 3 else {}))
        t0 = time.time()
        try:
            ob = S.ob_schedules(ex, kinds, U, HU, tags=(prop,), **popts)
        except Exception as e:
            log(f"[{prop}] schedules {kinds}: INCONCLUSIVE ({type(e).__name__}: {str(e)[:300]})")
            if os.environ.get("VERIF_DEBUG"):
                import traceback
                traceback.print_exc()
            ev.add(f"interleavings of {' || '.join(kinds)}", "mirsym+z3", "inconclusive", time.time() - t0, note=str(e)[:300])
            rc = max(rc, 2)
            continue
        info = dict(detail=ob.detail[:300], queries=ob.queries, paths=ob.paths)
        if ob.status == "discharged":
            log(f"[{prop}] {ob.name}: discharged ({ob.detail}) in {ob.time_s:.1f}s")
            ev.add(ob.name, "mirsym+z3", "discharged", ob.time_s, nonvacuous=ob.paths > 0, **info)
            if getattr(ob, "sample", None) and len(ev.samples) < 8:
                ev.samples.append({"threads": list(kinds), "one_interleaving": ob.sample})
            continue
        if ob.status == "inconclusive":
            log(f"[{prop}] {ob.name}: INCONCLUSIVE: {ob.detail}")
            ev.add(ob.name, "mirsym+z3", "inconclusive", ob.time_s, **info)
            rc = max(rc, 2)
            continue
        handled = 0
        skipped = []
        # every distinct role of counterexample found in this program is handled on its own:
        # a listed finding never masks a different violation of the same property
        for one in [ob] + list(getattr(ob, "others", [])):
            role = getattr(one, "role", None) or S.classify(one.cex)
            if accept is not None and not accept(role):
                skipped.append(role)
                continue   # a violation of another property's concern (reported by that property's check)
            handled += 1
            log(f"[{prop}] {one.name}: solver found a schedule [{role}]: {one.detail}\n    steps: {' '.join(one.cex.get('steps', []))[:700]}")
            reproduced, path, out = native(prop, one.cex)
            kf = vlib.known_finding_for(prop, role)
            oname = f"{one.name} [{role}]"
            if reproduced is True:
                if kf:
                    log(f"KNOWN-FINDING: property={prop} {kf['what']}")
                    ev.known.append(kf["what"])
                    ev.add(oname, "mirsym+z3", "known-finding", one.time_s, replay=path, role=role, **info)
                else:
                    log(f"VIOLATION property={prop} replay={path}")
                    log("    " + out[-700:])
                    ev.violations += 1
                    ev.add(oname, "mirsym+z3", "violated", one.time_s, replay=path, role=role, **info)
                    viol = True
            else:
                log(f"[{prop}] {oname}: schedule not confirmed on the real code -> INCONCLUSIVE\n    {str(out)[-500:]}")
                ev.add(oname, "mirsym+z3", "inconclusive", one.time_s, note="schedule not reproduced natively", replay=path, **info)
                rc = max(rc, 2)
        if not handled:
            log(f"[{prop}] {ob.name}: discharged for this property (the only schedules found belong to another property's finding: {skipped})")
            ev.add(ob.name, "mirsym+z3", "discharged", ob.time_s, nonvacuous=ob.paths > 0,
                   note=f"schedules found only for roles reported elsewhere: {skipped}", **info)
    return 1 if viol else rc
