#!/bin/bash
# confirm_mutant.sh <ID> : confirm a seeded change in a FRESH scratch worktree of /repo:
#  (1) patch.diff applies to the clean tree; with it the existing suite passes (70 tests; the 2
#      root-only failures of the baseline tolerated)
#  (2) the demonstration fails with the patch and (3) passes without it.
# Demo files are taken from the authoring worktree /tmp/wt/<ID> (untracked files + its diff of
# src/tests/mod.rs).  On success the change is stored under /verif/seeded/<ID>/.
id=$1; src=/tmp/wt/$id; out=/tmp/wt/out/$id; wt=/tmp/wt/cf-$id; log=/tmp/wt/confirm-$id.log
rm -rf $wt; git -C /repo worktree prune; git -C /repo worktree add -q --detach $wt HEAD || exit 2
cp /repo/Cargo.lock $wt/; cp -r /repo/target $wt/target
cd $wt
git apply $out/patch.diff || { echo "patch does not apply to clean tree" > $log; echo "NOT CONFIRMED" >> $log; exit 1; }
# install the demo
(cd $src && git status --porcelain -uall | grep '^??' | awk '{print $2}' | grep -vE '^(target|Cargo.lock)' ) | while read f; do mkdir -p $(dirname $wt/$f); cp -r $src/$f $wt/$f; done
(cd $src && git diff -- src/tests/mod.rs) > $wt/.hook.diff; [ -s $wt/.hook.diff ] && git apply $wt/.hook.diff
demos=$(cd $wt && git status --porcelain -uall | grep '^??' | awk '{print $2}' | grep -E '\.rs$' | tr '\n' ' ')
filters=""
for f in $demos; do b=$(basename $f .rs); case $f in tests/*) filters="$filters --test $b";; src/*) filters="$filters --lib $b";; esac; done
echo "demo files: $demos ; filters: $filters" > $log
cargo test --offline --lib 2>&1 | grep -E "^test |test result" > $log.full
npass=$(grep -E "test result" $log.full | sed -E 's/.* ([0-9]+) passed.*/\1/' | sort -n | tail -1)
demo_in_lib=$(grep -E "^test .*(_demo|demo_).* ok$" $log.full | wc -l)
demore=$(for f in $demos; do basename $f .rs; done | paste -sd'|'); [ -z "$demore" ] && demore=__none__
badfail=$(grep -E "^test .* FAILED$" $log.full | grep -vE "_demo|demo_|c[0-9][0-9]_" | grep -vE "::($demore)::" | grep -vE "test_io_error_on_staging_file_creation|append_op_fails_when_segment_rollover_cannot_create_file" | wc -l)
npass=$((npass - demo_in_lib))
echo "existing tests passed=$npass unexpected_failures=$badfail" >> $log
run_demo() { r=0; for f in $demos; do b=$(basename $f .rs); case $f in tests/*) cargo test --offline --test $b -- --include-ignored 2>&1 | grep -q "test result: FAILED" && r=1;; src/*) cargo test --offline --lib $b -- --include-ignored 2>&1 | grep -q "test result: FAILED" && r=1;; esac; done; return $r; }
run_demo; with=$?
git apply -R $out/patch.diff
run_demo; without=$?
echo "demo_fails_with_patch=$with demo_fails_without_patch=$without" >> $log
if [ "$npass" -ge 70 ] && [ "$badfail" -eq 0 ] && [ "$with" -eq 1 ] && [ "$without" -eq 0 ]; then
  echo "CONFIRMED" >> $log
  mkdir -p /verif/seeded/$id && cp $out/patch.diff /verif/seeded/$id/ && for f in $demos; do cp $wt/$f /verif/seeded/$id/; done; [ -s $wt/.hook.diff ] && cp $wt/.hook.diff /verif/seeded/$id/demo_hook.diff
  python3 - <<PY
import json
m=json.load(open("$out/meta.json"))
import re; m["property"]=re.sub(r"^R\d+-","","$id")
m["confirmed"]="tools/confirm_mutant.sh in a fresh worktree: patch applies to clean HEAD; existing tests passed=$npass, unexpected failures=$badfail; demo ($demos) fails with the patch and passes without it"
json.dump(m,open("/verif/seeded/$id/meta.json","w"),indent=1)
PY
else
  echo "NOT CONFIRMED" >> $log
fi
cd /; git -C /repo worktree remove --force $wt
tail -3 $log
