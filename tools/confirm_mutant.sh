#!/bin/bash
# confirm_mutant.sh <ID> [<suffix>] : confirm a seeded change in its scratch worktree /tmp/wt/<ID><suffix>:
#  (1) with the patch, the existing suite passes (70 tests; 2 root-only failures tolerated)
#  (2) the demonstration fails with the patch and (3) passes without it.
# then store it under /verif/seeded/<ID><suffix>/.
id=$1; sfx=$2; wt=/tmp/wt/$id$sfx; out=/tmp/wt/out/$id$sfx; log=/tmp/wt/confirm-$id$sfx.log
cd $wt || exit 2
demo_filter=$(python3 - <<PY
import re,os
id="$id".lower()
if os.path.exists("$wt/tests/%s_demo.rs"%id): print("--test %s_demo"%id)
else: print("--lib %s_demo"%id)
PY
)
echo "== with patch: full suite" > $log
cargo test --offline 2>&1 | grep -E "^test |test result" > $log.full
npass=$(grep -E "test result" $log.full | sed -E 's/.* ([0-9]+) passed.*/\1/' | sort -n | tail -1)
ndemo=$(grep -E "^test .*_demo.* (ok|FAILED)$" $log.full | wc -l)
npass=$((npass + 0))
# in-crate demos run inside the lib test binary: they are the only additional failures allowed
badfail=$(grep -E "^test .* FAILED$" $log.full | grep -v "_demo" | grep -vE "test_io_error_on_staging_file_creation|append_op_fails_when_segment_rollover_cannot_create_file" | wc -l)
echo "existing tests passed=$npass unexpected_failures=$badfail" >> $log
echo "== with patch: demo" >> $log
cargo test --offline $demo_filter 2>&1 | grep -E "test result" >> $log
with=$(cargo test --offline $demo_filter 2>&1 | grep -cE "test result: FAILED")
git apply -R $out/patch.diff || { echo "cannot reverse patch" >> $log; exit 2; }
echo "== without patch: demo" >> $log
without=$(cargo test --offline $demo_filter 2>&1 | grep -E "test result" | tee -a $log | grep -cE "test result: FAILED")
git apply $out/patch.diff
echo "demo_fails_with_patch=$with demo_fails_without_patch=$without" >> $log
if [ "$npass" -ge 70 ] && [ "$badfail" -eq 0 ] && [ "$with" -ge 1 ] && [ "$without" -eq 0 ]; then
  echo "CONFIRMED" >> $log
  mkdir -p /verif/seeded/$id$sfx && cp $out/patch.diff /verif/seeded/$id$sfx/ && cp $out/demo* /verif/seeded/$id$sfx/ 2>/dev/null
  python3 - <<PY
import json
m=json.load(open("$out/meta.json"))
m["confirmed_by"]="tools/confirm_mutant.sh: existing tests passed=$npass (unexpected failures=$badfail); demo fails with patch ($with failing test binaries), passes without"
m["property"]="$id"
json.dump(m,open("/verif/seeded/$id$sfx/meta.json","w"),indent=1)
PY
else
  echo "NOT CONFIRMED" >> $log
fi
tail -3 $log
