#!/usr/local/bin/python3-vt
"""developer tool: run one interleaving exploration.  usage: try_sched.py put,remove U HU [inflight] [faults=N] [replay]"""
import os, sys, time, json
HERE = os.path.dirname(os.path.dirname(os.path.abspath(__file__)))
for d in ("lib", "mirsym", ""):
    sys.path.insert(0, os.path.join(HERE, d))
import vlib, mirrun, obl_sched as S
kinds = tuple(sys.argv[1].split(","))
U, HU = int(sys.argv[2]), int(sys.argv[3])
opts = {}
for a in sys.argv[4:]:
    if a == "inflight": opts["inflight"] = True
    if a == "pinned": opts["inflight"] = "pinned"
    if a.startswith("faults="): opts["faults"] = int(a[7:])
with mirrun.mir_executor("try") as (ex, scr, secs):
    t0 = time.time()
    ob = S.ob_schedules(ex, kinds, U, HU, **opts)
    print(ob.status, ob.detail[:400], "paths", ob.paths, "queries", ob.queries, "%.1fs" % (time.time() - t0))
    for one in [ob] + list(getattr(ob, "others", [])):
        if one.cex:
            print(getattr(one, "role", None), json.dumps({k: v for k, v in one.cex.items() if k != "schedule"})[:1500])
            if "replay" in sys.argv:
                import sprop
                print(sprop.native("C04", one.cex))
