#!/bin/bash
# patch_run.sh <NAME> <patch.diff> <PROP>... : run checks against /repo's HEAD + an arbitrary patch
# (tree /tmp/wt/p-<NAME>); used for behaviour-preserving refactors (must stay exit 0) as well as seeded changes.
n=$1; patch=$2; shift 2
wt=/tmp/wt/p-$n
if [ ! -d $wt ]; then
  git -C /repo worktree add -q --detach $wt HEAD || exit 2
  cp /repo/Cargo.lock $wt/
  (cd $wt && git apply $patch) || { echo "patch $patch does not apply"; exit 1; }
fi
mkdir -p /tmp/wt/runs
for p in "$@"; do
  t0=$(date +%s)
  VERIF_REPO=$wt VERIF_EVIDENCE_DIR=/tmp/wt/runs/ev-$n /verif/check $p > /tmp/wt/runs/$n-on-$p.log 2>&1
  rc=$?
  echo "patch=$n check=$p exit=$rc secs=$(( $(date +%s) - t0 )) $(grep -c VIOLATION /tmp/wt/runs/$n-on-$p.log) violation-lines" | tee -a /tmp/wt/runs/summary.txt
done
