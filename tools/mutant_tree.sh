#!/bin/bash
# mutant_tree.sh <ID>: scratch worktree of /repo's HEAD with seeded change <ID> applied -> /tmp/wt/m-<ID>
id=$1; wt=/tmp/wt/m-$id
git -C /repo worktree remove --force $wt 2>/dev/null; rm -rf $wt
git -C /repo worktree add -q --detach $wt HEAD || exit 2
cp /repo/Cargo.lock $wt/
src=/verif/seeded/$id/patch.diff; [ -f $src ] || src=/tmp/wt/out/$id/patch.diff
(cd $wt && git apply $src) || (cd $wt && git apply -3 $src) || { echo "patch for $id does not apply"; exit 1; }
echo $wt
