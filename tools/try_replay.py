#!/usr/local/bin/python3-vt
"""developer tool: native replay of a schedule counterexample (json file) -> prints (reproduced, path, text)"""
import os, sys, json
HERE = os.path.dirname(os.path.dirname(os.path.abspath(__file__)))
for d in ("lib", "mirsym", ""):
    sys.path.insert(0, os.path.join(HERE, d))
import gated
print(gated.run_gated(sys.argv[2] if len(sys.argv) > 2 else "C04", json.load(open(sys.argv[1]))))
