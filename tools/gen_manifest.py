#!/usr/bin/env python3
"""Regenerate MANIFEST.json from the registry below (keeps the file valid at all times)."""
import json, os
HERE = os.path.dirname(os.path.dirname(os.path.abspath(__file__)))
K = "Kani 0.68/CBMC 6.11 bounded model checking of the compiled code (unwinding assertions on)"
M = "mirsym: symbolic execution of rustc MIR -> z3 SMT queries (bounded symbolic state, inductive step)"
CHECKS = json.load(open(os.path.join(HERE, "tools", "registry.json")))
props = [json.loads(l) for l in open(os.path.join(HERE, "properties.jsonl"))]
ids = [p["id"] for p in props]
checks, na = [], []
for pid in ids:
    c = CHECKS.get(pid)
    if c and c.get("claimed"):
        checks.append({
            "property_id": pid,
            "quick_cmd": f"./check {pid} --tier quick",
            "thorough_cmd": f"./check {pid} --tier thorough",
            "evidence_file": f"evidence/{pid}.json",
            "replay_cmd_template": f"./check {pid} --replay {{path}}",
            "engine": c["engine"],
            "level_claimed": {"category": "model_checking", "text": c["text"], "design_ref": c.get("design_ref", "DESIGN.md section 5")},
            "level_note": c["note"],
            "technique": c["technique"],
        })
    else:
        na.append({"property_id": pid, "reason": (c or {}).get("reason", "check not built yet in this session; see DESIGN.md section 9 (build order)")})
man = {
    "version": 1,
    "setup_cmd": "./setup.sh",
    "hooks": {
        "guard": "cfg(kani) / cfg(test) modules injected into a scratch copy of /repo (no source change in /repo)",
        "enable": "checks copy /repo's working tree to a scratch dir and append `#[cfg(kani)] #[path=..] mod ..;` / `#[cfg(test)] ..` lines at the end of the files whose private items a harness needs; MIR is dumped from the same copy with the nightly toolchain; the lock-gated replay additionally builds its scratch copy against a run-time generated copy of the registry's parking_lot (version pinned in Cargo.lock) with one hook line in RawMutex::lock / RawRwLock::lock_shared / lock_exclusive, patched in through [patch.crates-io] of the scratch manifest, and its test binary pre-empts libc's rename/unlink/open64/write/fdatasync/fsync for gating and fault injection",
        "baseline_off_cmd": "cd /repo && cargo test --workspace --no-fail-fast --offline",
        "source_commits": [],
        "add_only": True,
    },
    "engines": [
        {"name": "K", "path": "kani/ + lib/kprop.py", "serves_properties": [p for p in ids if "K" in CHECKS.get(p, {}).get("engine", "")], "kind_free_text": K},
        {"name": "M", "path": "mirsym/ + lib/mprop.py", "serves_properties": [p for p in ids if "M" in CHECKS.get(p, {}).get("engine", "")], "kind_free_text": M},
    ],
    "checks": checks,
    "not_applicable": na,
    "notes": "Every check snapshots /repo's current working tree, regenerates its encoding (Kani harness build / MIR dump) from that snapshot, and writes evidence/<id>.json. exit 0 = all obligations discharged by the solver within the stated bounds; exit 1 = counterexample found AND reproduced natively (VIOLATION line); exit 2 = inconclusive (timeout, OOM, unmodelled construct, non-reproducing counterexample).",
}
json.dump(man, open(os.path.join(HERE, "MANIFEST.json"), "w"), indent=1)
print("claimed:", [c["property_id"] for c in checks])
