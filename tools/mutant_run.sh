#!/bin/bash
# mutant_run.sh <MUTANT_ID> <PROP>... : run checks against the seeded change (tree /tmp/wt/m-<ID>), log exit codes.
# (equivalent to `git -C /repo apply seeded/<ID>/patch.diff; ./check ...; git -C /repo checkout -- .`, without touching /repo)
m=$1; shift
[ -d /tmp/wt/m-$m ] || /verif/tools/mutant_tree.sh $m >/dev/null
mkdir -p /tmp/wt/runs
for p in "$@"; do
  t0=$(date +%s)
  VERIF_REPO=/tmp/wt/m-$m VERIF_EVIDENCE_DIR=/tmp/wt/runs/ev-$m /verif/check $p > /tmp/wt/runs/$m-on-$p.log 2>&1
  rc=$?
  echo "mutant=$m check=$p exit=$rc secs=$(( $(date +%s) - t0 )) $(grep -c VIOLATION /tmp/wt/runs/$m-on-$p.log) violation-lines" | tee -a /tmp/wt/runs/summary.txt
done
