"""C06 — CAS files are immutable and never partially visible (Engine M on effect traces)."""
import mirrun
import tprop
from props import tcommon

PROP = "C06"


def run(tier, seed, ev):
    import obl_trace as T
    Ns = [2] if tier == "quick" else [1, 2, 3]
    with mirrun.mir_executor(PROP) as (ex, scr, mir_s):
        rc = 0
        for n in Ns:
            plan = [("put.finish", [("no file under cas/ is opened for writing or written", T.p_cas_never_written, "cas_never_written", "strace"),
                                    ("staged blob complete (flushed, synced) before the rename into cas/, never written after",
                                     T.p_stage_complete_before_rename, "stage_complete_before_rename", "strace")]),
                    ("remove", [("no file under cas/ is opened for writing or written", T.p_cas_never_written, "cas_never_written", "strace")]),
                    ("checkpoint", [("no file under cas/ is opened for writing or written", T.p_cas_never_written, "cas_never_written", "strace")]),
                    ("delete_orphans", [("no file under cas/ is opened for writing or written", T.p_cas_never_written, "cas_never_written", "strace")]),
                    ("quarantine_orphans", [("no file under cas/ is opened for writing or written", T.p_cas_never_written, "cas_never_written", "strace")])]
            if n != Ns[0]:
                plan = plan[:1]
            rc = tcommon.best(rc, tprop.run_t(PROP, tier, seed, ev, ex, plan, N=n))
            if tier == "thorough":
                plan_async = [("put.finish", [("Async mode: staged blob flushed and handed to the sync thread before the rename",
                                               lambda sw, f: T.p_stage_complete_before_rename(sw, f, "async"), "stage_complete_before_rename", "strace")])]
                rc = tcommon.best(rc, tprop.run_t(PROP, tier, seed, ev, ex, plan_async, N=n, sync_mode="async"))
        import mprop
        import obl_api as A
        obs = [(f"Transaction::write x{n}: the bytes reach the staging file in the order written (= the order hashed)", "tx_write_streams",
                (lambda n: lambda ex: A.ob_tx_write(ex, n))(n)) for n in (1, 2)]
        rc = tcommon.best(rc, mprop.run_m(PROP, tier, seed, ev, ex, obs, [("src/lib.rs", "replay_content.rs", "verif_replay_content")],
                                          "replay_content_identity"))
        tcommon.fill(ev, ex, mir_s, Ns, ["a reader keeps streaming after unlink: POSIX open-file semantics (kernel)"])
        return rc
