"""C10 — a damaged log is never silently accepted.
K: the real SegmentReader::next on a damaged record (cut at any offset / any one byte of checksum or
payload changed); M: the real replay loop never applies a record at or after the damage and never
leaves a hole."""
import kprop
import mirrun
import mprop
from kprop import KH
from props import tcommon

PROP = "C10"
K_INJ = [("src/wal/storage.rs", "c10_wal_storage.rs", "verif_c10s")]
R_INJ = [("src/lib.rs", "replay_damage.rs", "verif_replay_damage")]
B_INJ = [("src/wal/mod.rs", "replay_bytelog.rs", "verif_replay_bytelog")]


def replay_k(values):
    import vlib
    with vlib.Scratch("native", tag="C10-replay") as scr:
        kprop.inject_all(scr, R_INJ, cfg="test")
        rc, out = vlib.run_native_test(scr, "replay_damaged_log")
        oc = vlib.test_outcome(out, "replay_damaged_log")
        if oc is None:
            return None, "replay did not run:\n" + out[-1500:]
        return (oc == "failed"), out[-1200:]


H = [KH("c10_reader_accepts_intact_len2", tiers=("thorough",), min_covers=1, timeout_s=2400, role="reader_intact", replay_fn=replay_k,
        desc="vacuity guard: the undamaged record IS yielded, then end-of-log", bounds="payload 2 bytes; version, payload symbolic",
        functions=["wal::storage::SegmentReader::{next,read_next_entry}"]),
     KH("c10_reader_rejects_damage_len2", vars=["ver", "p0", "p1", "cut", "t", "pos", "nv"], min_covers=3, timeout_s=2400,
        role="reader_damage", replay_fn=replay_k,
        desc="damaged record is never yielded: cut inside header -> end-of-log; cut in payload / any one byte of checksum or payload "
             "changed -> error", bounds="payload length 2 (concrete), version/payload bytes/cut offset/changed position and value symbolic; "
                                       "at most one short read per run", functions=["wal::storage::SegmentReader::{next,read_next_entry}"])]


def run(tier, seed, ev):
    import obl_replay as R
    rc_k = kprop.run_k(PROP, tier, seed, ev, K_INJ, H, jobs=2, mem_gb=40)
    with mirrun.mir_executor(PROP) as (ex, scr, mir_s):
        obs = []
        inst = [(2, 0, "error"), (2, 1, "error"), (3, 1, "error"), (2, 1, "eof")]
        if tier == "thorough":
            inst += [(3, 0, "error"), (3, 2, "error"), (3, 2, "eof"), (1, 0, "error"), (1, 0, "eof")]
        for nrec, bad, kind in inst:
            obs.append((f"replay never applies a record at/after damaged record {bad} of {nrec} ({kind})", "replay_damage",
                        (lambda a, b, c: lambda ex: R.ob_replay_damaged(ex, a, b, c))(nrec, bad, kind)))
        # the REAL SegmentReader (read_next_entry / next) inside the real replay loop, over a byte-structured log
        binst = [(2, 0, None), (2, 1, None), (2, None, (1, "header")), (2, None, (1, "payload")), (1, 0, None)]
        if tier == "thorough":
            binst += [(3, 0, None), (3, 1, None), (3, 2, None), (3, None, (2, "header")), (3, None, (2, "payload")), (1, None, (0, "payload"))]
        for nrec, dmg, cut in binst:
            what = f"record {dmg} altered" if dmg is not None else f"cut in the {cut[1]} of record {cut[0]}"
            obs.append((f"real reader + replay: {nrec} records, {what}", "reader_replay_damage",
                        (lambda a, b, c: lambda ex: R.ob_replay_real_reader(ex, a, b, c))(nrec, dmg, cut)))
        byte = lambda ob: "REAL SegmentReader" in ob.name
        rc_m = mprop.run_m(PROP, tier, seed, ev, ex, obs, lambda ob: B_INJ if byte(ob) else R_INJ,
                           lambda ob: "replay_byte_log" if byte(ob) else "replay_damaged_log")
        ev.functions = H[1].functions + ["wal::replay::WalReplayer::replay", "wal::storage::SegmentReader::{next,read_next_entry} (MIR, +closures)",
                        "wal::storage::SegmentStorage::open_reader"]
        ev.bounds = {"K": H[1].bounds, "M": "logs of 1..3 records in every grouping into segments, any one record damaged, snapshot version symbolic; "
                          "byte-structured variant: record length fields symbolic in 1..2^32-1, header fields/hash/payload abstract per record"}
        ev.stubs = sorted(ex.models.used) + ["K: File::read copies k>=1 available bytes; calculate_blob_hash -> injective toy hash (<=31 bytes)"]
        ev.assumptions = ["collision resistance of BLAKE3 (explicit)", "'cut short' = loss of a tail of the log; a hole in the middle of a "
                          "multi-segment log is not what the property states", "decoder totality (no panic on arbitrary op bytes) is C16"]
        ev.outside = ["payload lengths other than 2 in the byte-level harness", "damage to the version/length header fields (not in the property)"]
        ev.extra["mir_dump_s"] = round(mir_s, 1)
    return tcommon.best(rc_k, rc_m)
