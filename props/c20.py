"""C20 — on-disk log and snapshot are well-formed at every instant (Engine M + K leaf)."""
import mirrun
import mprop
import kprop
import tprop
from props import c02, c03, tcommon

PROP = "C20"


def run(tier, seed, ev):
    import obl_trace as T
    rc_k = kprop.run_k(PROP, tier, seed, ev, c03.K_INJ, c03.KH_LIST, jobs=1, mem_gb=30)
    with mirrun.mir_executor(PROP) as (ex, scr, mir_s):
        obs = c02.obligations(tier, ["C20"])
        rc_m = mprop.run_m(PROP, tier, seed, ev, ex, obs, c02.pick_inj, c02.pick_test)
        one = ("every record / end marker reaches its segment with a single write call", T.p_record_single_write, "record_single_write", "strace")
        snap = ("snapshot written, synced and renamed before any segment is pruned", T.p_snapshot_before_prune, "snapshot_before_prune", "strace")
        seal = ("the end marker is written only when a segment is left for good (before a new segment is opened)",
                T.p_sentinel_only_on_rollover, "sentinel_on_rollover", "strace")
        rec = ("a successful operation appends exactly one record: next unused version, right segment, encoding the applied operation",
               T.make_p_record_content(ex), "record_content", "probe:replay_api_wrappers")
        snc = ("a written snapshot holds the in-memory map and is labelled with the highest written version",
               T.make_p_snapshot_content(ex), "snapshot_content", "probe:replay_api_wrappers")
        tprop.SCEN_INJ.append(("src/lib.rs", "replay_api.rs", "verif_replay_api"))
        trunc = ("a WAL segment that may hold records is never opened with truncate", T.make_p_wal_never_truncated(ex), "wal_never_truncated", "strace")
        rc_t = tprop.run_t(PROP, tier, seed, ev, ex, [("put.finish", [one, snap, seal, rec, snc, trunc]), ("remove", [one, snap, seal, rec, snc, trunc]), ("checkpoint", [snap, snc, trunc])],
                           N=2, spill=True)
        c02.fill(ev, ex, mir_s, tier)
        rc_t = tcommon.best(rc_t, tcommon.crash_image_run(PROP, tier, seed, ev, ex, "kill"))
        # the log stays well-formed when an append FAILS: histories of two operations with at most one failed call anywhere -
        # the records that reached the log carry strictly increasing versions (none used twice)
        import obl_history as H
        from props import c14
        hist = [("put", "put")] + ([("remove", "put"), ("put", "remove")] if tier == "thorough" else [])
        hobs = [(f"history {' ; '.join(k)} with one failed call: record versions in the log strictly increase", "history",
                 (lambda k: lambda ex: H.ob_fault_history(ex, k, 2, 2))(k)) for k in hist]
        rc_t = tcommon.best(rc_t, c14.run_histories(PROP, tier, seed, ev, ex, hobs, accept=lambda role: role.startswith("version-reused")))
        # writer || checkpoint (every interleaving at lock granularity): a snapshot labelled v holds exactly the operations with
        # version <= v that were logged when it was written, and no acknowledged write is lost - so snapshot + log stays the history
        import sprop
        wplans = [(("put", "checkpoint"), 1, 1)] if tier == "quick" else [(("put", "checkpoint"), 1, 2), (("remove", "checkpoint"), 1, 2)]
        rc_t = tcommon.best(rc_t, sprop.run_s(PROP, tier, seed, ev, ex, wplans,
                                              accept=lambda role: role in ("snapshot-inconsistent", "lost-update", "deadlock", "panic")))
        ev.bounds["writer || checkpoint"] = ("2 threads (quick: put + explicit checkpoint, key universe 1, hash universe 1; thorough: put or remove, hash universe 2), "
                                             "quiet log stretch, N=8")
        ev.functions += c03.KH_LIST[0].functions + tcommon.MIR_FUNCS[:6]
        ev.bounds["write_entry payload"] = c03.KH_LIST[0].bounds
        ev.outside.append("wf(image) is decided per operation from an abstract well-formed pre-image (inductive step); record framing bytes and "
                          "checksums are Engine K's leaf (C03 single-write harness, C10 reader)")
        return tcommon.best(rc_k, tcommon.best(rc_m, rc_t))
