"""C20 — on-disk log and snapshot are well-formed at every instant (Engine M + K leaf)."""
import mirrun
import mprop
import kprop
import tprop
from props import c02, c03, tcommon

PROP = "C20"


def run(tier, seed, ev):
    import obl_trace as T
    rc_k = kprop.run_k(PROP, tier, seed, ev, c03.K_INJ, c03.KH_LIST, jobs=1, mem_gb=30)
    with mirrun.mir_executor(PROP) as (ex, scr, mir_s):
        obs = c02.obligations(tier, ["C20"])
        rc_m = mprop.run_m(PROP, tier, seed, ev, ex, obs, c02.REPLAY_INJ, "replay_api_wrappers")
        one = ("every record / end marker reaches its segment with a single write call", T.p_record_single_write, "record_single_write", "strace")
        snap = ("snapshot written, synced and renamed before any segment is pruned", T.p_snapshot_before_prune, "snapshot_before_prune", "strace")
        seal = ("the end marker is written only when a segment is left for good (before a new segment is opened)",
                T.p_sentinel_only_on_rollover, "sentinel_on_rollover", "strace")
        rec = ("a successful operation appends exactly one record: next unused version, right segment, encoding the applied operation",
               T.make_p_record_content(ex), "record_content", "probe:replay_api_wrappers")
        snc = ("a written snapshot holds the in-memory map and is labelled with the highest written version",
               T.make_p_snapshot_content(ex), "snapshot_content", "probe:replay_api_wrappers")
        tprop.SCEN_INJ.append(("src/lib.rs", "replay_api.rs", "verif_replay_api"))
        rc_t = tprop.run_t(PROP, tier, seed, ev, ex, [("put.finish", [one, snap, seal, rec, snc]), ("remove", [one, snap, seal, rec, snc]), ("checkpoint", [snap, snc])],
                           N=2, spill=True)
        c02.fill(ev, ex, mir_s, tier)
        ev.functions += c03.KH_LIST[0].functions + tcommon.MIR_FUNCS[:6]
        ev.bounds["write_entry payload"] = c03.KH_LIST[0].bounds
        ev.outside.append("wf(image) at every cut as ONE query over a symbolic disk is not built; it is assembled from: single-write records, "
                          "write/sync/rename/prune order on every path, placement/monotonicity/no-reuse arithmetic, replay's view of any wf log")
        return tcommon.best(rc_k, tcommon.best(rc_m, rc_t))
