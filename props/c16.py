"""C16 — codecs round-trip and decoders are total (Engine K; snapshot codec: Engine M)."""
import kprop
from kprop import KH

INJ = [
    ("src/serialization.rs", "c16_serialization.rs", "verif_c16"),
    ("src/types.rs", "c16_types.rs", "verif_c16t"),
]

FN_SER = ["serialization::deserialize_wal_op_raw", "serialization::serialize_wal_op_raw",
          "serialization::take_bytes", "serialization::read_u8", "serialization::read_u32",
          "serialization::read_u64", "serialization::read_fixed_bytes::<32>",
          "serialization::read_bytes_with_len"]

H = [
    KH("c16_wal_op_total_13", vars=["buf", "len"], replay="replay_c16_wal_op_total",
       desc="deserialize_wal_op_raw total + allocation-bounded on every buffer <= 13 bytes",
       bounds="buffer <= 13 bytes, unwind 4 (derived)", functions=FN_SER, role="wal_op_total", min_covers=2),
    KH("c16_wal_op_total_17", tiers=("thorough",), vars=["buf", "len"], replay="replay_c16_wal_op_total",
       desc="same, <= 17 bytes", bounds="buffer <= 17 bytes, unwind 5", functions=FN_SER, role="wal_op_total"),
    KH("c16_wal_op_total_24", tiers=("thorough",), vars=["buf", "len"], replay="replay_c16_wal_op_total",
       desc="same, <= 24 bytes", bounds="buffer <= 24 bytes, unwind 6", functions=FN_SER, role="wal_op_total",
       timeout_s=3000),
    KH("c16_wal_op_put_total_48", vars=["buf", "len"], replay="replay_c16_wal_op_total",
       desc="Put arm of the decoder on every buffer <= 48 bytes with tag 0",
       bounds="buffer <= 48 bytes, tag=0", functions=FN_SER, role="wal_op_total"),
    KH("c16_helpers_12", vars=["buf", "len", "n"], replay="replay_c16_helpers",
       desc="take_bytes/read_u8/u32/u64/read_bytes_with_len on a slice of symbolic length, "
            "requested length over all of usize", bounds="slice <= 12 bytes; n: all usize",
       functions=FN_SER, role="helpers"),
    KH("c16_fixed32_40", vars=["buf", "len"], replay="replay_c16_helpers",
       desc="read_fixed_bytes::<32>", bounds="slice <= 40 bytes", functions=FN_SER, role="helpers"),
    KH("c16_key_vec_3", vars=["raw", "l"], replay="replay_c16_keys", desc="Vec<u8> key codec round trip",
       bounds="key <= 3 bytes", functions=["<Vec<u8> as KeyBytes>::*"], role="keybytes"),
    KH("c16_key_string_2", vars=["raw", "l"], replay="replay_c16_keys",
       desc="String key: valid UTF-8 round-trips, invalid -> None, never panics",
       bounds="key <= 2 bytes, all byte values", functions=["<String as KeyBytes>::*"], role="keybytes"),
    KH("c16_walop_u32", vars=["hash"], replay="replay_c16_walop_u32",
       desc="WalOp<u32>::to_raw/from_raw round trip (Put; Remove of 2 keys incl. duplicates)",
       bounds="K=u32; any hash/size", functions=["WalOp::<K>::to_raw", "WalOp::<K>::from_raw"], role="walop"),
    KH("c16_walop_bad_key", desc="from_raw on undecodable key bytes is Err, never a panic",
       bounds="key bytes <= 5, K=u32", functions=["WalOp::<K>::from_raw"], role="walop"),
]

for _k, _t in ((0, ("thorough",)), (1, ("quick", "thorough")), (4, ("thorough",)), (8, ("thorough",))):
    H.append(KH("c16_put_roundtrip_k%d" % _k, tiers=_t, vars=["key", "klen", "hash", "size"],
                replay="replay_c16_put_roundtrip", min_covers=1,
                desc="decode(encode(Put{key,hash,size})) == same; layout 1+4+k+32+8",
                bounds="key length = %d (concrete), key bytes/hash/size symbolic" % _k,
                functions=FN_SER, role="put_roundtrip"))
for _n, _q in (("n0", False), ("n1_l2", False), ("n2_l03", False), ("n2_l31", False)):
    H.append(KH("c16_remove_roundtrip_" + _n, tiers=(("quick", "thorough") if _q else ("thorough",)),
                vars=["k0", "k1", "l0", "l1", "nkeys"], replay="replay_c16_remove_roundtrip",
                min_covers=(1 if _n.startswith("n2") else 0),
                desc="decode(encode(Remove{keys})) == same", bounds="keys/lengths: " + _n + " (lengths concrete, bytes symbolic)",
                functions=FN_SER, role="remove_roundtrip", timeout_s=2400))

for _t in ['u8', 'i8', 'u16', 'i16', 'u32', 'i32', 'u64', 'i64', 'u128', 'i128']:
    H.append(KH('c16_key_'+_t, tiers=(('quick','thorough') if _t in ('u8','i32','u64','i128') else ('thorough',)),
        desc=_t+' key codec: round trip, length check, injective', bounds='all values of '+_t+'; wrong-length inputs <= 17 bytes',
        functions=['<'+_t+' as KeyBytes>::*'], role='keybytes'))
for _n in (0,1,4):
    H.append(KH('c16_key_arr%d'%_n, tiers=(('quick','thorough') if _n==4 else ('thorough',)), desc='[u8;%d] key codec'%_n, bounds='all values',
        functions=['<[u8;N] as KeyBytes>::*'], role='keybytes'))


def run_m(tier, seed, ev):
    import mirrun
    import mprop
    import obl_codec as C
    with mirrun.mir_executor("C16") as (ex, scr, mir_s):
        lb = 3 if tier == "quick" else 4
        obs = [("op decoder total + allocation-bounded, input length symbolic/unbounded", "decoder_counts",
                lambda ex: C.ob_decoder_total(ex, "deserialize_wal_op_raw", None, "deserialize_wal_op_raw", lb)),
               ("snapshot decoder total + allocation-bounded, input length symbolic/unbounded", "decoder_counts",
                lambda ex: C.ob_decoder_total(ex, "deserialize_index_state", None, "deserialize_index_state", lb))]
        import obl_path as P
        obs.append(("blob-path decoder (BlobHash::from_relative_path) total on arbitrary paths", "path_total", lambda ex: P.ob_path_total(ex)))
        rc = mprop.run_m("C16", tier, seed, ev, ex, obs,
                         lambda ob: [("src/types.rs", "c16_types.rs", "verif_c16t")] if (ob.cex or {}).get("violation") == "path-panic"
                         else [("src/serialization.rs", "c16_serialization.rs", "verif_c16")],
                         lambda ob: "replay_c16_path_total" if (ob.cex or {}).get("violation") == "path-panic" else "replay_c16_decoder_counts")
        ev.extra["mir_dump_s"] = round(mir_s, 1)
        ev.extra["engine_M_models"] = sorted(ex.models.used)
        return rc


def run(tier, seed, ev):
    rc_m = run_m(tier, seed, ev)
    rc_k = run_k(tier, seed, ev)
    ev.bounds["Engine M blob-path decoder"] = "abstract path: 0..4+ components of arbitrary bytes and symbolic lengths, valid UTF-8 or not, character boundaries unknown; str::split_at modelled with its panic condition; hex decoding answers Ok or Err arbitrarily"
    ev.bounds["Engine M decoders"] = "input slice of symbolic length up to isize::MAX; entry/key loops unrolled 3 (quick) / 4 (thorough) times; integers decoded from the input arbitrary"
    ev.assumptions.append("Engine M: allocation bound = requested bytes <= 8 x input length + 96 (Vec growth slack); split_at_checked/split_first/copy_from_slice/to_vec/from_le_bytes are contract models, the same helpers are decided byte-wise by Kani")
    if 1 in (rc_m, rc_k):
        return 1
    return max(rc_m, rc_k)


def run_k(tier, seed, ev):
    ev.functions = sorted({f for h in H for f in h.functions})
    ev.bounds = {h.name: h.bounds for h in H if tier in h.tiers}
    ev.stubs = ["tracing::* -> no-op macros"]
    ev.assumptions = ["Kani/CBMC model of Rust std (Vec, slice) is faithful",
                      "allocation bound is stated as Vec capacity (bytes for Vec<u8>, entries<=max(4,2n) for the key vector)"]
    ev.outside = ["buffers/keys larger than the stated bounds"]
    return kprop.run_k("C16", tier, seed, ev, INJ, H)
