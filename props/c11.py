"""C11 — exclusive ownership of a database directory (what the code can get wrong; Engine M)."""
from props import tcommon

PROP = "C11"


def plan(ex, tier, first):
    import obl_trace as T
    return [("open.new", [("try_lock precedes all work; a losing open has no effect at all", T.p_lock_first, "lock_first", "probe:replay_open_exclusive"),
                          ("the locked handle is stored in the returned store", T.p_lock_kept, "lock_kept", "probe:replay_open_exclusive")])]


def run(tier, seed, ev):
    rc = tcommon.generic_run(PROP, tier, seed, ev, plan, [
        "mutual exclusion of two flock()s on one file across threads/processes and release on process death are the kernel's "
        "contract (outside); LOCK is opened with truncate on an always-empty file: not counted as modifying a database file",
        "Index::load (recovery) is abstracted to one effect here"], Ns_quick=(2,), Ns_thorough=(2,))
    ev.functions = ["cas::CasInner::<K>::new", "settings::SettingsPersister::{load,save}", "io::atomically_write_file_bytes"]
    return rc
