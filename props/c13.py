"""C13 — an abandoned transaction leaves no trace (Engine M on effect traces)."""
from props import tcommon

PROP = "C13"


def plan(ex, tier, first):
    import obl_trace as T
    p = ("an un-finished transaction only creates/unlinks its own FRESH staging file; no lock, no intent, no WAL, no cas/ path",
         T.p_abandon_only_staging, "abandon_only_staging", "strace")
    gone = ("when the drop of an un-finished transaction returns, its staging file has been unlinked", T.p_abandon_removes_staging,
            "abandon_removes_staging", "probe:replay_abandon_leaves_nothing")
    return [("put.new", [p]), ("tx.write", [p]), ("tx.drop", [p, gone])]


def run(tier, seed, ev):
    import mirrun
    import sprop
    rc1 = tcommon.generic_run(PROP, tier, seed, ev, plan, [
        "tempfile::NamedTempFile::new_in creates a fresh, exclusively created name and unlinks it on drop (crate contract)",
        "interleavings: a commit that ABORTS after registering its intent (one injected failure of the rename into cas/) while another "
        "commit on the same key is in flight: the abort reverts only its own intent - no dangling reference at any instant, no intent left "
        "behind or taken away when all calls have returned"],
        Ns_thorough=(2,))
    with mirrun.mir_executor(PROP + "s") as (ex, scr, mir_s):
        import mprop
        import obl_api as A
        rc3 = mprop.run_m(PROP, tier, seed, ev, ex, [
            ("a transaction written to and dropped without finish, then a put: nothing of the abandoned one reaches it", "abandon_then_put",
             lambda ex: A.ob_tx_write(ex, 1 if tier == "quick" else 2, abandon_first=True))],
            [("src/lib.rs", "replay_content.rs", "verif_replay_content")], "replay_content_identity")
        rc1 = tcommon.best(rc1, rc3)
        plans = [(("put", "put"), 1, 2, dict(faults=1))]
        if tier == "thorough":
            plans.append((("put", "remove"), 1, 2, dict(faults=1)))    # an aborted commit against a concurrent remove of the same key
        # D4 (two successful puts on one key clobber each other's intent) is C04's known finding, not an aborted transaction
        rc2 = sprop.run_s(PROP, tier, seed, ev, ex, plans, accept=lambda role: role != "same_key_intent_clobber")
        ev.bounds["interleavings"] = ("put||put on one key (thorough: also put||remove), hash universe 2, at most one injected failure at the rename into cas/; "
                                      "arbitrary initial index and blob set; quiet log stretch")
        ev.functions.append("threads: Transaction::commit x2 incl. IntentGuard::drop on the error path - full MIR, interleaved")
    return tcommon.best(rc1, rc2)
