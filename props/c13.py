"""C13 — an abandoned transaction leaves no trace (Engine M on effect traces)."""
from props import tcommon

PROP = "C13"


def plan(ex, tier, first):
    import obl_trace as T
    p = ("an un-finished transaction only creates/unlinks its own FRESH staging file; no lock, no intent, no WAL, no cas/ path",
         T.p_abandon_only_staging, "abandon_only_staging", "strace")
    return [("put.new", [p]), ("tx.write", [p]), ("tx.drop", [p])]


def run(tier, seed, ev):
    return tcommon.generic_run(PROP, tier, seed, ev, plan, [
        "tempfile::NamedTempFile::new_in creates a fresh, exclusively created name and unlinks it on drop (crate contract)"],
        Ns_thorough=(2,))
