"""C04 — no dangling reference under any interleaving of writers: the lock/intent discipline that makes
the protocol's blocks atomic, decided on every path (Engine M)."""
from props import tcommon

PROP = "C04"


def plan(ex, tier, first):
    import obl_trace as T
    unl = ("every blob unlink happens while the pending_intents lock is held", T.p_unlink_under_intents,
           "unlink_under_intents", "probe:replay_unlink_under_intents")
    ibr = ("a commit registers its intent before its blob appears under cas/", T.make_p_intent_before_rename(ex),
           "intent_before_rename", "probe:replay_intent_before_rename")
    reg = ("intent is still registered when the index apply runs", T.make_p_intent_at_apply(ex),
           "register_intent", "probe:replay_register_intent")
    # orphan clean-up: confirmed by a lock probe at the system-call layer (is the intents mutex locked at the very unlink/rename?)
    unl_o = (unl[0], unl[1], "orphan_unlink_under_intents", "gatedprobe:replay_orphan_unlink_probe")
    p = [("put.finish", [unl, ibr, reg]), ("remove", [unl]), ("delete_orphan", [unl_o]), ("delete_orphans", [unl_o]),
         ("quarantine_orphans", [("orphan quarantine happens under the pending_intents lock", T.p_quarantine_under_intents,
                                  "orphan_unlink_under_intents", "gatedprobe:replay_orphan_unlink_probe")])]
    if tier == "thorough" and first:
        p.append(("remove_range", [unl]))
    return p


def run(tier, seed, ev):
    import mirrun
    import sprop
    rc1 = tcommon.generic_run(PROP, tier, seed, ev, plan, [
        "what is decided: the discipline under which the protocol steps are atomic (unlink only under the intents lock, "
        "intent registered before the blob is visible and kept until the index apply, filter against all intents)",
        "interleavings: the real operations run as threads over one shared symbolic store; the scheduler forks over every enabled "
        "thread at every lock acquisition and blob-directory call; at every scheduling point with the state write lock free, every "
        "key in the index must map to an existing blob"])
    with mirrun.mir_executor(PROP + "s") as (ex, scr, mir_s):
        # a THIRD commit stopped inside its window (intent registered through the real register_intent, blob renamed): nothing the
        # two explored threads do may delete its blob or take its intent away ("for some variants a third actor")
        plans = [(("put", "put"), 1, 2), (("put", "remove"), 1, 2), (("put", "remove"), 2, 2, dict(inflight="pinned"))]
        if tier == "thorough":
            plans += [(("put", "remove"), 2, 2, dict(inflight=True)), (("put", "delete_orphan"), 2, 2, dict(inflight=True)),
                      (("remove", "remove"), 2, 2, dict(inflight="pinned"))]
            # put||put also with ONE failed rename into cas/ anywhere (a commit that aborts after registering its intent;
            # the quick tier of C13 runs the same exploration)
            plans += [(("put", "put"), 1, 2, dict(faults=1)), (("put", "remove"), 2, 2), (("put", "put"), 2, 2), (("remove", "remove"), 2, 2), (("put", "delete_orphan"), 2, 2)]
        rc2 = sprop.run_s(PROP, tier, seed, ev, ex, plans)
        ev.bounds["faults in interleavings"] = "thorough: put||put with at most one injected failure, at the rename of a staged blob into cas/ (the call between register_intent and the index apply)"
        ev.bounds["third actor"] = ("one more put, stopped between its rename into cas/ and its index apply for the whole exploration; its key differs from the "
                                    "explored puts' keys (two commits on one key = known finding D4); quick: thread keys pinned to the first key of the universe")
        ev.bounds["interleavings"] = "2 threads; key universe 1 (quick) / 2 (thorough), hash universe 2; arbitrary initial index and blob set (referenced + orphans); quiet log stretch (no rollover), N=8"
        ev.functions.append("threads: Transaction::commit, CasInner::remove, OrphanStats::delete_orphan — full MIR, interleaved")
    return tcommon.best(rc1, rc2)
