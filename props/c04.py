"""C04 — no dangling reference under any interleaving of writers: the lock/intent discipline that makes
the protocol's blocks atomic, decided on every path (Engine M)."""
from props import tcommon

PROP = "C04"


def plan(ex, tier, first):
    import obl_trace as T
    unl = ("every blob unlink happens while the pending_intents lock is held", T.p_unlink_under_intents,
           "unlink_under_intents", "probe:replay_unlink_under_intents")
    ibr = ("a commit registers its intent before its blob appears under cas/", T.make_p_intent_before_rename(ex),
           "intent_before_rename", "probe:replay_intent_before_rename")
    reg = ("intent is still registered when the index apply runs", T.make_p_intent_at_apply(ex),
           "register_intent", "probe:replay_register_intent")
    p = [("put.finish", [unl, ibr, reg]), ("remove", [unl]), ("delete_orphan", [unl]), ("delete_orphans", [unl]),
         ("quarantine_orphans", [("orphan quarantine happens under the pending_intents lock", T.p_quarantine_under_intents,
                                  "unlink_under_intents", "probe:replay_unlink_under_intents")])]
    if tier == "thorough" and first:
        p.append(("remove_range", [unl]))
    return p


def run(tier, seed, ev):
    return tcommon.generic_run(PROP, tier, seed, ev, plan, [
        "what is decided: the discipline under which the protocol steps are atomic (unlink only under the intents lock, "
        "intent registered before the blob is visible and kept until the index apply, filter against all intents)",
        "NOT decided here: the bounded interleaving model of section 4.2 of DESIGN.md (schedules as symbolic variables) — see "
        "known limitations; D4 (one intent slot per key) is therefore outside this check"])
