"""C09 — power-loss durability in Sync mode: the sync-ordering protocol, decided on effect traces."""
from props import tcommon

PROP = "C09"


def plan(ex, tier, first):
    import obl_trace as T
    wal = ("WAL record written and fdatasync'ed before the blob it un-references is unlinked",
           T.p_wal_durable_before_unlink, "wal_durable_before_unlink", "strace")
    snap = ("snapshot written, fdatasync'ed and renamed before any WAL segment is pruned",
            T.p_snapshot_before_prune, "snapshot_before_prune", "strace")
    stage = ("staged blob flushed and fdatasync'ed before the rename into cas/",
             T.p_stage_complete_before_rename, "stage_complete_before_rename", "strace")
    p = [("put.finish", [stage, wal, snap]), ("remove", [wal, snap]), ("checkpoint", [snap])]
    if tier == "thorough" and first:
        p.append(("remove_range", [wal, snap]))
    return p


def run(tier, seed, ev):
    return tcommon.generic_run(PROP, tier, seed, ev, plan, [
        "power-loss model of the property: bytes not covered by a completed fdatasync of their file may be lost, directory "
        "operations persist in issue order; only SyncMode::Sync is claimed",
        "this check decides the ORDER of write/fdatasync/rename/unlink effects on every path; the image-level statement "
        "(every cut image recovers to old or old+op) is C03/C20's obligation"])
