"""C09 — power-loss durability in Sync mode: the sync-ordering protocol, decided on effect traces."""
from props import tcommon

PROP = "C09"


def plan(ex, tier, first):
    import obl_trace as T
    wal = ("WAL record written and fdatasync'ed before the blob it un-references is unlinked",
           T.p_wal_durable_before_unlink, "wal_durable_before_unlink", "strace")
    snap = ("snapshot written, fdatasync'ed and renamed before any WAL segment is pruned",
            T.p_snapshot_before_prune, "snapshot_before_prune", "strace")
    stage = ("staged blob flushed and fdatasync'ed before the rename into cas/",
             T.p_stage_complete_before_rename, "stage_complete_before_rename", "strace")
    ack = ("an operation is acknowledged (returns Ok) only after its WAL record was written and fdatasync'ed",
           T.p_ack_after_wal_sync, "ack_after_wal_sync", "strace")
    p = [("put.finish", [stage, wal, snap, ack]), ("remove", [wal, snap, ack]), ("checkpoint", [snap])]
    if tier == "thorough" and first:
        p.append(("remove_range", [wal, snap]))
    return p


def run(tier, seed, ev):
    rc = tcommon.generic_run(PROP, tier, seed, ev, plan, [
        "power-loss model of the property: bytes not covered by a completed fdatasync of their file may be lost, directory "
        "operations persist in issue order; only SyncMode::Sync is claimed",
        "the ORDER of write/fdatasync/rename/unlink effects on every path, and the image-level statement: at every cut, for every "
        "choice of files losing their unsynced bytes, the image recovers to old or old+op with intact blobs; acknowledged => old+op"])
    import mirrun
    with mirrun.mir_executor(PROP + "i") as (ex, scr, mir_s):
        rc = tcommon.best(rc, tcommon.crash_image_run(PROP, tier, seed, ev, ex, "power"))
    return rc
