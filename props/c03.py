"""C03 — crash at any instant: acknowledged ops survive, in-flight op is atomic.
Decided here: (K) one WAL record = one write call for every payload length up to 9000 bytes;
(M) the order of effects on every path of every mutating entry point (what a process-kill cut
between two calls can leave behind)."""
import kprop
from kprop import KH
from props import tcommon

PROP = "C03"
K_INJ = [("src/wal/storage.rs", "c03_wal_storage.rs", "verif_c03s")]


def replay_single_write(values):
    import tprop
    import straceplay
    import obl_trace as T
    ev, ok, out = tprop.real_trace()
    if not ev:
        return None, "scenario produced no trace: " + out
    v = T.p_record_single_write(None, straceplay.FakeFinal(ev))
    if v is not None:
        return True, f"real system-call trace: {v[1]} (scenario writes a 9000-byte key)"
    return False, "real trace: every WAL record was written with one write call"


KH_LIST = [KH("c03_write_entry_single_write", vars=["len"], min_covers=3, timeout_s=1500, role="record_single_write",
              replay_fn=replay_single_write,
              desc="SegmentWriter::write_entry through its real BufWriter<File>: the whole record (44-byte header + payload) "
                   "reaches the file with ONE write call and before its fdatasync, for every payload length",
              bounds="payload length symbolic in 1..=9000 (brackets the 8192-byte BufWriter capacity); full writes",
              functions=["wal::storage::SegmentWriter::write_entry", "std::io::BufWriter<File>::{write_all,flush}"])]


def plan(ex, tier, first):
    import obl_trace as T
    wal = ("WAL record written and fdatasync'ed before the blob it un-references is unlinked",
           T.p_wal_durable_before_unlink, "wal_durable_before_unlink", "strace")
    snap = ("snapshot written, synced and renamed before any WAL segment is pruned",
            T.p_snapshot_before_prune, "snapshot_before_prune", "strace")
    stage = ("staged blob complete before the rename into cas/ (no partial blob visible at any cut)",
             T.p_stage_complete_before_rename, "stage_complete_before_rename", "strace")
    one = ("every WAL record / end marker reaches its segment with a single write call",
           T.p_record_single_write, "record_single_write", "strace")
    ack = ("an operation returns Ok only after its WAL record was written and fdatasync'ed",
           T.p_ack_after_wal_sync, "ack_after_wal_sync", "strace")
    rec = ("a successful operation appends exactly one record: next unused version, right segment, encoding the applied operation",
           T.make_p_record_content(ex), "record_content", "probe:replay_api_wrappers")
    snc = ("a written snapshot holds the in-memory map and is labelled with the highest written version",
           T.make_p_snapshot_content(ex), "snapshot_content", "probe:replay_api_wrappers")
    import tprop
    if ("src/lib.rs", "replay_api.rs", "verif_replay_api") not in tprop.SCEN_INJ:
        tprop.SCEN_INJ.append(("src/lib.rs", "replay_api.rs", "verif_replay_api"))
    p = [("put.finish", [stage, wal, snap, one, ack, rec, snc]), ("remove", [wal, snap, one, ack, rec, snc]), ("checkpoint", [snap, one, snc])]
    if tier == "thorough" and first:
        p.append(("remove_range", [wal, snap, one, ack]))
    return p


def run(tier, seed, ev):
    rc_k = kprop.run_k(PROP, tier, seed, ev, K_INJ, KH_LIST, jobs=1, mem_gb=30)
    rc_m = tcommon.generic_run(PROP, tier, seed, ev, plan, [
        "process-kill model: completed file-system calls persist, a crash falls between two calls",
        "K stubs: File::write accepts the whole buffer, File::sync_data -> Ok, libc::close -> 0",
        "image-level recovery (replay of every cut image gives old or old+op) is argued from these ordering facts plus "
        "C02/C20's replay obligations; it is not yet a single solver query (see DESIGN.md, status)"],
        worlds=[{"spill": True}])
    ev.functions = ev.functions + KH_LIST[0].functions
    ev.bounds["write_entry payload"] = KH_LIST[0].bounds
    return tcommon.best(rc_k, rc_m)
