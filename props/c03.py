"""C03 — crash at any instant: acknowledged ops survive, in-flight op is atomic.
Decided here: (K) one WAL record = one write call for every payload length up to 9000 bytes;
(M) the order of effects on every path of every mutating entry point (what a process-kill cut
between two calls can leave behind)."""
import kprop
from kprop import KH
from props import tcommon

PROP = "C03"
K_INJ = [("src/wal/storage.rs", "c03_wal_storage.rs", "verif_c03s")]


def replay_single_write(values):
    import tprop
    import straceplay
    import obl_trace as T
    ev, ok, out = tprop.real_trace()
    if not ev:
        return None, "scenario produced no trace: " + out
    v = T.p_record_single_write(None, straceplay.FakeFinal(ev))
    if v is not None:
        return True, f"real system-call trace: {v[1]} (scenario writes a 9000-byte key)"
    return False, "real trace: every WAL record was written with one write call"


KH_LIST = [KH("c03_write_entry_single_write", vars=["len"], min_covers=3, timeout_s=1500, role="record_single_write",
              replay_fn=replay_single_write,
              desc="SegmentWriter::write_entry through its real BufWriter<File>: the whole record (44-byte header + payload) "
                   "reaches the file with ONE write call and before its fdatasync, for every payload length",
              bounds="payload length symbolic in 1..=9000 (brackets the 8192-byte BufWriter capacity); full writes",
              functions=["wal::storage::SegmentWriter::write_entry", "std::io::BufWriter<File>::{write_all,flush}"])]


def plan(ex, tier, first):
    import obl_trace as T
    wal = ("WAL record written and fdatasync'ed before the blob it un-references is unlinked",
           T.p_wal_durable_before_unlink, "wal_durable_before_unlink", "strace")
    snap = ("snapshot written, synced and renamed before any WAL segment is pruned",
            T.p_snapshot_before_prune, "snapshot_before_prune", "strace")
    stage = ("staged blob complete before the rename into cas/ (no partial blob visible at any cut)",
             T.p_stage_complete_before_rename, "stage_complete_before_rename", "strace")
    one = ("every WAL record / end marker reaches its segment with a single write call",
           T.p_record_single_write, "record_single_write", "strace")
    ack = ("an operation returns Ok only after its WAL record was written and fdatasync'ed",
           T.p_ack_after_wal_sync, "ack_after_wal_sync", "strace")
    rec = ("a successful operation appends exactly one record: next unused version, right segment, encoding the applied operation",
           T.make_p_record_content(ex), "record_content", "probe:replay_api_wrappers")
    snc = ("a written snapshot holds the in-memory map and is labelled with the highest written version",
           T.make_p_snapshot_content(ex), "snapshot_content", "probe:replay_api_wrappers")
    import tprop
    if ("src/lib.rs", "replay_api.rs", "verif_replay_api") not in tprop.SCEN_INJ:
        tprop.SCEN_INJ.append(("src/lib.rs", "replay_api.rs", "verif_replay_api"))
    trunc = ("a WAL segment that may hold records is never opened with truncate", T.make_p_wal_never_truncated(ex), "wal_never_truncated", "strace")
    init = ("first-time initialisation: until the index is loaded only idempotent effects and the atomic installation of a complete, synced settings file",
            T.p_init_crash_safe, "init_crash_safe", "crash")
    p = [("open.new", [init]), ("put.finish", [stage, wal, snap, one, ack, rec, snc, trunc]), ("remove", [wal, snap, one, ack, rec, snc, trunc]), ("checkpoint", [snap, one, snc, trunc])]
    if tier == "thorough" and first:
        p.append(("remove_range", [wal, snap, one, ack]))
    return p


def run(tier, seed, ev):
    rc_k = kprop.run_k(PROP, tier, seed, ev, K_INJ, KH_LIST, jobs=1, mem_gb=30)
    rc_m = tcommon.generic_run(PROP, tier, seed, ev, plan, [
        "process-kill model: completed file-system calls persist, a crash falls between two calls",
        "K stubs: File::write accepts the whole buffer, File::sync_data -> Ok, libc::close -> 0",
        "image level: after every filesystem effect of every path the abstract disk image recovers (textbook replay) to the old map or the "
        "old map plus the operation, with every key's blob present; acknowledged => the new map (obl_crash.py); the real replay loop's "
        "agreement with the textbook replay on well-formed logs is C02's obligation"],
        worlds=[{"spill": True}])
    import mirrun, mprop
    import obl_replay as R
    with mirrun.mir_executor(PROP + "r") as (ex, scr, mir_s):
        rc_r = mprop.run_m(PROP, tier, seed, ev, ex, [("recovery (replay_and_prepare): next above everything seen, own segment created+synced, no existing segment truncated",
                                                       "replay_prepare", lambda ex: R.ob_prepare(ex))],
                           [("src/lib.rs", "replay_api.rs", "verif_replay_api")], "replay_recovery_crash")
        import obl_init as I
        rc_r = tcommon.best(rc_r, mprop.run_m(PROP, tier, seed, ev, ex, [
            ("first-time directory pre-creation is restartable (a kill inside the loop, then a second initialisation)", "precreate_restart",
             lambda ex: I.ob_precreate_restart(ex, 2 if tier == "quick" else 3))],
            [("src/lib.rs", "replay_open.rs", "verif_replay_open")], "replay_precreate_restart"))
        rc_r = tcommon.best(rc_r, tcommon.crash_image_run(PROP, tier, seed, ev, ex, "kill"))
        rc_r = tcommon.best(rc_r, tcommon.recovery_image_run(PROP, tier, seed, ev, ex))
    rc_m = tcommon.best(rc_m, rc_r)
    ev.functions = ev.functions + KH_LIST[0].functions
    ev.bounds["write_entry payload"] = KH_LIST[0].bounds
    ev.bounds["directory pre-creation"] = ("pre_create_all_cas_directories run from its MIR with the fan-out 256 replaced by 2 (quick) / 3 (thorough) over a "
                                           "directory-set model: any initial subset of buckets and leaves (a leaf needs its bucket)")
    return tcommon.best(rc_k, rc_m)
