"""Shared plan pieces for the trace-predicate properties (C03, C04, C06, C08, C09, C13)."""


MIR_FUNCS = ["transaction::Transaction::<K>::{new,commit}", "index::manager::Index::<K>::{register_intent,apply_put_op,apply_remove_op,"
             "checkpoint,checkpoint_inner,apply_wal_op_unsafe}", "index::manager::IntentGuard::{commit,drop}",
             "wal::manager::WalManager::{append_op,commit_checkpoint,compute_checkpoint_target,...}",
             "wal::storage::{SegmentWriter::{write_entry,seal,close},SegmentStorage::{open_writer,prune_stale_segments}}",
             "index::persistence::IndexStatePersister::save", "io::atomically_write_file_bytes",
             "cas_manager::CasManager::{commit_blob,delete_blobs}", "cas::CasInner::<K>::{remove,remove_range,checkpoint,fdatasync}",
             "orphan::OrphanStats::<K>::{delete_orphan,delete_orphans,quarantine_orphans}"]


def fill(ev, ex, mir_s, Ns, extra_assume=()):
    ev.functions = MIR_FUNCS
    ev.bounds = {"key universe": 2, "hash universe": 2, "num_ops_per_wal": Ns,
                 "paths": "all feasible paths of each entry point from an arbitrary in-memory state (index map, refcounts, "
                          "pending intents of other threads, WAL position/active writer, checkpoint version, directory listing: symbolic)"}
    ev.stubs = sorted(ex.models.used)
    ev.assumptions = ["std::fs / File / BufWriter / tempfile calls are modelled as effect events with symbolic outcomes",
                      "byte-level leaves (record framing, snapshot bytes) are abstract here; Engine K decides them"] + list(extra_assume)
    ev.outside = ["more keys/hashes than the universe", "segment sizes other than the listed ones for path reachability"]
    ev.extra["mir_dump_s"] = round(mir_s, 1)
    ev.extra["solver_queries"] = ex.queries
    ev.extra["transitions"] = sum(int(o.get("paths", 0)) for o in ev.obligations)


def best(a, b):
    """combine exit codes: violation (1) dominates, then inconclusive (2), then ok (0)"""
    if 1 in (a, b):
        return 1
    return max(a, b)


def generic_run(PROP, tier, seed, ev, plan_fn, extra_assume=(), Ns_quick=(2,), Ns_thorough=(1, 2, 3), worlds=None):
    import mirrun
    import tprop
    Ns = list(Ns_quick if tier == "quick" else Ns_thorough)
    with mirrun.mir_executor(PROP) as (ex, scr, mir_s):
        rc = 0
        for i, n in enumerate(Ns):
            plan = plan_fn(ex, tier, first=(i == 0))
            for w in (worlds or [{}]):
                rc = best(rc, tprop.run_t(PROP, tier, seed, ev, ex, plan, N=n, **w))
        fill(ev, ex, mir_s, Ns, extra_assume)
        return rc


def crash_image_run(PROP, tier, seed, ev, ex, mode, tags=None, inst=None):
    """image-level crash obligations (obl_crash): every cut of one operation, process-kill or power-loss
    model, counterexamples replayed by killing the real process at every filesystem call (lib/crashplay.py)"""
    import mprop
    import obl_crash as C
    import crashplay
    if inst is not None:
        tags = inst
    if mode == "kill":
        inst = [("put.finish", 2, 2, 2, "sync"), ("put.finish", 1, 2, 1, "sync"), ("put.finish", 1, 2, 2, "async"),
                ("remove", 2, 2, 2, "sync"), ("checkpoint", 2, 2, 2, "sync")]
        if tier == "thorough":
            inst += [("put.finish", 2, 2, 3, "sync"), ("put.finish", 2, 2, 1, "sync"), ("put.finish", 2, 2, 2, "async"), ("remove", 2, 2, 1, "sync"),
                     ("remove", 2, 2, 3, "sync"), ("remove_range", 2, 2, 2, "sync"), ("remove_range", 2, 1, 1, "sync"), ("checkpoint", 2, 2, 1, "sync"),
                     ("checkpoint", 2, 2, 3, "sync")]
    else:
        inst = [("put.finish", 2, 2, 2, "sync"), ("put.finish", 1, 2, 1, "sync"), ("remove", 2, 2, 2, "sync"), ("checkpoint", 2, 2, 2, "sync")]
        if tier == "thorough":
            inst += [("put.finish", 2, 2, 3, "sync"), ("put.finish", 2, 2, 1, "sync"), ("remove", 2, 2, 1, "sync"), ("remove", 2, 2, 3, "sync"),
                     ("remove_range", 2, 2, 2, "sync"), ("checkpoint", 2, 2, 3, "sync")]
    if tags is not None:
        inst = tags
    obs = []
    for (name, U, HU, N, sm) in inst:
        obs.append((f"disk image at every {'kill' if mode == 'kill' else 'power-loss'} cut of {name} (U={U}, HU={HU}, N={N}, {sm})", "crash_image",
                    (lambda a, b, c, d, e: lambda ex: C.ob_crash_image(ex, a, b, c, d, mode, e))(name, U, HU, N, sm)))
    rc = mprop.run_m(PROP, tier, seed, ev, ex, obs, replay_fn=lambda ob: crashplay.crash_replay(ob.cex))
    ev.functions = list(ev.functions) + ["(image level) transaction::Transaction::commit, cas::CasInner::{remove,remove_range,checkpoint} with everything they call"]
    ev.bounds["crash image"] = ("one operation from an arbitrary store (key universe 1-2, hash universe 1-2, WAL position / snapshot version / active "
                                "writer symbolic, N concrete per instance); a solver query after every image-changing filesystem effect of every path; "
                                + ("process-kill model (completed calls persist)" if mode == "kill" else
                                   "power-loss model: one free Boolean per file decides whether its unsynced bytes are lost"))
    ev.assumptions = list(ev.assumptions) + ["image level: the durable pre-image is abstract (snapshot + base records whose replay yields the in-memory map, each "
                                             "in the segment of its version); that the real replay computes the textbook replay of a well-formed log is C02/C10",
                                             "image level: rename/unlink are atomic and persist in issue order"]
    return rc


def recovery_image_run(PROP, tier, seed, ev, ex):
    """start-up recovery (the real Index::load) on an explicit snapshot + log image, crash cut after every effect
    (obl_recover); counterexamples replayed by killing the real process inside a real recovery"""
    import mprop
    import obl_recover as R
    import crashplay
    inst = [(0, 1, 1, 2), (1, 1, 2, 2), (2, 2, 2, 2)]
    if tier == "thorough":
        inst += [(1, 2, 2, 1), (2, 2, 2, 1), (2, 2, 2, 3), (1, 2, 2, 3)]
    obs = [(f"disk image at every crash cut of start-up recovery: snapshot + {n} log records (U={U}, HU={HU}, N={N})", "recovery_image",
            (lambda a, b, c, d: lambda ex: R.ob_recovery_image(ex, a, b, c, d))(n, U, HU, N)) for (n, U, HU, N) in inst]
    rc = mprop.run_m(PROP, tier, seed, ev, ex, obs, replay_fn=lambda ob: crashplay.crash_replay(ob.cex))
    ev.functions = list(ev.functions) + ["index::manager::Index::load (+apply closure), wal::manager::WalManager::{new,replay_and_prepare}, wal::replay::WalReplayer::replay, "
                                         "wal::storage::SegmentStorage::ensure_segment_file_exists, index::state::IndexState::{apply_logical_op,recompute_stats}, Index::checkpoint(AfterReplay)"]
    ev.bounds["recovery image"] = ("snapshot = arbitrary invariant-satisfying index state (1-2 keys, 1-2 hashes) with symbolic version; log of 0..2 records with symbolic "
                                   "versions/segments/operations in every grouping into segments, N concrete per instance; one query per image-changing effect of every path")
    ev.assumptions = list(ev.assumptions) + ["recovery image: reading the snapshot file and the record reader are models here (decided in C12/C16 and C02/C10)"]
    return rc
