"""Shared plan pieces for the trace-predicate properties (C03, C04, C06, C08, C09, C13)."""


MIR_FUNCS = ["transaction::Transaction::<K>::{new,commit}", "index::manager::Index::<K>::{register_intent,apply_put_op,apply_remove_op,"
             "checkpoint,checkpoint_inner,apply_wal_op_unsafe}", "index::manager::IntentGuard::{commit,drop}",
             "wal::manager::WalManager::{append_op,commit_checkpoint,compute_checkpoint_target,...}",
             "wal::storage::{SegmentWriter::{write_entry,seal,close},SegmentStorage::{open_writer,prune_stale_segments}}",
             "index::persistence::IndexStatePersister::save", "io::atomically_write_file_bytes",
             "cas_manager::CasManager::{commit_blob,delete_blobs}", "cas::CasInner::<K>::{remove,remove_range,checkpoint,fdatasync}",
             "orphan::OrphanStats::<K>::{delete_orphan,delete_orphans,quarantine_orphans}"]


def fill(ev, ex, mir_s, Ns, extra_assume=()):
    ev.functions = MIR_FUNCS
    ev.bounds = {"key universe": 2, "hash universe": 2, "num_ops_per_wal": Ns,
                 "paths": "all feasible paths of each entry point from an arbitrary in-memory state (index map, refcounts, "
                          "pending intents of other threads, WAL position/active writer, checkpoint version, directory listing: symbolic)"}
    ev.stubs = sorted(ex.models.used)
    ev.assumptions = ["std::fs / File / BufWriter / tempfile calls are modelled as effect events with symbolic outcomes",
                      "byte-level leaves (record framing, snapshot bytes) are abstract here; Engine K decides them"] + list(extra_assume)
    ev.outside = ["more keys/hashes than the universe", "segment sizes other than the listed ones for path reachability"]
    ev.extra["mir_dump_s"] = round(mir_s, 1)
    ev.extra["solver_queries"] = ex.queries
    ev.extra["transitions"] = sum(int(o.get("paths", 0)) for o in ev.obligations)


def best(a, b):
    """combine exit codes: violation (1) dominates, then inconclusive (2), then ok (0)"""
    if 1 in (a, b):
        return 1
    return max(a, b)


def generic_run(PROP, tier, seed, ev, plan_fn, extra_assume=(), Ns_quick=(2,), Ns_thorough=(1, 2, 3), worlds=None):
    import mirrun
    import tprop
    Ns = list(Ns_quick if tier == "quick" else Ns_thorough)
    with mirrun.mir_executor(PROP) as (ex, scr, mir_s):
        rc = 0
        for i, n in enumerate(Ns):
            plan = plan_fn(ex, tier, first=(i == 0))
            for w in (worlds or [{}]):
                rc = best(rc, tprop.run_t(PROP, tier, seed, ev, ex, plan, N=n, **w))
        fill(ev, ex, mir_s, Ns, extra_assume)
        return rc
