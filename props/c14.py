"""C14 — a failed I/O call is contained to the operation that hit it (Engine M: one symbolic fault at
every I/O call of every path)."""
import mirrun
import tprop
from props import tcommon

PROP = "C14"


def run(tier, seed, ev):
    import obl_trace as T
    with mirrun.mir_executor(PROP) as (ex, scr, mir_s):
        tprop.SCEN_INJ.append(("src/lib.rs", "replay_faults.rs", "verif_replay_faults"))
        clean = ("with one failed I/O call anywhere the operation still returns (no panic, no hang) and releases every lock",
                 T.p_returns_clean, "returns_clean", "probe:replay_fault_containment")
        nodangle = ("no blob that is still referenced when the operation returns was unlinked by it",
                    T.make_p_no_unlink_of_referenced(ex), "no_unlink_of_referenced", "probe:replay_fault_containment")
        cons = ("the in-memory index stays exact and keys other than the operation's own are untouched",
                T.make_p_state_consistent(ex), "state_consistent", "probe:replay_fault_containment")
        big = tier == "thorough"
        plan = [("put.finish", [clean, nodangle, cons]), ("remove", [clean, nodangle, cons]), ("checkpoint", [clean, cons]),
                ("delete_orphans", [clean, nodangle])]
        if big:
            plan.append(("remove_range", [clean, nodangle]))
        rc = tprop.run_t(PROP, tier, seed, ev, ex, plan, U=2, HU=2, N=2, faults=1)
        tcommon.fill(ev, ex, mir_s, [2], [
            "fault model of the property: ONE call fails (EIO/ENOSPC-style, no side effect) — every I/O call on every path is a "
            "candidate (symbolic choice); the failed call leaves no bytes behind",
            "NOT decided: what later operations and a reopen do after the contained fault (J_f induction of DESIGN 4.1) — in particular "
            "the suspected ghost-record scenario D6 (WAL record written, fdatasync fails) is outside this check"])
        ev.bounds["key universe"] = 2
        ev.bounds["faults"] = "exactly 0 or 1 failing call per path, at any I/O call (open/write/flush/sync/rename/unlink/mkdir/read_dir/create-temp)"
        return rc
