"""C14 — a failed I/O call is contained to the operation that hit it (Engine M: one symbolic fault at
every I/O call of every path)."""
import mirrun
import tprop
from props import tcommon

PROP = "C14"


def run_histories(prop, tier, seed, ev, ex, obs, accept=None):
    """like mprop.run_m but every distinct role of counterexample is handled on its own (a listed finding
    never masks another violation)"""
    import time
    import vlib
    import kprop
    from vlib import log
    rc, viol = 0, False
    INJ = [("src/lib.rs", "replay_ghost.rs", "verif_replay_ghost")]
    for name, _, thunk in obs:
        try:
            ob = thunk(ex)
        except Exception as e:
            log(f"[{prop}] {name}: INCONCLUSIVE ({type(e).__name__}: {str(e)[:300]})")
            ev.add(name, "mirsym+z3", "inconclusive", 0, note=str(e)[:300])
            rc = max(rc, 2)
            continue
        info = dict(detail=ob.detail[:300], queries=ob.queries, paths=ob.paths)
        if ob.status == "discharged":
            log(f"[{prop}] {ob.name}: discharged ({ob.detail}) in {ob.time_s:.1f}s")
            ev.add(ob.name, "mirsym+z3", "discharged", ob.time_s, nonvacuous=True, **info)
            continue
        if ob.status == "inconclusive":
            log(f"[{prop}] {ob.name}: INCONCLUSIVE: {ob.detail}")
            ev.add(ob.name, "mirsym+z3", "inconclusive", ob.time_s, **info)
            rc = max(rc, 2)
            continue
        handled = 0
        for one in [ob] + list(getattr(ob, "others", [])):
            role = one.role
            if accept is not None and not accept(role):
                continue   # another property's concern (reported by that property's check)
            handled += 1
            log(f"[{prop}] {one.name}: solver found a history [{role}]: {one.detail}\n    results={one.cex.get('results')} fault={one.cex.get('fault')} steps: {' '.join(one.cex.get('steps', []))[:500]}")
            path = vlib.write_replay(prop, {"property": prop, "values": one.cex, "replay_test": "replay_ghost_record", "role": role})
            # 1. the history through the PUBLIC API with the witnessed call failing (EIO injected at the libc boundary)
            import gated
            try:
                reproduced, path2, out = gated.run_faultplan(prop, one.cex)
                path = path2 or path
            except Exception as e:  # noqa: BLE001
                reproduced, out = None, f"fault-plan replay failed to run: {e}"
            # 2. the state the real error path leaves behind, rebuilt from crate internals (append without apply)
            if reproduced is not True and role.startswith("recovered-dangling") and one.cex.get("fault") and one.cex["fault"][1] == "wal":
                with vlib.Scratch("native", tag=f"{prop}-ghost") as scr:
                    kprop.inject_all(scr, INJ, cfg="test")
                    rcn, out = vlib.run_native_test(scr, "replay_ghost_record", env={"VERIF_REPLAY": path})
                    oc = vlib.test_outcome(out, "replay_ghost_record")
                    if oc == "failed":
                        reproduced = True
                    elif reproduced is None and oc is not None:
                        reproduced = False
            kf = vlib.known_finding_for(prop, role)
            oname = f"{one.name} [{role}]"
            if reproduced is True:
                if kf:
                    log(f"KNOWN-FINDING: property={prop} {kf['what']}")
                    ev.known.append(kf["what"])
                    ev.add(oname, "mirsym+z3", "known-finding", one.time_s, replay=path, role=role, **info)
                else:
                    log(f"VIOLATION property={prop} replay={path}")
                    log("    " + out[-700:])
                    ev.violations += 1
                    ev.add(oname, "mirsym+z3", "violated", one.time_s, replay=path, role=role, **info)
                    viol = True
            else:
                log(f"[{prop}] {oname}: not confirmed on the real code -> INCONCLUSIVE\n    {str(out)[-400:]}")
                ev.add(oname, "mirsym+z3", "inconclusive", one.time_s, note="history not reproduced natively", replay=path, **info)
                rc = max(rc, 2)
        if not handled:
            log(f"[{prop}] {ob.name}: discharged for this property (histories found only for roles reported by another property's check)")
            ev.add(ob.name, "mirsym+z3", "discharged", ob.time_s, nonvacuous=True, note="only roles reported elsewhere", **info)
    return 1 if viol else rc


def run(tier, seed, ev):
    import obl_trace as T
    with mirrun.mir_executor(PROP) as (ex, scr, mir_s):
        tprop.SCEN_INJ.append(("src/lib.rs", "replay_faults.rs", "verif_replay_faults"))
        clean = ("with one failed I/O call anywhere the operation still returns (no panic, no hang) and releases every lock",
                 T.p_returns_clean, "returns_clean", "probe:replay_fault_containment")
        nodangle = ("no blob that is still referenced when the operation returns was unlinked by it",
                    T.make_p_no_unlink_of_referenced(ex), "no_unlink_of_referenced", "probe:replay_fault_containment")
        cons = ("the in-memory index stays exact and keys other than the operation's own are untouched",
                T.make_p_state_consistent(ex), "state_consistent", "probe:replay_fault_containment")
        big = tier == "thorough"
        snap = ("with one failed call anywhere, no WAL segment is pruned unless the new snapshot was written, synced and renamed first",
                T.p_snapshot_before_prune, "snapshot_before_prune", "strace")
        plan = [("put.finish", [clean, nodangle, cons, snap]), ("remove", [clean, nodangle, cons, snap]), ("checkpoint", [clean, cons, snap]),
                ("delete_orphans", [clean, nodangle])]
        if big:
            plan.append(("remove_range", [clean, nodangle]))
        rc = tprop.run_t(PROP, tier, seed, ev, ex, plan, U=2, HU=2, N=2, faults=1)
        # histories: k operations, at most one failed call anywhere, then the abstract reopen
        import mprop
        import obl_history as H
        hist = [("put", "put"), ("remove", "put")] + ([("put", "remove"), ("put", "put", "remove"), ("remove", "remove")] if big else [])
        obs = [(f"history {' ; '.join(k)} with one failed call, then reopen", "history", (lambda k: lambda ex: H.ob_fault_history(ex, k, 2, 2))(k))
               for k in hist]
        rc = tcommon.best(rc, run_histories(PROP, tier, seed, ev, ex, obs))
        tcommon.fill(ev, ex, mir_s, [2], [
            "fault model of the property: ONE call fails (EIO/ENOSPC-style, no side effect) — every I/O call on every path is a "
            "candidate (symbolic choice); the failed call leaves no bytes behind",
            "histories: 2 (thorough 3) real operations in sequence with at most one failed call anywhere, then an abstract reopen = start "
            "state + every record that reached a WAL file; live and recovered index must not point to missing blobs (finds the known finding D6)",
            "a failed call leaves no bytes behind; a BufWriter keeps what it could not flush (std semantics)"])
        ev.bounds["key universe"] = 2
        ev.bounds["faults"] = "exactly 0 or 1 failing call per path, at any I/O call (open/write/flush/sync/rename/unlink/mkdir/read_dir/create-temp)"
        return rc
