"""C07 — exact space reclamation and deduplication at quiescence (Engine M)."""
import mirrun
import mprop
from props import c12 as ix

PROP = "C07"


def run(tier, seed, ev):
    import obl_api as A
    with mirrun.mir_executor(PROP) as (ex, scr, mir_s):
        obs, (U, HU) = ix.obligations(tier, only=["C07", "C12"])
        rec = A.make_posts_reclaim(ex)
        for name in ("put.finish", "remove") + (("remove_range",) if tier == "thorough" else ()):
            obs.append((f"{name} at quiescence unlinks exactly the blobs whose last reference went away", f"reclaim:{name}",
                        (lambda name: lambda ex: A.check_finals(ex, name, "reclamation", ["C07"], rec, N=2, intents="empty"))(name)))
        rc = mprop.run_m(PROP, tier, seed, ev, ex, obs,
                         lambda ob: ix.REPLAY_INJ if getattr(ob, "kind", None) else [("src/lib.rs", "replay_api.rs", "verif_replay_api")],
                         lambda ob: "replay_index_step" if getattr(ob, "kind", None) else "replay_reclaim")
        import sprop
        plans = [(("put", "remove"), 1, 2), (("put", "put"), 1, 2)] + ([(("remove", "remove"), 2, 2)] if tier == "thorough" else [])
        rc = max(rc, sprop.run_s(PROP, tier, seed, ev, ex, plans, final_exact=True), key=lambda x: (x == 1, x))
        ix.fill_evidence(ev, U, HU, mir_s, ex)
        ev.bounds["error-free schedules"] = "every interleaving of put||remove and put||put on one key (thorough: remove||remove) from an exact store (no orphans): at the end cas/ holds exactly the referenced contents"
        ev.functions += ["index::manager::Index::<K>::{apply_put_op,apply_remove_op}", "cas_manager::CasManager::{commit_blob,delete_blobs}",
                         "transaction::Transaction::<K>::commit"]
        ev.bounds["quiescence"] = "pending_intents empty, no fault; key/hash universe 2; num_ops_per_wal=2"
        ev.assumptions += ["tempfile::NamedTempFile removes its file on drop (crate contract)"]
        ev.extra["solver_queries"] = ex.queries
        return rc
