"""C19 — creation-time settings and format version gate every open (Engine M)."""
from props import tcommon

PROP = "C19"


def plan(ex, tier, first):
    import obl_trace as T
    return [("open.new", [("version / segment-size mismatch => Err before anything is modified; creation saves settings first; "
                           "stored pre-creation choice is used", T.make_p_settings_gate(ex), "settings_gate", "probe:replay_settings_gate"),
                          # the gate is only a gate inside the directory lock: settings are read, created and validated by the OWNER -
                          # an open that loses the lock (or races a first creation) must not have read-then-written them
                          ("settings are loaded / created only after the directory lock is held (a rejected open modifies nothing)",
                           T.p_lock_first, "lock_first", "probe:replay_open_exclusive")])]


def run(tier, seed, ev):
    rc = tcommon.generic_run(PROP, tier, seed, ev, plan, [
        "serde_json::from_str::<DbSettings> returns an arbitrary DbSettings value or a parse error (all stored versions, all "
        "(stored N, config N) pairs, both pre-creation choices are covered symbolically)",
        "Index::load (recovery) is abstracted to one mutating effect"], Ns_quick=(2,), Ns_thorough=(2,))
    ev.functions = ["cas::CasInner::<K>::new", "settings::SettingsPersister::{load,save}", "io::atomically_write_file_bytes"]
    ev.bounds = {"stored version": "all u32", "stored/config num_ops_per_wal": "all NonZeroU64 pairs", "pre-creation": "both, stored and requested"}
    return rc
