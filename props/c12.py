"""C12 — reference counts, sizes and statistics are exact (Engine M, inductive on the real MIR)."""
import mirrun
import mprop

PROP = "C12"
REPLAY_INJ = [("src/index/state.rs", "replay_index.rs", "verif_replay_index")]
FUNCS = ["index::state::IndexState::<K>::apply_logical_op", "index::state::IndexState::<K>::increment_ref",
         "index::state::IndexState::<K>::decrement_ref", "index::state::IndexState::<K>::recompute_stats"]


def obligations(tier, only=None):
    import obl_index as O
    U, HU = (3, 3) if tier == "quick" else (4, 4)
    obs = [("apply_logical_op[put]", "index_step_put", lambda ex: O.run_apply(ex, U, HU, "put", tags=only)),
           ("apply_logical_op[remove 1 key]", "index_step_remove", lambda ex: O.run_apply(ex, U, HU, "remove", 1, tags=only)),
           ("apply_logical_op[remove 2 keys]", "index_step_remove", lambda ex: O.run_apply(ex, U, HU, "remove", 2, tags=only))]
    if tier == "thorough":
        obs.append(("apply_logical_op[remove 3 keys]", "index_step_remove", lambda ex: O.run_apply(ex, U, HU, "remove", 3, tags=only)))
    return obs, (U, HU)


def fill_evidence(ev, U, HU, mir_s, ex):
    ev.functions = FUNCS
    ev.bounds = {"key universe": U, "hash universe": HU, "keys per Remove": "1..3 (thorough) / 1..2 (quick), repeats and absent keys allowed",
                 "integers": "full width (SMT Int with explicit range/overflow semantics)",
                 "history length": "unbounded (inductive step from an arbitrary invariant-satisfying state)"}
    ev.stubs = sorted(ex.models.used)
    ev.assumptions = ["same hash => same size (content addressing, C18)",
                      "sum of the sizes of all distinct stored contents < 2^64",
                      "refcount of one blob < 2^32",
                      "every key/hash an operation names is an element of the (symbolic) universe, "
                      "which may be absent from the map: WLOG for a finite scenario"]
    ev.outside = ["states with more keys/hashes than the universe", "the byte-level snapshot codec (C16)"]
    ev.extra["mir_dump_s"] = round(mir_s, 1)
    ev.extra["mir_functions_parsed"] = len(ex.fns)
    ev.extra["trusted_base"] = ["rustc nightly MIR", "mirsym parser/executor/models", "z3 4.x (python API)",
                                "specification: IndexWorld.invariant"]


def run(tier, seed, ev):
    import obl_index as O
    with mirrun.mir_executor(PROP) as (ex, scr, mir_s):
        obs, (U, HU) = obligations(tier, only=["C12"])
        obs.append(("recompute_stats == incremental stats", "recompute_stats", lambda ex: O.run_recompute(ex, U, HU)))
        obs.append(("IndexStatePersister::load rebuilds refcounts", "persister_load", lambda ex: O.run_load_refcounts(ex, U, HU)))
        rc = mprop.run_m(PROP, tier, seed, ev, ex, obs, REPLAY_INJ, "replay_index_step")
        fill_evidence(ev, U, HU, mir_s, ex)
        ev.extra["solver_queries"] = ex.queries
        return rc
