"""C18 — blob identity depends only on content; hash<->path is a bijection (Engine M + K)."""
import mirrun
import mprop
import kprop
from kprop import KH
from props import tcommon

PROP = "C18"
K_INJ = [("src/types.rs", "c18_types.rs", "verif_c18")]


def khs(tier):
    out = []
    import os
    if not os.environ.get("VERIF_C18_KANI_WINDOWS"):
        # Measured in round 3: on a busy machine neither the 2-byte windows (> 2 h each, timeout) nor 1-byte windows (> 1.5 h)
        # finish; a timed-out harness makes the whole check INCONCLUSIVE.  They are therefore opt-in
        # (VERIF_C18_KANI_WINDOWS=1); the hash<->path mapping is decided for all 2^256 hashes on the MIR (obl_path).
        return out
    # a 2-byte symbolic window needs > 40 min per instance under the unwind bound hex/PathBuf require:
    # the byte-level path harnesses run in the thorough tier only; the quick tier decides the path
    # mapping on the MIR (obl_path)
    for pos, q in ((0, False), (2, False), (30, False)):
        out.append(KH(f"c18_path_window_{pos}", tiers=(("quick", "thorough") if q else ("thorough",)), vars=["a", "b"],
                      replay="replay_c18_path", min_covers=1, timeout_s=7200, role="path_roundtrip",
                      desc="from_relative_path(relative_path(h)) == h; 2/2/60 lowercase hex layout",
                      bounds=f"bytes {pos},{pos+1} of the hash symbolic (65 536 values), the other 30 fixed",
                      functions=["types::BlobHash::{relative_path,from_relative_path,to_hex}", "hex::{encode,decode_to_slice}"]))
    return out


def run(tier, seed, ev):
    import obl_api as A
    H = khs(tier)
    rc_k = kprop.run_k(PROP, tier, seed, ev, K_INJ, H, jobs=2, mem_gb=24) if H else 0
    with mirrun.mir_executor(PROP) as (ex, scr, mir_s):
        obs = []
        for n in ((1, 2) if tier == "quick" else (1, 2, 3)):
            obs.append((f"Transaction::write x{n}: hasher stream == file stream == content", "tx_write_streams",
                        (lambda n: lambda ex: A.ob_tx_write(ex, n))(n)))
        import obl_path as P
        obs.append(("hash -> path -> hash round trip for all 2^256 hashes, 2/2/60 layout", "path_roundtrip", lambda ex: P.ob_path_roundtrip(ex, 0)))
        obs.append(("the parse ignores leading directories (uses the last three components)", "path_roundtrip", lambda ex: P.ob_path_roundtrip(ex, 1)))
        obs.append(("commit places the blob at the path of the hash of exactly what was hashed; index records hash and size",
                    "commit_identity", lambda ex: A.check_finals(ex, "put.finish", "identity", ["C18"], A.make_posts_commit_identity(ex), N=2)))
        rc_m = mprop.run_m(PROP, tier, seed, ev, ex, obs,
                           lambda ob: K_INJ if "path" in ob.name or "parse" in ob.name else [("src/lib.rs", "replay_content.rs", "verif_replay_content")],
                           lambda ob: "replay_c18_path" if "path" in ob.name or "parse" in ob.name else "replay_content_identity")
        ev.functions = sorted({f for h in H for f in h.functions}) + ["transaction::Transaction::<K>::{write,commit}"]
        ev.bounds = {h.name: h.bounds for h in H if tier in h.tiers}
        ev.bounds["Transaction::write"] = "1..2 (quick) / 1..3 (thorough) write calls, every chunk length symbolic in 0..2^40 (incl. empty and larger than any buffer)"
        ev.stubs = sorted(ex.models.used)
        ev.bounds["hash<->path (Engine M)"] = "all 32 bytes of the hash symbolic (2^256 hashes); hex::encode/decode_to_slice, String indexing, Path join/components are contract models"
        ev.assumptions = ["blake3::Hasher hashes the concatenation of its updates (library contract); distinct byte streams have distinct hashes",
                          "byte strings are abstract (base, offset, length) slices in Engine M: which bytes reach hasher and file is decided, not their values"]
        ev.outside = ["hashes differing from the fixed base in more than the 2-byte window (path mapping)", "more than 3 write calls; loops over blocks unrolled 4 times"]
        ev.extra["mir_dump_s"] = round(mir_s, 1)
    return tcommon.best(rc_k, rc_m)
