"""C02 — clean restart is transparent: recovery and checkpoint arithmetic decided on the real MIR (Engine M)."""
import mirrun
import mprop

PROP = "C02"
REPLAY_INJ = [("src/lib.rs", "replay_api.rs", "verif_replay_api")]
B_INJ = [("src/wal/mod.rs", "replay_bytelog.rs", "verif_replay_bytelog")]


def pick_inj(ob):
    return B_INJ if "REAL SegmentReader" in ob.name else REPLAY_INJ


def pick_test(ob):
    if "REAL SegmentReader" in ob.name:
        return "replay_byte_log"
    if "truncate" in (ob.detail or ""):
        return "replay_recovery_crash"   # recovery whose own checkpoint fails, then a second open
    return "replay_api_wrappers"


def obligations(tier, tags):
    import obl_wal as W
    import obl_replay as R
    import obl_index as O
    obs = [(n, r, f) for (n, r, f) in W.ALL]
    recs = [(0, False), (1, False), (2, True)] + ([(3, False), (3, True)] if tier == "thorough" else [])
    for nrec, tail in recs:
        obs.append((f"replay of a well-formed log ({nrec} records{', empty tail segment' if tail else ''})", "replay_log",
                    (lambda nrec, tail: lambda ex: R.ob_replay(ex, nrec, tail))(nrec, tail)))
    for nrec in ((1, 2, 3) if tier == "thorough" else (1, 2)):
        obs.append((f"real reader + replay of an intact byte-structured log ({nrec} records, lengths 1..2^32-1)", "reader_replay_intact",
                    (lambda n: lambda ex: R.ob_replay_real_reader(ex, n))(nrec)))
    obs.append(("replay_and_prepare", "replay_prepare", lambda ex: R.ob_prepare(ex)))
    for n in ((1, 2, 3) if tier == "thorough" else (1, 2)):
        obs.append((f"commit_checkpoint prune safety N={n}", "prune_safety", (lambda n: lambda ex: R.ob_commit_checkpoint(ex, n))(n)))
    return obs


def fill(ev, ex, mir_s, tier):
    ev.functions = ["wal::manager::WalManager::{segment_id_for_op_version,allocate_next_op_version,compute_checkpoint_target,"
                    "commit_checkpoint,get_segment_id_for_previous_op,replay_and_prepare,last_written_op_version,has_new_ops_since,"
                    "has_written_ops}", "wal::replay::WalReplayer::replay (+closures)", "wal::storage::SegmentReader::{next,read_next_entry} (+closures)", "wal::storage::SegmentStorage::"
                    "{prune_stale_segments,ensure_segment_file_exists}", "index::state::IndexState::recompute_stats"]
    ev.bounds = {"arithmetic": "all u64 versions and segment sizes (SMT Int + division lemma)",
                 "log": "0..3 records in any grouping into segments, versions strictly increasing, snapshot version symbolic (incl. none), "
                        "optional empty tail segment", "prune": "two candidate segment files with symbolic ids, N in {1,2} quick / {1,2,3} thorough"}
    ev.stubs = sorted(ex.models.used)
    ev.assumptions = ["record-level log: framing, checksum and op decoding are abstract here (Engine K: C10/C16)",
                      "directory listing returns the ids of the segment files in ascending order",
                      "well-formedness of the log (versions strictly increasing through segments in id order) is the wf() invariant of C20"]
    ev.outside = ["logs of more than 3 un-checkpointed records", "equality of every observable after reopen is assembled from these facts "
                  "plus C12's load/recompute obligations; it is not one end-to-end query"]
    ev.extra["mir_dump_s"] = round(mir_s, 1)
    ev.extra["solver_queries"] = ex.queries


def run(tier, seed, ev):
    import obl_index as O
    with mirrun.mir_executor(PROP) as (ex, scr, mir_s):
        obs = obligations(tier, ["C02"])
        obs.append(("recompute_stats == incremental stats", "recompute_stats", lambda ex: O.run_recompute(ex, 3, 3)))
        obs.append(("persister load rebuilds refcounts", "persister_load", lambda ex: O.run_load_refcounts(ex, 3, 3)))
        rc = mprop.run_m(PROP, tier, seed, ev, ex, obs, pick_inj, pick_test)
        fill(ev, ex, mir_s, tier)
        from props import tcommon
        rc = tcommon.best(rc, tcommon.recovery_image_run(PROP, tier, seed, ev, ex))
        return rc
