"""C05 — reads and writes are atomic under concurrency: per-call discipline decided on the MIR
(Engine M) plus a lockset query for reader-vs-unlinker; known finding D5."""
import mirrun
import tprop
from props import tcommon

PROP = "C05"


def run(tier, seed, ev):
    import obl_trace as T
    import entry
    with mirrun.mir_executor(PROP) as (ex, scr, mir_s):
        tprop.SCEN_INJ.append(("src/lib.rs", "replay_reads.rs", "verif_replay_reads"))
        tprop.SCEN_INJ.append(("src/lib.rs", "replay_torn.rs", "verif_replay_torn"))
        mut = ("every mutation of the key map happens under the state write lock (writes are totally ordered)",
               T.p_index_mutation_under_write_lock, "mutation_locked", "probe:replay_unlink_under_intents")
        keep = ("a put keeps an intent for (its key, its hash) from before its blob is visible until its index apply: a blob it is about "
                "to reference cannot be unlinked by a concurrent writer, so the key it publishes is readable", T.make_p_intent_at_apply(ex),
                "register_intent", "probe:replay_register_intent")
        ibr = ("a put registers its intent before its blob appears under cas/", T.make_p_intent_before_rename(ex),
               "intent_before_rename", "probe:replay_intent_before_rename")
        rc = tprop.run_t(PROP, tier, seed, ev, ex, [("put.finish", [mut, keep, ibr]), ("remove", [mut])] +
                         ([("remove_range", [mut])] if tier == "thorough" else []), N=2)
        # lock-sets under which writers unlink blobs (from the writer paths just explored)
        locksets = set()
        for key, (sw, finals) in T._EXPLORE_CACHE.items():
            if key[0] in ("put.finish", "remove", "remove_range"):
                for f in finals:
                    for e in f.trace:
                        if e["kind"] == "io" and e["op"] == "unlink" and (e.get("path") or ("",))[0] == "cas":
                            locksets.add(frozenset(l for (l, m) in e["locks"]))
        one = ("one index lookup, under the state read lock", T.p_single_lookup_under_read_lock, "single_lookup", "probe:replay_single_lookup")
        race = ("no schedule lets a writer unlink the blob between a read's lookup and its open (lockset query)",
                T.make_p_read_vs_unlink([set(x) for x in locksets]), "read_vs_unlink", "probe:replay_read_vs_overwrite")
        # (the lockset query `race` is subsumed by the interleaving exploration below, whose counterexample
        #  schedules replay deterministically; it is kept for the thorough tier only)
        if tier == "thorough":
            plan = [("get", [one, race]), ("get_reader", [one, race]), ("get_range", [one, race]), ("get_size", [one])]
        else:
            plan = [("get", [one]), ("get_reader", [one]), ("get_range", [one]), ("get_size", [one])]
        rc = tcommon.best(rc, tprop.run_t(PROP, tier, seed, ev, ex, plan, N=2))
        import sprop
        # put||remove: a put that has RETURNED must be readable - no interleaving with a writer may leave its key pointing
        # to a missing blob (a dangling key makes every later get / get_range / get_reader of it fail)
        plans = [(("put", "get"), 1, 2), (("remove", "get"), 1, 1), (("put", "remove"), 1, 2)]
        if tier == "thorough":
            # writer || checkpoint: a write that returned Ok stays visible (no lost update through a checkpoint that works on a
            # copy of the state), in memory and in what a restart would recover
            plans += [(("put", "get"), 2, 2), (("get", "get"), 1, 1), (("put", "checkpoint"), 1, 2), (("remove", "checkpoint"), 1, 2)]
        rc = tcommon.best(rc, sprop.run_s(PROP, tier, seed, ev, ex, plans))
        tcommon.fill(ev, ex, mir_s, [2], [
            "decided: per-call discipline (single lookup under the read lock; all map mutations under the write lock, hence a total "
            "order of writes and 'a put that returned is seen by later reads') and a lockset query between the reader's open and "
            "the writers' unlinks extracted from the MIR traces",
            "interleavings: reader and writer run as threads over one shared symbolic store (scheduler forks at every lock "
            "acquisition and blob-directory call): a get whose key was present at its lookup must not fail",
            "complete/unmixed bytes rest on blob immutability (C06) and POSIX open-file semantics"])
        ev.extra["writer_unlink_locksets"] = [sorted(x) for x in locksets]
        return rc
