"""C01 — ordered-map semantics for every sequential history (Engine M: index step + API wrappers)."""
import mirrun
import mprop
from props import c12 as ix

PROP = "C01"


def run(tier, seed, ev):
    import obl_api as A
    with mirrun.mir_executor(PROP) as (ex, scr, mir_s):
        obs, (U, HU) = ix.obligations(tier, only=["C01", "C12"])
        for name, posts in (("get_size", A.posts_get_size), ("get", A.posts_get), ("get_reader", A.posts_get),
                            ("remove", A.posts_remove), ("remove_range", A.posts_remove_range)):
            obs.append((f"API wrapper {name} agrees with the map", f"wrapper:{name}",
                        (lambda name, posts: lambda ex: A.check_finals(ex, name, "wrapper", ["C01"], posts, N=2))(name, posts)))
        # "the last committed bytes": a streamed put (new, write x n, finish - the real MIR) leaves in the staging file, and under
        # the hash the index records, exactly the chunks in the order written, for every chunking (the same obligation as C18/C06)
        for n in ((1, 2) if tier == "quick" else (1, 2, 3)):
            obs.append((f"streamed put with {n} chunk(s) of any length stores exactly the bytes written, in order", "tx_write_streams",
                        (lambda n: lambda ex: A.ob_tx_write(ex, n))(n)))

        def inj(ob):
            if "chunk_lens" in (ob.cex or {}):
                return [("src/lib.rs", "replay_content.rs", "verif_replay_content")]
            return ix.REPLAY_INJ if getattr(ob, "kind", None) else [("src/lib.rs", "replay_api.rs", "verif_replay_api")]

        def test(ob):
            if "chunk_lens" in (ob.cex or {}):
                return "replay_content_identity"
            return "replay_index_step" if getattr(ob, "kind", None) else "replay_api_wrappers"
        rc = mprop.run_m(PROP, tier, seed, ev, ex, obs, inj, test)
        ix.fill_evidence(ev, U, HU, mir_s, ex)
        ev.functions += ["cas::CasInner::<K>::{get,get_size,get_reader,remove,remove_range,with_blob_item}",
                         "index::manager::{Index::read_state,IndexReadGuard::{get_item,contains_key,range}}"]
        ev.bounds["API wrappers"] = "key universe 2, hash universe 2, num_ops_per_wal=2, arbitrary in-memory state; range = any interval"
        ev.bounds["streamed put"] = "1..2 (quick) / 1..3 (thorough) write calls, chunk lengths symbolic in 0..2^40"
        ev.outside += ["byte VALUES of blobs (which bytes reach the file and the hash is decided, as abstract slices; range reads: C17)", "iteration order of iter()/range() is the BTreeMap's own (std)"]
        ev.extra["solver_queries"] = ex.queries
        return rc
