"""C15 — concurrent calls always complete (no deadlock): lock discipline on every path of every
public entry point, decided on the MIR (Engine M)."""
import mirrun
import mprop

PROP = "C15"
REPLAY_INJ = [("src/lib.rs", "replay_locks.rs", "verif_replay_locks")]


def run(tier, seed, ev):
    import obl_trace as T
    U, HU = (2, 2)
    Ns = [2] if tier == "quick" else [1, 2, 3]
    with mirrun.mir_executor(PROP) as (ex, scr, mir_s):
        obs = []
        for n in Ns:
            for name in T.C15_ENTRIES:
                if n != Ns[0] and name in ("get", "get_size", "get_reader", "get_range", "stats"):
                    continue
                obs.append((f"lock discipline on every path of {name} (N={n})", f"locks:{name}",
                            (lambda name, n: lambda ex: T.run_paths(ex, name, U, HU, T.c15_pred, "lock discipline", ["C15"], N=n))(name, n)))
        rc = mprop.run_m(PROP, tier, seed, ev, ex, obs, REPLAY_INJ, "replay_lock_order")
        # cross-check on real interleavings: some thread is always enabled until all are done
        import sprop
        plans = [(("put", "remove"), 1, 2), (("put", "get"), 1, 2)] + ([(("put", "put"), 1, 2), (("remove", "delete_orphan"), 1, 1)] if tier == "thorough" else [])
        rc_s = sprop.run_s(PROP, tier, seed, ev, ex, plans, accept=lambda role: role in ('deadlock', 'panic'), check_reads=False)
        if rc_s == 1 or rc == 1:
            rc = 1
        else:
            rc = max(rc, rc_s)
        ev.functions = ["every function reachable from: Transaction::commit, CasInner::{get,get_size,get_reader,get_range,remove,"
                        "remove_range,checkpoint,stats}, OrphanStats::{delete_orphan,delete_orphans,quarantine_orphans}, IntentGuard::drop "
                        "(MIR executed: Index::{apply_put_op,apply_remove_op,checkpoint,checkpoint_inner,apply_wal_op_unsafe,register_intent,"
                        "read_state}, WalManager::*, SegmentWriter::*, SegmentStorage::*, IndexStatePersister::save, "
                        "atomically_write_file_bytes, CasManager::*)"]
        ev.bounds = {"key universe": U, "hash universe": HU, "num_ops_per_wal": Ns,
                     "paths": "all feasible paths (each branch decided by z3); WAL position, checkpoint state, "
                              "active writer, pending intents of other threads, directory listing: symbolic",
                     "orphan list": "1 orphan hash (symbolic), 1 invalid file, 1 staging file"}
        ev.stubs = sorted(ex.models.used)
        ev.assumptions = ["parking_lot locks are mutual-exclusion locks (not re-entrant)",
                          "obligation per path: acquisitions respect pending_intents < state < wal, no lock is re-acquired "
                          "while held, every lock is released on return; acyclic order + no self-acquisition => no deadlock among these locks",
                          "file-system calls terminate"]
        ev.outside = ["a caller keeping an IndexReadGuard while writing (excluded by the property)",
                      "more keys/hashes than the universe; paths that need num_ops_per_wal other than the listed values to be reached"]
        ev.extra["mir_dump_s"] = round(mir_s, 1)
        ev.extra["solver_queries"] = ex.queries
        ev.extra["transitions"] = sum(int(o.get("paths", 0)) for o in ev.obligations)
        return rc
