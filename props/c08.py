"""C08 — orphan clean-up never harms live data (discipline part, Engine M)."""
from props import tcommon

PROP = "C08"


def plan(ex, tier, first):
    import obl_trace as T
    unl = ("orphan unlink only under the pending_intents lock", T.p_unlink_under_intents,
           "unlink_under_intents", "probe:replay_unlink_under_intents")
    chk = ("an orphan is removed only if it is neither referenced nor protected by an intent at that moment",
           T.make_p_orphan_guarded(ex), "orphan_guarded", "probe:replay_orphan_guarded")
    ibr = ("a concurrent put protects its blob (intent) before the blob appears under cas/", T.make_p_intent_before_rename(ex),
           "intent_before_rename", "probe:replay_intent_before_rename")
    return [("delete_orphan", [unl, chk]), ("delete_orphans", [unl, chk]),
            ("quarantine_orphans", [("orphan quarantine only under the pending_intents lock", T.p_quarantine_under_intents,
                                     "unlink_under_intents", "probe:replay_unlink_under_intents"), chk]),
            ("put.finish", [ibr])]


def run(tier, seed, ev):
    import mirrun
    import sprop
    rc1 = tcommon.generic_run(PROP, tier, seed, ev, plan, [
        "scan classification (orphaned/missing/invalid/corrupted sets) is not decided by this check: directory walking "
        "and blake3 verification of real files are outside the solver's reach (see not-claimed clauses in DESIGN.md)"],
        Ns_thorough=(1, 2))
    with mirrun.mir_executor(PROP + "s") as (ex, scr, mir_s):
        plans = [(("delete_orphan", "put"), 1, 2), (("delete_orphan", "remove"), 1, 1)]
        if tier == "thorough":
            plans += [(("delete_orphan", "put"), 2, 2), (("delete_orphan", "delete_orphan"), 1, 2)]
        rc2 = sprop.run_s(PROP, tier, seed, ev, ex, plans)
        ev.bounds["interleavings"] = "orphan clean-up of a symbolic hash racing with a put / remove (same content possible): every interleaving at lock and blob-I/O granularity; key universe 1/2, hash universe 2"
    return tcommon.best(rc1, rc2)
