"""C08 — orphan clean-up never harms live data (discipline part, Engine M)."""
from props import tcommon

PROP = "C08"


def plan(ex, tier, first):
    import obl_trace as T
    unl = ("orphan unlink only under the pending_intents lock", T.p_unlink_under_intents,
           "orphan_unlink_under_intents", "gatedprobe:replay_orphan_unlink_probe")
    chk = ("an orphan is removed only if it is neither referenced nor protected by an intent at that moment",
           T.make_p_orphan_guarded(ex), "orphan_guarded", "probe:replay_orphan_guarded")
    ibr = ("a concurrent put protects its blob (intent) before the blob appears under cas/", T.make_p_intent_before_rename(ex),
           "intent_before_rename", "probe:replay_intent_before_rename")
    return [("delete_orphan", [unl, chk]), ("delete_orphans", [unl, chk]),
            ("quarantine_orphans", [("orphan quarantine only under the pending_intents lock", T.p_quarantine_under_intents,
                                     "orphan_unlink_under_intents", "gatedprobe:replay_orphan_unlink_probe"), chk]),
            ("put.finish", [ibr])]


def run(tier, seed, ev):
    import mirrun
    import sprop
    rc1 = tcommon.generic_run(PROP, tier, seed, ev, plan, [
        "scan classification (orphaned/missing/invalid/corrupted/staging sets, total_blobs) is decided on a bounded symbolic directory tree; "
        "directory entries of other types at the blob level (a directory whose name parses as a hash) and I/O errors during the walk are outside"],
        Ns_thorough=(1, 2))
    with mirrun.mir_executor(PROP + "s") as (ex, scr, mir_s):
        plans = [(("delete_orphan", "put"), 1, 2), (("delete_orphan", "remove"), 1, 1)]
        if tier == "thorough":
            plans += [(("delete_orphan", "put"), 2, 2), (("delete_orphan", "delete_orphan"), 1, 2)]
        rc2 = sprop.run_s(PROP, tier, seed, ev, ex, plans)
        # scan classification on a symbolic directory tree (the real scan_orphans MIR)
        import mprop
        import obl_scan as S
        inst = [(False, True), (True, True)] + ([(False, False), (True, False)] if tier == "thorough" else [])
        obs = [(f"scan classification verify={vf} {'small' if sm else 'full'} tree", "scan_classification",
                (lambda vf, sm: lambda ex: S.ob_scan(ex, vf, sm))(vf, sm)) for vf, sm in inst]
        rc3 = mprop.run_m(PROP, tier, seed, ev, ex, obs, [("src/lib.rs", "replay_scan.rs", "verif_replay_scan")], "replay_scan")
        rc2 = tcommon.best(rc2, rc3)
        rc4 = tcommon.crash_image_run(PROP, tier, seed, ev, ex, "kill", inst=[("delete_orphan", 2, 2, 2, "sync"), ("delete_orphans", 2, 2, 2, "sync"),
                                                                                ("quarantine_orphans", 2, 2, 2, "sync")])
        rc2 = tcommon.best(rc2, rc4)
        ev.functions = list(ev.functions) + ["orphan::scan_orphans", "orphan::scan_staging_files", "orphan::verify_blob_integrity (size check; hashing is a model)"]
        ev.bounds["scan"] = ("symbolic directory tree: level-1 entries A (dir|stray file), B (dir); level-2 C (dir|stray file), D (dir); blob-level leaves "
                             "c1,d1[,d2] each existing or not, parsing to a symbolic hash or not, symbolic size and content verdict; staging entries "
                             "s1[,s2] file|dir|absent; index: 2 keys over 2 hashes, arbitrary")
        ev.assumptions = list(ev.assumptions) + ["read_dir yields exactly the existing children; a blob path parses to at most one hash and distinct "
                                                 "paths parse to distinct hashes (C18); blake3 verification of a file returns the leaf's verdict"]
        ev.bounds["interleavings"] = "orphan clean-up of a symbolic hash racing with a put / remove (same content possible): every interleaving at lock and blob-I/O granularity; key universe 1/2, hash universe 2"
    return tcommon.best(rc1, rc2)
