"""C17 — range reads equal slices of the content for all bounds.
K: CasManager::read_blob_range byte-exact for all u64 start/end on a model blob (short reads allowed);
M: the caller side on the MIR — get_range's clamp, index lookup, what is handed to the reader."""
import kprop
import mirrun
import mprop
from kprop import KH
from props import tcommon

PROP = "C17"
INJ = [("src/cas_manager.rs", "c17_cas_manager.rs", "verif_c17")]
FN = ["cas_manager::CasManager::read_blob_range", "cas::CasInner::<K>::get_range (+ closure)", "cas::CasInner::<K>::with_blob_item",
      "cas::CasInner::<K>::get_size", "index::manager::IndexReadGuard::<K>::get_item"]
H = [KH("c17_read_blob_range_all_bounds", vars=["l", "start", "end", "clamped"], replay=None, min_covers=5, timeout_s=1800,
        role="read_blob_range",
        desc="read_blob_range(h,s,e): s>e -> Err; else bytes [min(s,L), min(e,L)); buffer = e-s (<= L when the caller clamps); "
             "pread may return any 1..=avail bytes per call",
        bounds="blob length L <= 4 symbolic, content bytes symbolic, start over all u64, end <= L (clamped instance) or <= 6 (unclamped: "
               "a larger symbolic-size allocation exhausts CBMC)", functions=FN[:1])]


def replay_range(values):
    """native replay of a K counterexample: real get_range on a real blob with the witnessed bounds"""
    return None, "no native replay for the byte-level harness (stubbed pread)"


def run(tier, seed, ev):
    import obl_api as A
    rc_k = kprop.run_k(PROP, tier, seed, ev, INJ, H, jobs=1, mem_gb=40)
    with mirrun.mir_executor(PROP) as (ex, scr, mir_s):
        obs = [("get_range hands the reader a range clamped to the blob size, inside the key's blob; Some iff present", "get_range_clamp",
                lambda ex: A.check_finals(ex, "get_range", "wrapper", ["C17"], A.posts_get_range, N=2)),
               ("get_size is the recorded size, no I/O", "get_size", lambda ex: A.check_finals(ex, "get_size", "wrapper", ["C17"], A.posts_get_size, N=2))]
        import obl_range as RG
        obs.append(("read loop of read_blob_range for ALL lengths (buffer as (len, capacity), pread by contract)", "read_loop",
                    lambda ex: RG.ob_read_loop(ex, 2 if tier == "quick" else 4)))
        rc_m = mprop.run_m(PROP, tier, seed, ev, ex, obs,
                           lambda ob: [("src/lib.rs", "replay_range.rs", "verif_replay_range")] if (ob.cex or {}).get("violation") in ("range-length", "set-len", "panic")
                           and "blob_len" in (ob.cex or {}) else [("src/lib.rs", "replay_api.rs", "verif_replay_api")],
                           lambda ob: "replay_read_range" if "blob_len" in (ob.cex or {}) else "replay_api_wrappers")
        ev.functions = FN
        ev.bounds = {"K": H[0].bounds, "M": "start, end: all u64; blob size: all u64; key universe 2; every path of get_range/get_size",
                     "M read loop": "start, end, blob length over all u64 (file length <= 2^63-1); buffer abstracted to (len, capacity); pread returns any "
                                    "k with 0<=k<=n, k<=remaining, k=0 iff n=0 or at EOF; at most 2 (quick) / 4 (thorough) short reads per call"}
        ev.stubs = sorted(ex.models.used) + ["K: File::open -> handle on the model blob; FileExt::read_at -> copies k bytes, 1<=k<=avail symbolic; "
                                             "libc::close -> 0; DbPaths::cas_file_path -> empty PathBuf"]
        ev.assumptions = ["composition: M shows the reader is called with (start, min(end, size)) only when start < size, otherwise an "
                          "empty result without I/O; K shows read_blob_range(s, e) returns exactly bytes [min(s,L), min(e,L)) for s <= e and an "
                          "error for s > e, allocating e - s bytes; together: get_range = content[min(start,L)..min(end,L)), buffer <= L",
                          "recorded size == file length (C18/C12)", "POSIX pread contract"]
        ev.outside = ["blob lengths > 4 in the byte-level harness (lengths are covered by the M read-loop obligation, bytes are not)", "more short reads than the bound", "get_reader streaming (BufReader over the real file)"]
        ev.extra["mir_dump_s"] = round(mir_s, 1)
    return tcommon.best(rc_k, rc_m)
