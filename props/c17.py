"""C17 — range reads equal slices of the content for all bounds (Engine K)."""
import kprop
from kprop import KH

INJ = [("src/cas_manager.rs", "c17_cas_manager.rs", "verif_c17")]
FN = ["cas::CasInner::<[u8;1]>::get_range (+ its closure)", "cas::CasInner::<[u8;1]>::with_blob_item",
      "cas::CasInner::<[u8;1]>::get_size", "cas_manager::CasManager::read_blob_range",
      "index::Index::<[u8;1]>::read_state", "index::IndexReadGuard::<[u8;1]>::get_item"]
H = [
    KH("c17_read_blob_range_all_bounds", vars=["l", "content", "start", "end", "clamped"], replay=None,
       min_covers=5, timeout_s=1500,
       desc="get_range(key,start,end) = content[min(start,L)..min(end,L)) for all u64 start,end; "
            "start>end inside the blob is an error; read buffer never larger than L; absent key -> None; get_size = L",
       bounds="blob length L <= 8 (symbolic), content bytes symbolic, start/end over all of u64, "
              "pread returns any 1..=avail bytes per call", functions=FN, role="get_range"),
]


def run(tier, seed, ev):
    ev.functions = FN
    ev.bounds = {h.name: h.bounds for h in H}
    ev.stubs = ["File::open -> handle onto the model blob", "FileExt::read_at -> copies k bytes, 1<=k<=avail symbolic (short reads), 0 at EOF",
                "libc::close -> 0", "DbPaths::cas_file_path -> empty PathBuf (path mapping is C18's subject)",
                "fs::create_dir_all -> Ok", "ahash::RandomState::new -> fixed seeds", "tracing::* -> no-op"]
    ev.assumptions = ["POSIX pread contract: returns between 1 and the available byte count, or 0 at EOF"]
    ev.outside = ["blob lengths > 8", "get_reader streaming (BufReader over the real file)"]
    return kprop.run_k("C17", tier, seed, ev, INJ, H, jobs=1, mem_gb=24)
