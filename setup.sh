#!/bin/bash
# Offline setup: check the tools this framework needs and warm the third-party dependency caches
# (nothing about the code under test is cached).
set -e
cd "$(dirname "$0")"
export CARGO_NET_OFFLINE=true
for t in cargo python3-vt z3; do command -v $t >/dev/null || { echo "missing tool: $t"; exit 1; }; done
cargo kani --version >/dev/null
python3-vt -c "import z3; print('z3', z3.get_version_string())"
mkdir -p .cache evidence replays
python3-vt tools/gen_manifest.py >/dev/null
# warm caches: native test build (for replays) and MIR dump dependencies
python3-vt - <<'PY'
import sys, os
sys.path.insert(0, "lib")
import vlib, mirrun
with vlib.Scratch("native", tag="setup") as scr:
    rc, out = vlib.run_native_test(scr, "test_helper_functions")
    print("native cache:", "ok" if rc == 0 else out[-500:])
with vlib.Scratch("mir", tag="setup") as scr:
    p, s = mirrun.dump_mir(scr)
    print("mir dump ok in %.1fs" % s)
# the lock-gated replay builds against a generated copy of parking_lot: warm its dependency cache too
try:
    import gated, kprop, subprocess
    with gated.GatedScratch(tag="setup") as scr:
        kprop.inject_all(scr, gated.INJ, cfg="test")
        e = vlib.env_offline({"CARGO_TARGET_DIR": gated.gated_target_dir()})
        r = subprocess.run(["cargo", "test", "--offline", "--lib", "--no-run"], cwd=scr.dir, env=e, stdout=subprocess.PIPE, stderr=subprocess.STDOUT, text=True)
        print("gated cache:", "ok" if r.returncode == 0 else r.stdout[-400:])
except Exception as ex:
    print("gated cache: skipped (%s)" % ex)
PY
echo "setup done"
