"""C08 — the start-up scan's classification, decided on the MIR of orphan::scan_orphans (+ its helpers)
over a SYMBOLIC directory tree: every entry may or may not exist, may be a directory or a stray file,
every leaf may or may not parse to a (symbolic) hash; the index is an arbitrary IndexWorld.
Directory reading and file hashing are models (read_dir yields the tree's entries; blake3 verification
of a file returns an arbitrary verdict); the classification logic is the crate's."""
import time

import z3

from exec import (VInt, VBool, VSym, VUnit, VStruct, VEnum, VRef, VVec, VOpaque, VIter, State, Unsupported)
from world import SystemWorld, find_fn
from obl_index import Obligation, model_values
from obl_replay import scoped_models
from models import ok, err, some, none, deref_all, sym_option
from iomodel import IoModel, P, path_desc


class Tree:
    """cas/:  A (dir|file, empty)   B (dir) { C (dir|file) { c1 }  D (dir) { d1 d2 } }   staging/: s1 s2
    (level 1 and level 2 entries are directories or stray files; blobs live at level 3)"""

    def __init__(self, ex, st, sw, small=False):
        w = sw.iw
        leafs = ("c1", "d1") if small else ("c1", "d1", "d2")
        stg = ("s1",) if small else ("s1", "s2")
        self.leaves = {}
        self.nodes = {}
        for n in ("A", "C"):
            self.nodes[n] = dict(exists=z3.Bool(f"ent_{n}_exists"), isdir=z3.Bool(f"ent_{n}_isdir"))
        for n in ("B", "D"):
            self.nodes[n] = dict(exists=z3.Bool(f"ent_{n}_exists"), isdir=z3.BoolVal(True))
        for n in leafs:
            h = z3.Int(f"leaf_{n}_hash")
            st.pc.append(z3.Or([h == g for g in w.hashes]))
            self.leaves[n] = dict(exists=z3.Bool(f"leaf_{n}_exists"), parses=z3.Bool(f"leaf_{n}_parses"), hash=h,
                                  size=z3.Int(f"leaf_{n}_size"), verdict=z3.Bool(f"leaf_{n}_hash_ok"))
            st.pc += [self.leaves[n]["size"] >= 0, self.leaves[n]["size"] <= (1 << 64) - 1]
        names = list(self.leaves)
        for i in range(len(names)):
            for j in range(i + 1, len(names)):
                a, b = self.leaves[names[i]], self.leaves[names[j]]
                st.pc.append(z3.Implies(z3.And(a["parses"], b["parses"]), a["hash"] != b["hash"]))  # path <-> hash is injective (C18)
        self.children = {("cas",): ["A", "B"], "A": [], "B": ["C", "D"], "C": ["c1"], "D": [n for n in leafs if n.startswith("d")]}
        self.staging = {n: dict(exists=z3.Bool(f"stg_{n}_exists"), isfile=z3.Bool(f"stg_{n}_isfile")) for n in stg}

    def reachable(self, n):
        """condition under which entry n is visited by a correct walk"""
        parent = {"A": None, "B": None, "C": "B", "D": "B", "c1": "C", "d1": "D", "d2": "D"}[n]
        me = (self.nodes.get(n) or self.leaves[n])["exists"]
        if parent is None:
            return me
        return z3.And(me, self.reachable(parent), self.nodes[parent]["isdir"])


def install(ex, tree, sw):
    R = ex.models.reg

    def ent_of(st, v):
        d = path_desc(st, v)
        return d[1] if d and d[0] == "scan" else None

    def m_read_dir(ex2, st, fr, c, a, d, r):
        d0 = path_desc(st, a[0])
        if d0 == ("cas",):
            kids = tree.children[("cas",)]
        elif d0 == ("staging",):
            items = [(tree.staging[n]["exists"], ok(VStruct("DirEntry", [VOpaque("path", ("stg", n))]))) for n in tree.staging]
            return ok(VIter(items, "readdir"))
        else:
            kids = tree.children.get(d0[1], []) if d0 and d0[0] == "scan" else []
        items = []
        for n in kids:
            info = tree.nodes.get(n) or tree.leaves[n]
            items.append((info["exists"], ok(VStruct("DirEntry", [VOpaque("path", ("scan", n))]))))
        return ok(VIter(items, "readdir"))

    def m_is_dir(ex2, st, fr, c, a, d, r):
        n = ent_of(st, a[0])
        if n in tree.nodes:
            return VBool(tree.nodes[n]["isdir"])
        return VBool(False)

    def m_from_rel(ex2, st, fr, c, a, d, r):
        n = ent_of(st, a[0])
        if n in tree.leaves:
            lf = tree.leaves[n]
            outs = []
            for cond, val in ((lf["parses"], ok(VSym(lf["hash"], "H"))), (z3.Not(lf["parses"]), err(VOpaque("hexerr")))):
                if ex2.feasible(st.pc, cond):
                    s2 = st.clone()
                    s2.pc.append(cond)
                    outs += ex2.finish_call(s2, d, r, val)
            return outs
        return err(VOpaque("hexerr"))

    def m_metadata(ex2, st, fr, c, a, d, r):
        dd = path_desc(st, a[0])
        return ok(VOpaque("metadata", dd))

    def m_meta_len(ex2, st, fr, c, a, d, r):
        m = deref_all(st, a[0])
        dd = m.data
        if dd and dd[0] == "scan" and dd[1] in tree.leaves:
            return VInt(tree.leaves[dd[1]]["size"], "u64")
        return ex2.new_int(st, "u64", "flen")

    def m_entry_metadata(ex2, st, fr, c, a, d, r):
        e = deref_all(st, a[0])
        return ok(VOpaque("metadata", e.fields[0].data))

    def m_is_file(ex2, st, fr, c, a, d, r):
        m = deref_all(st, a[0])
        dd = m.data
        if dd and dd[0] == "stg":
            return VBool(tree.staging[dd[1]]["isfile"])
        return VBool(ex2.fresh("isfile", "bool"))

    def m_verify_hash(ex2, st, fr, c, a, d, r):
        # Hasher::update_mmap_rayon(path): remember which file is being hashed
        ref = a[0]
        while isinstance(st.load(ref), VRef):
            ref = st.load(ref)
        h = st.load(ref)
        st.store(ref, VOpaque(h.tag, ("file", path_desc(st, a[1]))))
        return ok(a[0])

    def m_blobhash_from_digest(ex2, st, fr, c, a, d, r):
        return None

    R(["read_dir", "fs::read_dir"], m_read_dir)
    R(["ReadDir as Iterator::next"], ex.models.table["Iter as Iterator::next"])
    R(["DirEntry::path"], lambda ex2, st, fr, c, a, d, r: deref_all(st, a[0]).fields[0])
    R(["Path::is_dir"], m_is_dir)
    R(["Path::strip_prefix"], lambda ex2, st, fr, c, a, d, r: ok(a[0] if isinstance(a[0], VRef) else VRef(st.alloc(a[0]))))
    R(["BlobHash::from_relative_path"], m_from_rel)
    R(["fs::metadata"], m_metadata)
    R(["Metadata::len"], m_meta_len)
    R(["DirEntry::metadata"], m_entry_metadata)
    R(["Metadata::is_file"], m_is_file)
    R(["Hasher::update_mmap_rayon"], m_verify_hash)
    R(["HashSet::insert"], lambda ex2, st, fr, c, a, d, r: m_set_insert(ex2, st, a))
    R(["HashSet::contains"], lambda ex2, st, fr, c, a, d, r: VBool(z3.Select(deref_all(st, a[0]).present, deref_all(st, a[1]).t)))
    R(["HashSet::len"], lambda ex2, st, fr, c, a, d, r: ex2.models.table["HashMap::len"](ex2, st, fr, c, a, d, r))
    orig_ts = ex.models.tuple_struct

    def tuple_struct(ex2, st, name, vals):
        if name == "BlobHash" and len(vals) == 1 and isinstance(vals[0], VOpaque) and vals[0].tag in ("digest", "hash-array"):
            data = vals[0].data
            if isinstance(data, tuple) and data and data[0] == "file" and data[1][0] == "scan" and data[1][1] in tree.leaves:
                lf = tree.leaves[data[1][1]]
                # the file's real hash: equals its name's hash iff the verdict bit says so
                t = ex2.fresh("actual_hash")
                st.pc.append((t == lf["hash"]) == lf["verdict"])
                return VSym(t, "H")
            return VSym(ex2.fresh("actual_hash"), "H")
        return orig_ts(ex2, st, name, vals)
    ex.models.tuple_struct = tuple_struct
    R(["Hash as Into::into"], lambda ex2, st, fr, c, a, d, r: VOpaque("hash-array", a[0].data))
    return orig_ts


def m_set_insert(ex, st, a):
    m = deref_all(st, a[0])
    k = a[1].t
    was = z3.Select(m.present, k)
    m.present = z3.Store(m.present, k, z3.BoolVal(True))
    return VBool(z3.Not(was))


def ob_scan(ex, verify, small=False):
    with scoped_models(ex):
        if ex.models.io_hook is None:
            IoModel(ex.models)
        t0 = time.time()
        q0 = ex.queries
        st = State()
        sw = SystemWorld(ex, st, U=2, HU=2, intents="empty", N=2)
        w = sw.iw
        tree = Tree(ex, st, sw, small)
        orig_ts = install(ex, tree, sw)
        try:
            fn = find_fn(ex, "scan_orphans", None, nparams=3)
            ex.start(st, fn, [sw.cas_ref, VStruct("Arc", [VOpaque("alias")]), VBool(verify)])
            finals = ex.run(st)
        finally:
            ex.models.tuple_struct = orig_ts
        name = (f"scan_orphans classification on a symbolic directory tree ({'2 blob leaves, 4 directory entries, 1 staging entry' if small else '3 blob leaves, 4 directory entries, 2 staging entries'}; "
                f"verify_integrity={verify})")
        for f in finals:
            if f.status in ("unsupported", "cut"):
                return Obligation(name, ["C08"], "inconclusive", time.time() - t0, f"{f.status}: {f.note}", None, ex.queries - q0, len(finals))
        terms = dict(keys=w.keys, hashes=w.hashes, pk=w.pk, hk=w.hk, sk=w.sk)
        for n, lf in tree.leaves.items():
            terms[f"leaf_{n}"] = [lf["exists"], lf["parses"], lf["hash"], lf["size"], lf["verdict"]]
        for n, nd in tree.nodes.items():
            terms[f"node_{n}"] = [nd["exists"], nd["isdir"]]
        for n, sg in tree.staging.items():
            terms[f"stg_{n}"] = [sg["exists"], sg["isfile"]]
        terms["verify"] = verify
        nq = 0
        for f in finals:
            if f.status != "returned":
                r, m = ex.model_of(f.pc)
                return Obligation(name, ["C08"], "violated", time.time() - t0, f"scan ends in {f.status}: {f.note}", model_values(m, terms) if m else None,
                                  ex.queries - q0, len(finals))
            rv = f.retval
            if not (isinstance(rv, VEnum) and rv.concrete() == 0):
                continue  # an I/O error path (none without faults)
            stats = rv.payloads[0][0]
            from structs import fget as _fg
            orphaned, invalid, missing, corrupted, staging = [_fg(ex, stats, "OrphanStats", n_) for n_ in
                                                              ("orphaned_blobs", "invalid_files", "missing_blobs", "corrupted_blobs", "staging_files")]
            seen = {n: z3.And(tree.reachable(n), tree.leaves[n]["parses"]) for n in tree.leaves}
            indexed = lambda h: z3.Or([z3.And(w.pk[i], w.hk[i] == h) for i in range(w.U)])
            posts = {}

            def hv(e):
                while isinstance(e, VRef):
                    e = f.load(e)
                return e.t
            for g in w.hashes:
                on_disk = z3.Or([z3.And(seen[n], tree.leaves[n]["hash"] == g) for n in tree.leaves])
                in_orph = z3.Or([hv(e) == g for e in orphaned.elems]) if orphaned.elems else z3.BoolVal(False)
                in_miss = z3.Or([hv(e) == g for e in missing.elems]) if missing.elems else z3.BoolVal(False)
                posts[f"hash {g}: reported orphaned iff on disk and unreferenced"] = in_orph == z3.And(on_disk, z3.Not(indexed(g)))
                posts[f"hash {g}: reported missing iff referenced and not on disk"] = in_miss == z3.And(indexed(g), z3.Not(on_disk))
                in_corr = z3.Or([hv(e) == g for e in corrupted.elems]) if corrupted.elems else z3.BoolVal(False)
                if verify:
                    size_of = lambda h: sum([z3.If(z3.And(w.pk[i], w.hk[i] == h), w.sk[i], 0) for i in range(w.U)])
                    badfile = z3.Or([z3.And(seen[n], tree.leaves[n]["hash"] == g,
                                            z3.Or([z3.And(w.pk[i], w.hk[i] == g, z3.Or(tree.leaves[n]["size"] != w.sk[i], z3.Not(tree.leaves[n]["verdict"])))
                                                   for i in range(w.U)])) for n in tree.leaves])
                    posts[f"hash {g}: reported corrupted iff referenced, on disk, and size or content mismatch"] = in_corr == z3.And(indexed(g), badfile)
                else:
                    posts[f"hash {g}: nothing is reported corrupted when verification is off"] = z3.Not(in_corr)
            # invalid files: stray non-directories at level 1/2 and unparsable leaves
            def listed(lst, n):
                return any(path_desc(f, e) == ("scan", n) for e in lst.elems)
            for n in tree.nodes:
                want = z3.And(tree.reachable(n), z3.Not(tree.nodes[n]["isdir"]))
                posts[f"entry {n}: listed invalid iff it is a stray non-directory"] = want if listed(invalid, n) else z3.Not(want)
            for n in tree.leaves:
                want = z3.And(tree.reachable(n), z3.Not(tree.leaves[n]["parses"]))
                posts[f"leaf {n}: listed invalid iff its name does not parse to a hash"] = want if listed(invalid, n) else z3.Not(want)
            for n, sg in tree.staging.items():
                want = z3.And(sg["exists"], sg["isfile"])
                got = any(path_desc(f, e) == ("stg", n) for e in staging.elems)
                posts[f"staging {n}: listed iff it is a leftover regular file"] = want if got else z3.Not(want)
            from structs import fget
            posts["total_blobs = number of blob files seen"] = fget(ex, stats, "OrphanStats", "total_blobs").t == z3.Sum([z3.If(c, 1, 0) for c in seen.values()])
            for lab, post in posts.items():
                nq += 1
                r, m = ex.model_of(f.pc, z3.Not(post))
                if r == z3.sat:
                    return Obligation(name, ["C08"], "violated", time.time() - t0, "classification differs from the specification: " + lab,
                                      model_values(m, terms), ex.queries - q0, len(finals))
                if r != z3.unsat:
                    return Obligation(name, ["C08"], "inconclusive", time.time() - t0, "solver unknown on " + lab, None, ex.queries - q0, len(finals))
        if not finals:
            return Obligation(name, ["C08"], "inconclusive", time.time() - t0, "no path", None, ex.queries - q0, 0)
        return Obligation(name, ["C08"], "discharged", time.time() - t0, f"{len(finals)} paths, {nq} classification queries", None,
                          ex.queries - q0, len(finals))
