"""Symbolic 'worlds': arbitrary invariant-satisfying states of cassadilia's in-memory structures,
built directly as mirsym values (the specification side: abstraction, invariants J)."""
import z3

from exec import (VInt, VBool, VSym, VUnit, VStruct, VEnum, VRef, VVec, VMap, VOpaque, State, Executor)
from models import Models, new_map, some, none, sym_option

U64 = (1 << 64) - 1
U32 = (1 << 32) - 1

ITEM_SHAPE = ("struct", "IndexStateItem", [("blob_hash", ("sym", "H")), ("blob_size", ("int", "u64"))])


class IndexWorld:
    """An arbitrary IndexState<K> over a key universe of size U and hash universe of size HU."""

    def __init__(self, ex, st, U=4, HU=4, tag="w"):
        self.ex, self.U, self.HU = ex, U, HU
        self.keys = [z3.Int(f"{tag}_u{i}") for i in range(U)]
        self.hashes = [z3.Int(f"{tag}_g{j}") for j in range(HU)]
        pc = st.pc
        for i in range(U - 1):
            pc.append(self.keys[i] < self.keys[i + 1])
        pc.append(z3.Distinct(*self.hashes) if HU > 1 else z3.BoolVal(True))
        ex.models.universe = self.keys
        ex.models.huniverse = self.hashes
        self.pk = [z3.Bool(f"{tag}_pk{i}") for i in range(U)]
        self.hk = [z3.Int(f"{tag}_hk{i}") for i in range(U)]
        self.sk = [z3.Int(f"{tag}_sk{i}") for i in range(U)]
        present = z3.K(z3.IntSort(), z3.BoolVal(False))
        hcol = z3.K(z3.IntSort(), z3.IntVal(0))
        scol = z3.K(z3.IntSort(), z3.IntVal(0))
        for i in range(U):
            present = z3.Store(present, self.keys[i], self.pk[i])
            hcol = z3.Store(hcol, self.keys[i], self.hk[i])
            scol = z3.Store(scol, self.keys[i], self.sk[i])
            pc.append(z3.Or([self.hk[i] == g for g in self.hashes]))
            pc.append(z3.And(self.sk[i] >= 0, self.sk[i] <= U64))
        self.kmap = VMap("btree", "K", present, {"blob_hash": hcol, "blob_size": scol}, ITEM_SHAPE)
        # refcount map: arbitrary bits/values, constrained by the invariant below
        self.rp = [z3.Bool(f"{tag}_rp{j}") for j in range(HU)]
        self.rc = [z3.Int(f"{tag}_rc{j}") for j in range(HU)]
        rpresent = z3.K(z3.IntSort(), z3.BoolVal(False))
        rcol = z3.K(z3.IntSort(), z3.IntVal(0))
        for j in range(HU):
            rpresent = z3.Store(rpresent, self.hashes[j], self.rp[j])
            rcol = z3.Store(rcol, self.hashes[j], self.rc[j])
            pc.append(z3.And(self.rc[j] >= 0, self.rc[j] <= U32))
        self.rmap = VMap("hash", "H", rpresent, {"v": rcol}, ("int", "u32"))
        self.unique = z3.Int(f"{tag}_unique")
        self.total = z3.Int(f"{tag}_total")
        self.idxsize = z3.Int(f"{tag}_idxsize")
        self.lpv = z3.Int(f"{tag}_lpv")  # 0 = None
        for t in (self.unique, self.total, self.idxsize, self.lpv):
            pc.append(z3.And(t >= 0, t <= U64))
        from structs import mk
        stats = mk(ex, st, "DbStats", cas=mk(ex, st, "CasStats", unique_blobs=VInt(self.unique, "u64"), total_bytes=VInt(self.total, "u64")),
                   index=mk(ex, st, "IndexStats", serialized_size_bytes=VInt(self.idxsize, "u64")))
        lpv = sym_option(self.lpv != 0, VInt(self.lpv, "u64"))
        self.value = mk(ex, st, "IndexState", key_to_hash=self.kmap, hash_to_ref_count=self.rmap, last_persisted_version=lpv, stats=stats)
        # the invariant on the pre-state
        pc.append(self.invariant(self.snapshot_pre()))

    # a 'snapshot' is plain z3 terms per universe element
    def snapshot_pre(self):
        return dict(pk=self.pk, hk=self.hk, sk=self.sk, rp=self.rp, rc=self.rc,
                    unique=self.unique, total=self.total)

    def snapshot_of(self, st, ref_or_val):
        v = st.load(ref_or_val) if isinstance(ref_or_val, VRef) else ref_or_val
        from structs import fget
        ex = self.ex
        km, rm, stats = fget(ex, v, "IndexState", "key_to_hash"), fget(ex, v, "IndexState", "hash_to_ref_count"), fget(ex, v, "IndexState", "stats")
        cas_stats = fget(ex, stats, "DbStats", "cas")
        return dict(
            pk=[z3.Select(km.present, k) for k in self.keys],
            hk=[z3.Select(km.cols["blob_hash"], k) for k in self.keys],
            sk=[z3.Select(km.cols["blob_size"], k) for k in self.keys],
            rp=[z3.Select(rm.present, g) for g in self.hashes],
            rc=[z3.Select(rm.cols["v"], g) for g in self.hashes],
            unique=fget(ex, cas_stats, "CasStats", "unique_blobs").t, total=fget(ex, cas_stats, "CasStats", "total_bytes").t)

    def counts(self, s):
        return [z3.Sum([z3.If(z3.And(s["pk"][i], s["hk"][i] == g), 1, 0) for i in range(self.U)])
                for g in self.hashes]

    def size_of_hash(self, s, j):
        """size recorded for hash j by the first key that holds it (0 if none)"""
        t = z3.IntVal(0)
        for i in reversed(range(self.U)):
            t = z3.If(z3.And(s["pk"][i], s["hk"][i] == self.hashes[j]), s["sk"][i], t)
        return t

    def invariant(self, s, parts=False):
        cnt = self.counts(s)
        cs = {}
        cs["refcount = number of keys per hash; no zero entries"] = z3.And(
            [z3.And(s["rp"][j] == (cnt[j] > 0), z3.Implies(s["rp"][j], s["rc"][j] == cnt[j])) for j in range(self.HU)])
        cs["same hash => same size"] = z3.And(
            [z3.Implies(z3.And(s["pk"][i], s["pk"][k], s["hk"][i] == s["hk"][k]), s["sk"][i] == s["sk"][k])
             for i in range(self.U) for k in range(i + 1, self.U)] or [z3.BoolVal(True)])
        cs["unique_blobs = number of distinct referenced hashes"] = (
            s["unique"] == z3.Sum([z3.If(cnt[j] > 0, 1, 0) for j in range(self.HU)]))
        cs["total_bytes = sum of sizes of distinct referenced hashes"] = (
            s["total"] == z3.Sum([z3.If(cnt[j] > 0, self.size_of_hash(s, j), 0) for j in range(self.HU)]))
        if parts:
            return cs
        return z3.And(list(cs.values()))


def make_executor(mir_path, src_root, **kw):
    from exec import load_mir
    fns, consts, si = load_mir(mir_path, src_root)
    models = Models()
    ex = Executor(fns, consts, si, models, **kw)
    ex.si_root = src_root.rstrip("/").rsplit("/src", 1)[0] if src_root.rstrip("/").endswith("src") else src_root
    models.install(ex)
    return ex


def find_fn(ex, suffix, contains=None, p0=None, nparams=None):
    """look a crate function up by name suffix (never by line number: edits shift `impl at` positions)"""
    c = [f for n, f in ex.fns.items() if n.endswith(suffix) and (contains is None or contains in n)
         and (p0 is None or (f.params and p0 in f.params[0][1]))
         and (nparams is None or len(f.params) == nparams)]
    if len(c) != 1:
        raise KeyError(f"{suffix}: {len(c)} candidates: {[f.name for f in c][:5]}")
    return c[0]


class SystemWorld:
    """An arbitrary CasInner<K>: index state (IndexWorld), pending intents, WAL manager position,
    configuration bits — everything the public operations read."""

    def __init__(self, ex, st, U=3, HU=3, intents="arbitrary", sync_mode="sync", writer="arbitrary", N=None, spill=False):
        from iomodel import IoModel, P
        self.ex = ex
        if ex.models.io_hook is None:
            IoModel(ex.models)
        self.io = ex.models.io_hook
        self.iw = IndexWorld(ex, st, U=U, HU=HU)
        w = self.iw
        pc = st.pc
        # pending intents (other in-flight commits): arbitrary or empty
        self.ip = [z3.Bool(f"w_ip{i}") for i in range(U)]
        self.ih = [z3.Int(f"w_ih{i}") for i in range(U)]
        present = z3.K(z3.IntSort(), z3.BoolVal(False))
        col = z3.K(z3.IntSort(), z3.IntVal(0))
        for i in range(U):
            if intents == "empty":
                pc.append(z3.Not(self.ip[i]))
            present = z3.Store(present, w.keys[i], self.ip[i])
            col = z3.Store(col, w.keys[i], self.ih[i])
            pc.append(z3.Or([self.ih[i] == g for g in w.hashes]))
        self.intents = VMap("hash", "K", present, {"v": col}, ("sym", "H"))
        built = self.intents_by_constructor(ex, st)
        if built is not None:
            # the current source keeps its intents in a container of its own: the EMPTY one is built by the type's real
            # constructor (its MIR); in-flight commits of other actors are then added through the real register_intent
            # (obl_sched.add_inflight).  Arbitrary non-empty contents cannot be invented for an unknown representation.
            self.intents = built
            for i in range(U):
                pc.append(z3.Not(self.ip[i]))
        # WAL manager
        self.N = z3.Int("w_N")
        self.next = z3.Int("w_next")
        if N is not None:
            self.N = z3.IntVal(N)   # concrete segment size: keeps every path condition linear
        pc += [self.N >= 1, self.N <= U64, self.next >= 1, self.next <= U64 - 1]
        pc.append(w.lpv < self.next)
        self.has_writer = z3.Bool("w_has_writer")
        self.writer_seg = z3.Int("w_writer_seg")
        pc += [self.writer_seg >= 0, self.writer_seg <= U64]
        wf = self.io.new_file(st, ("wal", self.writer_seg), append=True, create=True)
        from structs import mk, fidx
        sw = mk(ex, st, "SegmentWriter", writer=VStruct("BufWriter", [wf, VVec([])]), segment_id=VInt(self.writer_seg, "u64"))
        if writer == "none":
            pc.append(z3.Not(self.has_writer))
        aw = sym_option(self.has_writer, sw)
        self.wal = mk(ex, st, "WalManager", num_ops_per_wal=VInt(self.N, "u64"), next_op_version=VInt(self.next, "u64"),
                      storage=VStruct("SegmentStorage", [VStruct("DbPaths", [VOpaque("dbpaths")])]), active_writer=aw)
        paths = VStruct("DbPaths", [VOpaque("dbpaths")])
        self.index = mk(ex, st, "Index", paths=paths,
                        state=VStruct("Arc", [VStruct("RwLock", [w.value, VOpaque("lockname", "state")])]),
                        wal=VStruct("Mutex", [self.wal, VOpaque("lockname", "wal")]),
                        pending_intents=VStruct("Mutex", [self.intents, VOpaque("lockname", "pending_intents")]))
        self.precreated = z3.Bool("w_precreated")
        self.casmgr = mk(ex, st, "CasManager", paths=paths.clone(), dir_tree_is_pre_created=VBool(self.precreated))
        lockfile = self.io.new_file(st, ("lock",), write=True)
        chan = none() if sync_mode == "sync" else some(VOpaque("sender"))
        self.cas = mk(ex, st, "CasInner", paths=paths.clone(), index=self.index, cas_manager=VStruct("Arc", [self.casmgr]),
                      _lockfile=lockfile, datasync_channel=chan)
        self.cas_ref = VRef(st.alloc(self.cas))
        self.set_refs(ex, self.cas_ref.cell, ())

    def intents_by_constructor(self, ex, st):
        import re
        from exec import Unsupported
        ty = getattr(ex.si, "struct_types", {}).get("Index", {}).get("pending_intents", "").strip().rstrip(",")
        m = re.match(r"(?:parking_lot::)?Mutex<(.*)>$", ty)
        if not m or re.match(r"(?:\w+::)*HashMap<", m.group(1)):
            return None
        base = re.sub(r"<.*$", "", m.group(1)).split("::")[-1]
        cands = [f for n, f in ex.fns.items() if not f.params and f.ret and re.sub(r"<.*$", "", f.ret).split("::")[-1] == base]
        cands.sort(key=lambda f: (0 if f.name.endswith("::default") else 1 if f.name.endswith("::new") else 2, f.name))
        if not cands:
            raise Unsupported(f"pending_intents is a `{m.group(1)}` and no parameterless constructor of it is in the MIR")
        ex.start(st, cands[0], [])
        outs = ex.run(st)
        good = [f for f in outs if f.status == "returned"]
        if len(outs) != 1 or len(good) != 1 or good[0] is not st:
            raise Unsupported(f"constructor {cands[0].name} of the intents container: {[(f.status, f.note) for f in outs][:3]}")
        st.status = "running"
        v, st.retval = st.retval, None
        return v

    def set_refs(self, ex, cell, prefix):
        """references into the CasInner located at (cell, prefix), by field name"""
        from structs import fidx
        ci = fidx(ex, "CasInner", "index")
        self.cas_ref = VRef(cell, prefix)
        self.index_ref = VRef(cell, prefix + (ci,))
        self.state_ref = VRef(cell, prefix + (ci, fidx(ex, "Index", "state"), 0, 0))
        self.intents_ref = VRef(cell, prefix + (ci, fidx(ex, "Index", "pending_intents"), 0))
        self.wal_ref = VRef(cell, prefix + (ci, fidx(ex, "Index", "wal"), 0))

    def sym_key(self, st, name):
        k = z3.Int(name)
        st.pc.append(z3.Or([k == u for u in self.iw.keys]))
        return k

    def sym_hash(self, st, name):
        h = z3.Int(name)
        st.pc.append(z3.Or([h == g for g in self.iw.hashes]))
        return h
