"""C02/C20 — recovery: the real WalReplayer::replay + WalManager::replay_and_prepare on an arbitrary
well-formed abstract log (record level; byte-level framing/decoding is Engine K's subject)."""
import time

import z3

from exec import (VInt, VBool, VSym, VUnit, VStruct, VEnum, VRef, VVec, VOpaque, State, Unsupported)
from world import find_fn, U64
from obl_index import Obligation, model_values
from models import ok, err, some, none, sym_option, deref_all
from iomodel import IoModel, P, ioerr


class LogDisk:
    """records: list of (version term, segment id term, op value); segment ids ascending, versions
    strictly increasing through the log (the wf() of DESIGN 4.1); snapshot version c (0 = none)"""

    def __init__(self, ex, st, nrec, nseg_max=2):
        self.c = z3.Int("snap_ver")
        st.pc += [self.c >= 0, self.c <= U64 - 2]
        self.vers = [z3.Int(f"rec_v{i}") for i in range(nrec)]
        self.segs = [z3.Int(f"rec_seg{i}") for i in range(nrec)]
        for i in range(nrec):
            st.pc += [self.vers[i] >= 1, self.vers[i] <= U64 - 2, self.segs[i] >= 0, self.segs[i] <= U64]
            if i > 0:
                st.pc += [self.vers[i] > self.vers[i - 1], self.segs[i] >= self.segs[i - 1]]
        self.ops = [VEnum("WalOp", 1, {1: [VVec([])]}) for _ in range(nrec)]   # payloads are irrelevant to replay's control
        # segment list: distinct ids in order; fork-free: we enumerate the grouping concretely
        self.nrec = nrec
        self.extra_empty = z3.Bool("empty_tail_segment")   # an empty segment file after the last record (ensure_segment_file_exists)
        self.tail_seg = z3.Int("tail_seg")
        st.pc += [self.tail_seg >= 0, self.tail_seg <= U64]
        if nrec:
            st.pc.append(self.tail_seg > self.segs[-1])

    def groups(self, ex, st):
        """fork on which consecutive records share a segment -> list of (state, [[rec idx...]...])"""
        outs = [(st, [[0]] if self.nrec else [])]
        for i in range(1, self.nrec):
            nxt = []
            for s, g in outs:
                same = self.segs[i] == self.segs[i - 1]
                if ex.feasible(s.pc, same):
                    s2 = s.clone()
                    s2.pc.append(same)
                    nxt.append((s2, [list(x) for x in g[:-1]] + [g[-1] + [i]]))
                if ex.feasible(s.pc, z3.Not(same)):
                    s3 = s.clone()
                    s3.pc.append(z3.Not(same))
                    nxt.append((s3, [list(x) for x in g] + [[i]]))
            outs = nxt
        return outs


class scoped_models:
    """model overrides installed by an obligation are undone when it finishes (obligations run in any order)"""

    def __init__(self, ex):
        self.ex = ex

    def __enter__(self):
        M = self.ex.models
        if M.io_hook is None:
            IoModel(M)
        self.saved = dict(M.table)
        self.dyn = getattr(M, "call_dyn", None)
        return self

    def __exit__(self, *a):
        M = self.ex.models
        M.table.clear()
        M.table.update(self.saved)
        if self.dyn is None:
            if hasattr(M, "call_dyn"):
                try:
                    del M.call_dyn
                except AttributeError:
                    pass
        else:
            M.call_dyn = self.dyn


def install_models(ex, disk):
    M = ex.models
    if M.io_hook is None:
        IoModel(M)

    def m_discover(ex2, st, fr, c, a, d, r):
        g = st.meta["groups"]
        segs = [VStruct("SegmentInfo", [VInt(disk.segs[grp[0]], "u64"), P("wal", disk.segs[grp[0]])]) for grp in g]
        if st.meta.get("tail"):
            segs.append(VStruct("SegmentInfo", [VInt(disk.tail_seg, "u64"), P("wal", disk.tail_seg)]))
        st.event("io", op="read_dir", outcome="ok", path=("root",))
        return ok(VVec(segs))

    def mk_reader(ex2, st, sid):
        """a SegmentReader value laid out like the real struct (fields the crate may read directly get
        symbolic contents); the read cursor is kept on the side"""
        names = ex2.si.structs.get("SegmentReader") or ["file", "segment_id", "path"]
        flds = []
        for nme in names:
            if nme == "segment_id":
                flds.append(VInt(sid, "u64"))
            elif nme in ("file", "path"):
                flds.append(VOpaque(nme))
            else:
                flds.append(ex2.new_int(st, "u64", "reader_" + nme))
        cur = dict(st.meta.get("cursors", {}))
        cur[str(sid)] = 0
        st.meta["cursors"] = cur
        return VStruct("SegmentReader", flds)

    def reader_sid(ex2, st, rd):
        names = ex2.si.structs.get("SegmentReader") or ["file", "segment_id", "path"]
        return rd.fields[names.index("segment_id")].t

    disk.mk_reader, disk.reader_sid = mk_reader, reader_sid

    def m_open_reader(ex2, st, fr, c, a, d, r):
        return ok(mk_reader(ex2, st, a[1].t))

    def m_reader_next(ex2, st, fr, c, a, d, r):
        rd = deref_all(st, a[0])
        sid = reader_sid(ex2, st, rd)
        pos = st.meta["cursors"][str(sid)]
        grp = None
        for gidx, g in enumerate(st.meta["groups"]):
            if not ex2.feasible(st.pc, disk.segs[g[0]] != sid):
                grp = g
        if grp is None or pos >= len(grp):
            return none()
        i = grp[pos]
        cur = dict(st.meta["cursors"])
        cur[str(sid)] = pos + 1
        st.meta["cursors"] = cur
        st.meta.setdefault("yielded", []).append(i)
        entry = VStruct("WalEntryRaw", [VInt(disk.vers[i], "u64"), VOpaque("bytes", ("rec", i))])
        return some(ok(entry))

    M.reg("SegmentStorage::discover_segments", m_discover)
    M.reg("SegmentStorage::open_reader", m_open_reader)
    M.reg("SegmentReader as Iterator::next", m_reader_next)
    M.reg("deserialize_wal_op_raw", lambda ex2, st, fr, c, a, d, r: ok(VOpaque("raw-op", deref_all(st, a[0]).data)))
    M.reg("WalOp::from_raw", lambda ex2, st, fr, c, a, d, r: ok(VOpaque("op", a[0].data)))

    def call_dyn(ex2, st, cv, args, dref, ret_bb):
        if isinstance(cv, VOpaque) and cv.tag == "collector":
            st.meta.setdefault("applied", []).append(args[0].data[1])
            return ex2.finish_call(st, dref, ret_bb, VUnit())
        return None
    M.call_dyn = call_dyn


def ob_replay(ex, nrec, tail):
    with scoped_models(ex):
        return _ob_replay(ex, nrec, tail)


def ob_prepare(ex):
    with scoped_models(ex):
        return _ob_prepare(ex)


def ob_commit_checkpoint(ex, N):
    with scoped_models(ex):
        return _ob_commit_checkpoint(ex, N)


def _ob_replay(ex, nrec, tail):
    """replay() yields exactly the records above the snapshot version, in order, and returns
    max(snapshot version, every version in the log)"""
    t0 = time.time()
    q0 = ex.queries
    st0 = State()
    disk = LogDisk(ex, st0, nrec)
    install_models(ex, disk)
    fn = find_fn(ex, "::replay", "replay::<impl", p0="&WalReplayer")
    finals = []
    for st, groups in disk.groups(ex, st0):
        st.meta["groups"] = groups
        st.meta["tail"] = tail
        rep = VStruct("WalReplayer", [VRef(st.alloc(VStruct("SegmentStorage", [VOpaque("paths")]))),
                                      sym_option(disk.c != 0, VInt(disk.c, "u64"))])
        ex.start(st, fn, [VRef(st.alloc(rep)), VOpaque("collector")])
        finals += ex.run(st)
    name = f"WalReplayer::replay on a well-formed log of {nrec} records" + (" + empty tail segment" if tail else "")
    for f in finals:
        if f.status in ("unsupported", "cut"):
            return Obligation(name, ["C02", "C20"], "inconclusive", time.time() - t0, f"{f.status}: {f.note}", None, ex.queries - q0, len(finals))
    terms = dict(snap_ver=disk.c, versions=disk.vers, segments=disk.segs)
    n = 0
    for f in finals:
        if f.status != "returned":
            r, m = ex.model_of(f.pc)
            return Obligation(name, ["C02", "C20"], "violated", time.time() - t0, f"replay of a well-formed log ends in {f.status}: {f.note}",
                              model_values(m, terms) if m else None, ex.queries - q0, len(finals))
        rv = f.retval
        posts = {}
        if not (isinstance(rv, VEnum) and rv.concrete() == 0):
            posts["replay of a well-formed log returns Ok"] = False
        else:
            opt = rv.payloads[0][0]
            hi = disk.c
            for v in disk.vers:
                hi = z3.If(v > hi, v, hi)
            got = z3.If(opt.disc == 1, (opt.payloads[1][0].t if 1 in opt.payloads and opt.payloads[1] else z3.IntVal(0)), 0)
            posts["C02 highest version = max(snapshot version, all versions in the log)"] = got == hi
            applied = f.meta.get("applied", [])
            # exactly the records with version > snapshot, in log order
            for i in range(nrec):
                should = disk.vers[i] > disk.c
                did = i in applied
                posts[f"C02 record {i} applied iff its version is above the snapshot version"] = (should if did else z3.Not(should))
            posts["C02 records applied in log order, once each"] = (applied == sorted(set(applied)))
        for lab, post in posts.items():
            n += 1
            if isinstance(post, bool):
                if not post:
                    r, m = ex.model_of(f.pc)
                    return Obligation(name, ["C02", "C20"], "violated", time.time() - t0, lab, model_values(m, terms) if m else None,
                                      ex.queries - q0, len(finals))
                continue
            r, m = ex.model_of(f.pc, z3.Not(post))
            if r == z3.sat:
                return Obligation(name, ["C02", "C20"], "violated", time.time() - t0, "post-condition fails: " + lab,
                                  model_values(m, terms), ex.queries - q0, len(finals))
            if r != z3.unsat:
                return Obligation(name, ["C02", "C20"], "inconclusive", time.time() - t0, "solver unknown", None, ex.queries - q0, len(finals))
    if not finals:
        return Obligation(name, ["C02", "C20"], "inconclusive", time.time() - t0, "no feasible path", None, ex.queries - q0, 0)
    return Obligation(name, ["C02", "C20"], "discharged", time.time() - t0, f"{len(finals)} paths, {n} post-condition queries", None,
                      ex.queries - q0, len(finals))


def _ob_prepare(ex):
    """replay_and_prepare: next = highest+1 (or 1), and the segment of `next` exists afterwards"""
    t0 = time.time()
    q0 = ex.queries
    st = State()
    disk = LogDisk(ex, st, 1)
    install_models(ex, disk)
    st.meta["groups"] = [[0]]
    st.meta["tail"] = False
    n = z3.Int("N")
    st.pc += [n >= 1, n <= 1000]
    from obl_wal import wal_manager
    wm = VRef(st.alloc(VStruct("WalManager", [VInt(n, "u64"), VInt(1, "u64"),
                                              VStruct("SegmentStorage", [VStruct("DbPaths", [VOpaque("dbpaths")])]), none()])))
    fn = find_fn(ex, "::replay_and_prepare", "wal::manager")
    ex.start(st, fn, [wm, sym_option(disk.c != 0, VInt(disk.c, "u64")), VOpaque("collector")])
    finals = ex.run(st)
    name = "WalManager::replay_and_prepare sets next above everything seen and creates its segment"
    terms = dict(snap_ver=disk.c, versions=disk.vers, N=n)
    cnt = 0
    for f in finals:
        if f.status in ("unsupported", "cut"):
            return Obligation(name, ["C02", "C20"], "inconclusive", time.time() - t0, f"{f.status}: {f.note}", None, ex.queries - q0, len(finals))
        if f.status != "returned":
            r, m = ex.model_of(f.pc)
            return Obligation(name, ["C02", "C20"], "violated", time.time() - t0, f"{f.status}: {f.note}", model_values(m, terms) if m else None,
                              ex.queries - q0, len(finals))
        nxt = f.load(wm).fields[1].t
        hi = z3.If(disk.vers[0] > disk.c, disk.vers[0], disk.c)
        posts = {"C20 next_op_version = highest version seen + 1 (never reuses a version)": nxt == hi + 1}
        created = [e for e in f.trace if e["kind"] == "io" and e["op"] == "open" and e["path"][0] == "wal" and e.get("flags", {}).get("create")]
        existsq = [e for e in f.trace if e["kind"] == "io" and e["op"] == "exists?"]
        if created:
            posts["C20 the segment created is the one `next` belongs to"] = z3.And(created[0]["path"][1] * n < nxt, nxt <= (created[0]["path"][1] + 1) * n)
            synced = [e for e in f.trace if e["kind"] == "io" and e["op"] == "sync" and e["path"] == created[0]["path"]]
            posts["C09 a newly created segment file is synced before use"] = bool(synced)
        for lab, post in posts.items():
            cnt += 1
            if isinstance(post, bool):
                if not post:
                    return Obligation(name, ["C02", "C20"], "violated", time.time() - t0, lab, None, ex.queries - q0, len(finals))
                continue
            r, m = ex.model_of(f.pc, z3.Not(post))
            if r == z3.sat:
                return Obligation(name, ["C02", "C20"], "violated", time.time() - t0, "post-condition fails: " + lab, model_values(m, terms),
                                  ex.queries - q0, len(finals))
    return Obligation(name, ["C02", "C20"], "discharged", time.time() - t0, f"{len(finals)} paths, {cnt} post-condition queries", None,
                      ex.queries - q0, len(finals))


def _ob_commit_checkpoint(ex, N):
    """commit_checkpoint(version, last): every segment it removes holds only versions <= version
    (so every acknowledged version above the snapshot stays in the log)"""
    from obl_wal import wal_manager
    t0 = time.time()
    q0 = ex.queries
    st = State()
    if ex.models.io_hook is None:
        IoModel(ex.models)
    # default directory listing model (two candidate segments) — undo LogDisk overrides if any
    from iomodel import m_discover_segments
    ex.models.reg("SegmentStorage::discover_segments", m_discover_segments(ex.models.io_hook))
    v, last, nxt = z3.Int("ckpt_version"), z3.Int("last_ckpt"), z3.Int("next")
    st.pc += [v >= 1, v <= U64 - 2, last >= 0, last <= U64 - 2, nxt > v, nxt <= U64 - 1]
    wm = VRef(st.alloc(VStruct("WalManager", [VInt(N, "u64"), VInt(nxt, "u64"),
                                              VStruct("SegmentStorage", [VStruct("DbPaths", [VOpaque("dbpaths")])]), none()])))
    fn = find_fn(ex, "::commit_checkpoint", "wal::manager")
    ex.start(st, fn, [wm, VInt(v, "u64"), sym_option(last != 0, VInt(last, "u64"))])
    finals = ex.run(st)
    name = f"commit_checkpoint prunes only segments whose versions are all <= the checkpoint version (N={N})"
    terms = dict(version=v, last=last, N=N)
    n = 0
    for f in finals:
        if f.status in ("unsupported", "cut"):
            return Obligation(name, ["C02", "C20"], "inconclusive", time.time() - t0, f"{f.status}: {f.note}", None, ex.queries - q0, len(finals))
        if f.status != "returned":
            r, m = ex.model_of(f.pc)
            return Obligation(name, ["C02", "C20"], "violated", time.time() - t0, f"{f.status}: {f.note}", model_values(m, terms) if m else None,
                              ex.queries - q0, len(finals))
        for e in f.trace:
            if e["kind"] == "io" and e["op"] == "unlink" and e["path"][0] == "wal":
                n += 1
                sid = e["path"][1]
                post = (sid + 1) * N <= v
                r, m = ex.model_of(f.pc, z3.Not(post))
                if r == z3.sat:
                    d = model_values(m, terms)
                    d["pruned_segment"] = m.eval(sid, model_completion=True).as_long()
                    return Obligation(name, ["C02", "C20"], "violated", time.time() - t0,
                                      "a pruned segment may hold a version above the checkpoint version", d, ex.queries - q0, len(finals))
    return Obligation(name, ["C02", "C20"], "discharged", time.time() - t0, f"{len(finals)} paths, {n} prune events checked", None,
                      ex.queries - q0, len(finals))


# ---- C10: a damaged log is never silently accepted (record level) ---------------------------------------

def ob_replay_damaged(ex, nrec, bad, kind):
    with scoped_models(ex):
        return _ob_replay_damaged(ex, nrec, bad, kind)


def _ob_replay_damaged(ex, nrec, bad, kind):
    """log of nrec records in any segment grouping; record `bad` is damaged:
    kind='error'  : its reader reports an error (checksum mismatch / short payload / undecodable op)
    kind='eof'    : the log is cut inside its header (reader reports end of segment there)
    Obligation: replay returns Err, or Ok having applied EXACTLY the records before `bad` (and above
    the snapshot) — never a record at or after the damage, never a hole."""
    t0 = time.time()
    q0 = ex.queries
    st0 = State()
    disk = LogDisk(ex, st0, nrec)
    install_models(ex, disk)
    M = ex.models
    orig_next = M.table["SegmentReader as Iterator::next"]

    def m_reader_next(ex2, st, fr, c, a, d, r):
        rd = deref_all(st, a[0])
        sid = disk.reader_sid(ex2, st, rd)
        pos = st.meta["cursors"][str(sid)]
        grp = None
        for g in st.meta["groups"]:
            if not ex2.feasible(st.pc, disk.segs[g[0]] != sid):
                grp = g
        if grp is not None and pos < len(grp) and grp[pos] == bad:
            cur = dict(st.meta["cursors"])
            cur[str(sid)] = pos + 1
            st.meta["hit_damage"] = True
            if kind == "eof":
                # nothing after a cut can be read from this segment
                cur[str(sid)] = 10 ** 6
                st.meta["cursors"] = cur
                return none()
            st.meta["cursors"] = cur
            e = VEnum("WalError", ex2.si.variant_index("WalError", "ReplayChecksumMismatch"),
                      {ex2.si.variant_index("WalError", "ReplayChecksumMismatch"): [VInt(disk.vers[bad], "u64"), VInt(sid, "u64"), VOpaque("h"), VOpaque("h")]})
            return some(err(e))
        return orig_next(ex2, st, fr, c, a, d, r)
    M.reg("SegmentReader as Iterator::next", m_reader_next)
    fn = find_fn(ex, "::replay", "replay::<impl", p0="&WalReplayer")
    finals = []
    for st, groups in disk.groups(ex, st0):
        if kind == "eof":
            # a cut removes everything after it: only meaningful when `bad` is in the last segment
            if bad not in groups[-1]:
                continue
            groups = [list(g) for g in groups]
        st.meta["groups"] = groups
        st.meta["tail"] = False
        rep = VStruct("WalReplayer", [VRef(st.alloc(VStruct("SegmentStorage", [VOpaque("paths")]))),
                                      sym_option(disk.c != 0, VInt(disk.c, "u64"))])
        ex.start(st, fn, [VRef(st.alloc(rep)), VOpaque("collector")])
        finals += ex.run(st)
    name = f"replay of a log of {nrec} records whose record {bad} is damaged ({kind})"
    terms = dict(snap_ver=disk.c, versions=disk.vers, segments=disk.segs)
    n = 0
    for f in finals:
        if f.status in ("unsupported", "cut"):
            return Obligation(name, ["C10"], "inconclusive", time.time() - t0, f"{f.status}: {f.note}", None, ex.queries - q0, len(finals))
        if f.status != "returned":
            r, m = ex.model_of(f.pc)
            return Obligation(name, ["C10"], "violated", time.time() - t0, f"replay of a damaged log ends in {f.status}: {f.note}",
                              model_values(m, terms) if m else None, ex.queries - q0, len(finals))
        rv = f.retval
        applied = f.meta.get("applied", [])
        n += 1
        if isinstance(rv, VEnum) and rv.concrete() == 0:
            late = [i for i in applied if i >= bad]
            if late:
                r, m = ex.model_of(f.pc)
                cex = model_values(m, terms) if m else {}
                cex.update(applied=applied, damaged=bad, kind=kind, groups=str(f.meta.get("groups")))
                return Obligation(name, ["C10"], "violated", time.time() - t0,
                                  f"replay accepts a damaged log and applies record(s) {late} at/after the damage (hole in the history)",
                                  cex, ex.queries - q0, len(finals))
            # every record before the damage and above the snapshot must have been applied
            for i in range(bad):
                should = disk.vers[i] > disk.c
                did = i in applied
                post = should if did else z3.Not(should)
                r, m = ex.model_of(f.pc, z3.Not(post))
                if r == z3.sat:
                    cex = model_values(m, terms)
                    cex.update(applied=applied, damaged=bad, kind=kind)
                    return Obligation(name, ["C10"], "violated", time.time() - t0, "accepted state is not the longest undamaged prefix",
                                      cex, ex.queries - q0, len(finals))
            if kind == "error" and f.meta.get("hit_damage"):
                # baseline behaviour is to fail; accepting is only legitimate for the exact prefix (checked above)
                pass
    if not finals:
        return Obligation(name, ["C10"], "inconclusive", time.time() - t0, "no feasible path", None, ex.queries - q0, 0)
    return Obligation(name, ["C10"], "discharged", time.time() - t0, f"{len(finals)} paths", None, ex.queries - q0, len(finals))
