"""C02/C20 — recovery: the real WalReplayer::replay + WalManager::replay_and_prepare on an arbitrary
well-formed abstract log (record level; byte-level framing/decoding is Engine K's subject)."""
import re
import time

import z3

from exec import (VInt, VBool, VSym, VUnit, VStruct, VEnum, VRef, VVec, VOpaque, State, Unsupported)
from world import find_fn, U64
from obl_index import Obligation, model_values
from models import ok, err, some, none, sym_option, deref_all
from iomodel import IoModel, P, ioerr


class LogDisk:
    """records: list of (version term, segment id term, op value); segment ids ascending, versions
    strictly increasing through the log (the wf() of DESIGN 4.1); snapshot version c (0 = none)"""

    def __init__(self, ex, st, nrec, nseg_max=2):
        self.c = z3.Int("snap_ver")
        st.pc += [self.c >= 0, self.c <= U64 - 2]
        self.vers = [z3.Int(f"rec_v{i}") for i in range(nrec)]
        self.segs = [z3.Int(f"rec_seg{i}") for i in range(nrec)]
        for i in range(nrec):
            st.pc += [self.vers[i] >= 1, self.vers[i] <= U64 - 2, self.segs[i] >= 0, self.segs[i] <= U64]
            if i > 0:
                st.pc += [self.vers[i] > self.vers[i - 1], self.segs[i] >= self.segs[i - 1]]
        self.ops = [VEnum("WalOp", 1, {1: [VVec([])]}) for _ in range(nrec)]   # payloads are irrelevant to replay's control
        # segment list: distinct ids in order; fork-free: we enumerate the grouping concretely
        self.nrec = nrec
        self.extra_empty = z3.Bool("empty_tail_segment")   # an empty segment file after the last record (ensure_segment_file_exists)
        self.tail_seg = z3.Int("tail_seg")
        st.pc += [self.tail_seg >= 0, self.tail_seg <= U64]
        if nrec:
            st.pc.append(self.tail_seg > self.segs[-1])

    def groups(self, ex, st):
        """fork on which consecutive records share a segment -> list of (state, [[rec idx...]...])"""
        outs = [(st, [[0]] if self.nrec else [])]
        for i in range(1, self.nrec):
            nxt = []
            for s, g in outs:
                same = self.segs[i] == self.segs[i - 1]
                if ex.feasible(s.pc, same):
                    s2 = s.clone()
                    s2.pc.append(same)
                    nxt.append((s2, [list(x) for x in g[:-1]] + [g[-1] + [i]]))
                if ex.feasible(s.pc, z3.Not(same)):
                    s3 = s.clone()
                    s3.pc.append(z3.Not(same))
                    nxt.append((s3, [list(x) for x in g] + [[i]]))
            outs = nxt
        return outs


class scoped_models:
    """model overrides installed by an obligation are undone when it finishes (obligations run in any order)"""

    def __init__(self, ex):
        self.ex = ex

    def __enter__(self):
        M = self.ex.models
        if M.io_hook is None:
            IoModel(M)
        self.saved = dict(M.table)
        self.dyn = getattr(M, "call_dyn", None)
        return self

    def __exit__(self, *a):
        M = self.ex.models
        M.table.clear()
        M.table.update(self.saved)
        if self.dyn is None:
            if hasattr(M, "call_dyn"):
                try:
                    del M.call_dyn
                except AttributeError:
                    pass
        else:
            M.call_dyn = self.dyn


def install_models(ex, disk):
    M = ex.models
    if M.io_hook is None:
        IoModel(M)

    def m_discover(ex2, st, fr, c, a, d, r):
        g = st.meta["groups"]
        segs = [VStruct("SegmentInfo", [VInt(disk.segs[grp[0]], "u64"), P("wal", disk.segs[grp[0]])]) for grp in g]
        if st.meta.get("tail"):
            segs.append(VStruct("SegmentInfo", [VInt(disk.tail_seg, "u64"), P("wal", disk.tail_seg)]))
        st.event("io", op="read_dir", outcome="ok", path=("root",))
        return ok(VVec(segs))

    def mk_reader(ex2, st, sid):
        """a SegmentReader value laid out like the real struct (fields the crate may read directly get
        symbolic contents); the read cursor is kept on the side"""
        names = ex2.si.structs.get("SegmentReader") or ["file", "segment_id", "path"]
        flds = []
        for nme in names:
            if nme == "segment_id":
                flds.append(VInt(sid, "u64"))
            elif nme in ("file", "path"):
                flds.append(VOpaque(nme))
            else:
                flds.append(ex2.new_int(st, "u64", "reader_" + nme))
        cur = dict(st.meta.get("cursors", {}))
        cur[str(sid)] = 0
        st.meta["cursors"] = cur
        return VStruct("SegmentReader", flds)

    def reader_sid(ex2, st, rd):
        names = ex2.si.structs.get("SegmentReader") or ["file", "segment_id", "path"]
        return rd.fields[names.index("segment_id")].t

    disk.mk_reader, disk.reader_sid = mk_reader, reader_sid

    def m_open_reader(ex2, st, fr, c, a, d, r):
        return ok(mk_reader(ex2, st, a[1].t))

    def m_reader_next(ex2, st, fr, c, a, d, r):
        rd = deref_all(st, a[0])
        sid = reader_sid(ex2, st, rd)
        pos = st.meta["cursors"][str(sid)]
        grp = None
        for gidx, g in enumerate(st.meta["groups"]):
            if not ex2.feasible(st.pc, disk.segs[g[0]] != sid):
                grp = g
        if grp is None or pos >= len(grp):
            return none()
        i = grp[pos]
        cur = dict(st.meta["cursors"])
        cur[str(sid)] = pos + 1
        st.meta["cursors"] = cur
        st.meta.setdefault("yielded", []).append(i)
        entry = VStruct("WalEntryRaw", [VInt(disk.vers[i], "u64"), VOpaque("bytes", ("rec", i))])
        return some(ok(entry))

    M.reg("SegmentStorage::discover_segments", m_discover)
    M.reg("SegmentStorage::open_reader", m_open_reader)
    M.reg("SegmentReader as Iterator::next", m_reader_next)
    M.reg("deserialize_wal_op_raw", lambda ex2, st, fr, c, a, d, r: ok(VOpaque("raw-op", deref_all(st, a[0]).data)))
    M.reg("WalOp::from_raw", lambda ex2, st, fr, c, a, d, r: ok(VOpaque("op", a[0].data)))

    def call_dyn(ex2, st, cv, args, dref, ret_bb):
        if isinstance(cv, VOpaque) and cv.tag == "collector":
            st.meta.setdefault("applied", []).append(args[0].data[1])
            return ex2.finish_call(st, dref, ret_bb, VUnit())
        return None
    M.call_dyn = call_dyn


def ob_replay(ex, nrec, tail):
    with scoped_models(ex):
        return _ob_replay(ex, nrec, tail)


def ob_prepare(ex):
    with scoped_models(ex):
        return _ob_prepare(ex)


def ob_commit_checkpoint(ex, N):
    with scoped_models(ex):
        return _ob_commit_checkpoint(ex, N)


def _ob_replay(ex, nrec, tail):
    """replay() yields exactly the records above the snapshot version, in order, and returns
    max(snapshot version, every version in the log)"""
    t0 = time.time()
    q0 = ex.queries
    st0 = State()
    disk = LogDisk(ex, st0, nrec)
    install_models(ex, disk)
    fn = find_fn(ex, "::replay", "replay::<impl", p0="&WalReplayer")
    finals = []
    for st, groups in disk.groups(ex, st0):
        st.meta["groups"] = groups
        st.meta["tail"] = tail
        rep = VStruct("WalReplayer", [VRef(st.alloc(VStruct("SegmentStorage", [VOpaque("paths")]))),
                                      sym_option(disk.c != 0, VInt(disk.c, "u64"))])
        ex.start(st, fn, [VRef(st.alloc(rep)), VOpaque("collector")])
        finals += ex.run(st)
    name = f"WalReplayer::replay on a well-formed log of {nrec} records" + (" + empty tail segment" if tail else "")
    for f in finals:
        if f.status in ("unsupported", "cut"):
            return Obligation(name, ["C02", "C20"], "inconclusive", time.time() - t0, f"{f.status}: {f.note}", None, ex.queries - q0, len(finals))
    terms = dict(snap_ver=disk.c, versions=disk.vers, segments=disk.segs)
    n = 0
    for f in finals:
        if f.status != "returned":
            r, m = ex.model_of(f.pc)
            return Obligation(name, ["C02", "C20"], "violated", time.time() - t0, f"replay of a well-formed log ends in {f.status}: {f.note}",
                              model_values(m, terms) if m else None, ex.queries - q0, len(finals))
        rv = f.retval
        posts = {}
        if not (isinstance(rv, VEnum) and rv.concrete() == 0):
            posts["replay of a well-formed log returns Ok"] = False
        else:
            opt = rv.payloads[0][0]
            hi = disk.c
            for v in disk.vers:
                hi = z3.If(v > hi, v, hi)
            got = z3.If(opt.disc == 1, (opt.payloads[1][0].t if 1 in opt.payloads and opt.payloads[1] else z3.IntVal(0)), 0)
            posts["C02 highest version = max(snapshot version, all versions in the log)"] = got == hi
            applied = f.meta.get("applied", [])
            # exactly the records with version > snapshot, in log order
            for i in range(nrec):
                should = disk.vers[i] > disk.c
                did = i in applied
                posts[f"C02 record {i} applied iff its version is above the snapshot version"] = (should if did else z3.Not(should))
            posts["C02 records applied in log order, once each"] = (applied == sorted(set(applied)))
        for lab, post in posts.items():
            n += 1
            if isinstance(post, bool):
                if not post:
                    r, m = ex.model_of(f.pc)
                    return Obligation(name, ["C02", "C20"], "violated", time.time() - t0, lab, model_values(m, terms) if m else None,
                                      ex.queries - q0, len(finals))
                continue
            r, m = ex.model_of(f.pc, z3.Not(post))
            if r == z3.sat:
                return Obligation(name, ["C02", "C20"], "violated", time.time() - t0, "post-condition fails: " + lab,
                                  model_values(m, terms), ex.queries - q0, len(finals))
            if r != z3.unsat:
                return Obligation(name, ["C02", "C20"], "inconclusive", time.time() - t0, "solver unknown", None, ex.queries - q0, len(finals))
    if not finals:
        return Obligation(name, ["C02", "C20"], "inconclusive", time.time() - t0, "no feasible path", None, ex.queries - q0, 0)
    return Obligation(name, ["C02", "C20"], "discharged", time.time() - t0, f"{len(finals)} paths, {n} post-condition queries", None,
                      ex.queries - q0, len(finals))


def _ob_prepare(ex):
    """replay_and_prepare: next = highest+1 (or 1), and the segment of `next` exists afterwards"""
    t0 = time.time()
    q0 = ex.queries
    st = State()
    disk = LogDisk(ex, st, 1)
    install_models(ex, disk)
    st.meta["groups"] = [[0]]
    st.meta["tail"] = False
    n = z3.Int("N")
    st.pc += [n >= 1, n <= 1000]
    from obl_wal import wal_manager
    from structs import mk
    wm = VRef(st.alloc(mk(ex, st, "WalManager", num_ops_per_wal=VInt(n, "u64"), next_op_version=VInt(1, "u64"),
                          storage=VStruct("SegmentStorage", [VStruct("DbPaths", [VOpaque("dbpaths")])]), active_writer=none())))
    fn = find_fn(ex, "::replay_and_prepare", "wal::manager")
    ex.start(st, fn, [wm, sym_option(disk.c != 0, VInt(disk.c, "u64")), VOpaque("collector")])
    finals = ex.run(st)
    name = "WalManager::replay_and_prepare sets next above everything seen and creates its segment"
    terms = dict(snap_ver=disk.c, versions=disk.vers, N=n)
    cnt = 0
    for f in finals:
        if f.status in ("unsupported", "cut"):
            return Obligation(name, ["C02", "C20"], "inconclusive", time.time() - t0, f"{f.status}: {f.note}", None, ex.queries - q0, len(finals))
        if f.status != "returned":
            r, m = ex.model_of(f.pc)
            return Obligation(name, ["C02", "C20"], "violated", time.time() - t0, f"{f.status}: {f.note}", model_values(m, terms) if m else None,
                              ex.queries - q0, len(finals))
        from structs import fget
        nxt = fget(ex, f.load(wm), "WalManager", "next_op_version").t
        hi = z3.If(disk.vers[0] > disk.c, disk.vers[0], disk.c)
        posts = {"C20 next_op_version = highest version seen + 1 (never reuses a version)": nxt == hi + 1}
        created = [e for e in f.trace if e["kind"] == "io" and e["op"] == "open" and e["path"][0] == "wal" and e.get("flags", {}).get("create")]
        existsq = [e for e in f.trace if e["kind"] == "io" and e["op"] == "exists?"]
        import obl_trace as T_
        v = T_.make_p_wal_never_truncated(ex)(None, f)
        posts["C03/C20 recovery never truncates a WAL segment that may hold records"] = (v is None)
        if created:
            posts["C20 the segment created is the one `next` belongs to"] = z3.And(created[0]["path"][1] * n < nxt, nxt <= (created[0]["path"][1] + 1) * n)
            synced = [e for e in f.trace if e["kind"] == "io" and e["op"] == "sync" and e["path"] == created[0]["path"]]
            posts["C09 a newly created segment file is synced before use"] = bool(synced)
        for lab, post in posts.items():
            cnt += 1
            if isinstance(post, bool):
                if not post:
                    return Obligation(name, ["C02", "C20"], "violated", time.time() - t0, lab, None, ex.queries - q0, len(finals))
                continue
            r, m = ex.model_of(f.pc, z3.Not(post))
            if r == z3.sat:
                return Obligation(name, ["C02", "C20"], "violated", time.time() - t0, "post-condition fails: " + lab, model_values(m, terms),
                                  ex.queries - q0, len(finals))
    return Obligation(name, ["C02", "C20"], "discharged", time.time() - t0, f"{len(finals)} paths, {cnt} post-condition queries", None,
                      ex.queries - q0, len(finals))


def _ob_commit_checkpoint(ex, N):
    """commit_checkpoint(version, last): every segment it removes holds only versions <= version
    (so every acknowledged version above the snapshot stays in the log)"""
    from obl_wal import wal_manager
    t0 = time.time()
    q0 = ex.queries
    st = State()
    if ex.models.io_hook is None:
        IoModel(ex.models)
    # default directory listing model (two candidate segments) — undo LogDisk overrides if any
    from iomodel import m_discover_segments
    ex.models.reg("SegmentStorage::discover_segments", m_discover_segments(ex.models.io_hook))
    v, last, nxt = z3.Int("ckpt_version"), z3.Int("last_ckpt"), z3.Int("next")
    st.pc += [v >= 1, v <= U64 - 2, last >= 0, last <= U64 - 2, nxt > v, nxt <= U64 - 1]
    from structs import mk
    wm = VRef(st.alloc(mk(ex, st, "WalManager", num_ops_per_wal=VInt(N, "u64"), next_op_version=VInt(nxt, "u64"),
                          storage=VStruct("SegmentStorage", [VStruct("DbPaths", [VOpaque("dbpaths")])]), active_writer=none())))
    fn = find_fn(ex, "::commit_checkpoint", "wal::manager")
    ex.start(st, fn, [wm, VInt(v, "u64"), sym_option(last != 0, VInt(last, "u64"))])
    finals = ex.run(st)
    name = f"commit_checkpoint prunes only segments whose versions are all <= the checkpoint version (N={N})"
    terms = dict(version=v, last=last, N=N)
    n = 0
    for f in finals:
        if f.status in ("unsupported", "cut"):
            return Obligation(name, ["C02", "C20"], "inconclusive", time.time() - t0, f"{f.status}: {f.note}", None, ex.queries - q0, len(finals))
        if f.status != "returned":
            r, m = ex.model_of(f.pc)
            return Obligation(name, ["C02", "C20"], "violated", time.time() - t0, f"{f.status}: {f.note}", model_values(m, terms) if m else None,
                              ex.queries - q0, len(finals))
        for e in f.trace:
            if e["kind"] == "io" and e["op"] == "unlink" and e["path"][0] == "wal":
                n += 1
                sid = e["path"][1]
                post = (sid + 1) * N <= v
                r, m = ex.model_of(f.pc, z3.Not(post))
                if r == z3.sat:
                    d = model_values(m, terms)
                    d["pruned_segment"] = m.eval(sid, model_completion=True).as_long()
                    return Obligation(name, ["C02", "C20"], "violated", time.time() - t0,
                                      "a pruned segment may hold a version above the checkpoint version", d, ex.queries - q0, len(finals))
    return Obligation(name, ["C02", "C20"], "discharged", time.time() - t0, f"{len(finals)} paths, {n} prune events checked", None,
                      ex.queries - q0, len(finals))


# ---- C10: a damaged log is never silently accepted (record level) ---------------------------------------

def ob_replay_damaged(ex, nrec, bad, kind):
    with scoped_models(ex):
        return _ob_replay_damaged(ex, nrec, bad, kind)


def _ob_replay_damaged(ex, nrec, bad, kind):
    """log of nrec records in any segment grouping; record `bad` is damaged:
    kind='error'  : its reader reports an error (checksum mismatch / short payload / undecodable op)
    kind='eof'    : the log is cut inside its header (reader reports end of segment there)
    Obligation: replay returns Err, or Ok having applied EXACTLY the records before `bad` (and above
    the snapshot) — never a record at or after the damage, never a hole."""
    t0 = time.time()
    q0 = ex.queries
    st0 = State()
    disk = LogDisk(ex, st0, nrec)
    install_models(ex, disk)
    M = ex.models
    orig_next = M.table["SegmentReader as Iterator::next"]

    def m_reader_next(ex2, st, fr, c, a, d, r):
        rd = deref_all(st, a[0])
        sid = disk.reader_sid(ex2, st, rd)
        pos = st.meta["cursors"][str(sid)]
        grp = None
        for g in st.meta["groups"]:
            if not ex2.feasible(st.pc, disk.segs[g[0]] != sid):
                grp = g
        if grp is not None and pos < len(grp) and grp[pos] == bad:
            cur = dict(st.meta["cursors"])
            cur[str(sid)] = pos + 1
            st.meta["hit_damage"] = True
            if kind == "eof":
                # nothing after a cut can be read from this segment
                cur[str(sid)] = 10 ** 6
                st.meta["cursors"] = cur
                return none()
            st.meta["cursors"] = cur
            e = VEnum("WalError", ex2.si.variant_index("WalError", "ReplayChecksumMismatch"),
                      {ex2.si.variant_index("WalError", "ReplayChecksumMismatch"): [VInt(disk.vers[bad], "u64"), VInt(sid, "u64"), VOpaque("h"), VOpaque("h")]})
            return some(err(e))
        return orig_next(ex2, st, fr, c, a, d, r)
    M.reg("SegmentReader as Iterator::next", m_reader_next)
    fn = find_fn(ex, "::replay", "replay::<impl", p0="&WalReplayer")
    finals = []
    for st, groups in disk.groups(ex, st0):
        if kind == "eof":
            # a cut removes everything after it: only meaningful when `bad` is in the last segment
            if bad not in groups[-1]:
                continue
            groups = [list(g) for g in groups]
        st.meta["groups"] = groups
        st.meta["tail"] = False
        rep = VStruct("WalReplayer", [VRef(st.alloc(VStruct("SegmentStorage", [VOpaque("paths")]))),
                                      sym_option(disk.c != 0, VInt(disk.c, "u64"))])
        ex.start(st, fn, [VRef(st.alloc(rep)), VOpaque("collector")])
        finals += ex.run(st)
    name = f"replay of a log of {nrec} records whose record {bad} is damaged ({kind})"
    terms = dict(snap_ver=disk.c, versions=disk.vers, segments=disk.segs)
    n = 0
    for f in finals:
        if f.status in ("unsupported", "cut"):
            return Obligation(name, ["C10"], "inconclusive", time.time() - t0, f"{f.status}: {f.note}", None, ex.queries - q0, len(finals))
        if f.status != "returned":
            r, m = ex.model_of(f.pc)
            return Obligation(name, ["C10"], "violated", time.time() - t0, f"replay of a damaged log ends in {f.status}: {f.note}",
                              model_values(m, terms) if m else None, ex.queries - q0, len(finals))
        rv = f.retval
        applied = f.meta.get("applied", [])
        n += 1
        if isinstance(rv, VEnum) and rv.concrete() == 0:
            late = [i for i in applied if i >= bad]
            if late:
                r, m = ex.model_of(f.pc)
                cex = model_values(m, terms) if m else {}
                cex.update(applied=applied, damaged=bad, kind=kind, groups=str(f.meta.get("groups")))
                return Obligation(name, ["C10"], "violated", time.time() - t0,
                                  f"replay accepts a damaged log and applies record(s) {late} at/after the damage (hole in the history)",
                                  cex, ex.queries - q0, len(finals))
            # every record before the damage and above the snapshot must have been applied
            for i in range(bad):
                should = disk.vers[i] > disk.c
                did = i in applied
                post = should if did else z3.Not(should)
                r, m = ex.model_of(f.pc, z3.Not(post))
                if r == z3.sat:
                    cex = model_values(m, terms)
                    cex.update(applied=applied, damaged=bad, kind=kind)
                    return Obligation(name, ["C10"], "violated", time.time() - t0, "accepted state is not the longest undamaged prefix",
                                      cex, ex.queries - q0, len(finals))
            if kind == "error" and f.meta.get("hit_damage"):
                # baseline behaviour is to fail; accepting is only legitimate for the exact prefix (checked above)
                pass
    if not finals:
        return Obligation(name, ["C10"], "inconclusive", time.time() - t0, "no feasible path", None, ex.queries - q0, 0)
    return Obligation(name, ["C10"], "discharged", time.time() - t0, f"{len(finals)} paths", None, ex.queries - q0, len(finals))


# ---- byte-structured log: the REAL SegmentReader runs (read_next_entry / next), File reads are modelled --------

def install_byte_reader(ex, disk, st0, damaged=None, cut_tail=None):
    """Each record i is (version v_i, stored hash hf_i, length field L_i) + payload of L_i bytes whose true
    hash is hp_i.  Well-formed: hf_i == hp_i.  `damaged` = index of a record with hf_i != hp_i (a payload or
    checksum byte was altered).  `cut_tail` = (i, where): the file ends inside record i ('header' / 'payload')."""
    M = ex.models
    n = disk.nrec
    disk.L = [z3.Int(f"rec_len{i}") for i in range(n)]
    disk.hf = [z3.Int(f"rec_hf{i}") for i in range(n)]
    disk.hp = [z3.Int(f"rec_hp{i}") for i in range(n)]
    for i in range(n):
        st0.pc += [disk.L[i] >= 1, disk.L[i] <= (1 << 32) - 1]
        st0.pc.append(disk.hf[i] != disk.hp[i] if damaged == i else disk.hf[i] == disk.hp[i])

    def seg_group(ex2, st, sid):
        for g in st.meta["groups"]:
            if not ex2.feasible(st.pc, disk.segs[g[0]] != sid):
                return g
        return None

    def m_discover(ex2, st, fr, c, a, d, r):
        segs = [VStruct("SegmentInfo", [VInt(disk.segs[grp[0]], "u64"), P("wal", disk.segs[grp[0]])]) for grp in st.meta["groups"]]
        if st.meta.get("tail"):
            segs.append(VStruct("SegmentInfo", [VInt(disk.tail_seg, "u64"), P("wal", disk.tail_seg)]))
        st.event("io", op="read_dir", outcome="ok", path=("root",))
        return ok(VVec(segs))

    def m_read_exact(ex2, st, fr, c, a, d, r):
        f = deref_all(st, a[0])
        fid = f.data
        path = st.meta.get("files", {}).get(fid, {}).get("path")
        if not path or path[0] != "wal":
            raise Unsupported("read_exact on a non-WAL file")
        grp = seg_group(ex2, st, path[1]) or []
        cur = dict(st.meta.get("rcur", {}))
        pos, phase = cur.get(fid, (0, "hdr"))
        bufref = a[1]
        while isinstance(st.load(bufref), VRef):
            bufref = st.load(bufref)
        buf = st.load(bufref)
        eof = err(ioerr("UnexpectedEof"))
        if isinstance(buf, VVec):  # the 44-byte header array
            if phase != "hdr":
                raise Unsupported("header read while a payload is pending")
            if pos >= len(grp):
                return eof
            i = grp[pos]
            if cut_tail and cut_tail[0] == i and cut_tail[1] == "header":
                return eof
            buf.elems[:] = [VOpaque("hdr", (i, k)) for k in range(len(buf.elems))]
            cur[fid] = (pos, "pay")
            st.meta["rcur"] = cur
            return ok(VUnit())
        if isinstance(buf, VOpaque) and buf.tag == "buf":
            nbytes = buf.data
            if phase != "pay":
                raise Unsupported("payload read without a header")
            i = grp[pos]
            if cut_tail and cut_tail[0] == i and cut_tail[1] == "payload":
                return eof
            outs = []
            exact = nbytes == disk.L[i]
            if ex2.feasible(st.pc, z3.Not(exact)):
                s2 = st.clone()
                s2.pc.append(z3.Not(exact))
                s2.status, s2.note = "unsupported", "reader asks for a payload length different from the record's length field"
                outs.append(s2)
            if ex2.feasible(st.pc, exact):
                st.pc.append(exact)
                st.store(bufref, VOpaque("bytes", ("payload", i)))
                cur[fid] = (pos + 1, "hdr")
                st.meta["rcur"] = cur
                st.meta.setdefault("yielded", []).append(i)
                outs += ex2.finish_call(st, d, r, ok(VUnit()))
            return outs
        raise Unsupported(f"read_exact into {buf}")

    def m_from_elem(ex2, st, fr, c, a, d, r):
        return VOpaque("buf", a[1].t)

    def m_split_at_checked(ex2, st, fr, c, a, d, r):
        v = deref_all(st, a[0])
        if isinstance(v, VVec):
            mid = z3.simplify(a[1].t)
            if not z3.is_int_value(mid):
                raise Unsupported("symbolic split of a concrete array")
            m_ = mid.as_long()
            if m_ > len(v.elems):
                return none()
            return some(VStruct("tuple", [VRef(st.alloc(VVec([e.clone() for e in v.elems[:m_]]))),
                                          VRef(st.alloc(VVec([e.clone() for e in v.elems[m_:]])))]))
        from iomodel import m_split_at_checked as base
        return base(ex2, st, fr, c, a, d, r)

    def m_try_into(ex2, st, fr, c, a, d, r):
        v = deref_all(st, a[0])
        m_ = re.search(r"TryInto<\[u8; (\d+)\]>", c)
        want = int(m_.group(1)) if m_ else None
        if isinstance(v, VVec) and (want is None or len(v.elems) == want):
            return ok(VVec([e.clone() for e in v.elems]))
        return err(VOpaque("TryFromSliceError"))

    def m_from_le(ex2, st, fr, c, a, d, r):
        arr = a[0]
        if isinstance(arr, VVec) and arr.elems and all(isinstance(e, VOpaque) and e.tag == "hdr" for e in arr.elems):
            i, k0 = arr.elems[0].data
            ks = [e.data[1] for e in arr.elems]
            if ks == list(range(0, 8)):
                return VInt(disk.vers_field[i], "u64")
            if ks == list(range(40, 44)):
                return VInt(disk.L[i], "u32")
            raise Unsupported(f"from_le_bytes over header bytes {ks}")
        from iomodel import m_from_le_bytes as base
        return base(ex2, st, fr, c, a, d, r)

    def m_hash(ex2, st, fr, c, a, d, r):
        v = deref_all(st, a[0])
        if isinstance(v, VOpaque) and v.tag == "bytes" and isinstance(v.data, tuple) and v.data[0] == "payload":
            return VSym(disk.hp[v.data[1]], "H")
        return VSym(ex2.fresh("ophash"), "H")

    def m_deser(ex2, st, fr, c, a, d, r):
        v = deref_all(st, a[0])
        if isinstance(v, VOpaque) and v.tag == "bytes" and isinstance(v.data, tuple) and v.data[0] == "payload":
            return ok(VOpaque("raw-op", ("rec", v.data[1])))
        return err(VOpaque("SerializationError"))

    # the version FIELD of a record: equals its version; 0 would be the end marker
    disk.vers_field = disk.vers
    M.reg("SegmentStorage::discover_segments", m_discover)
    M.reg(["File as Read::read_exact"], m_read_exact)
    M.reg(["vec::from_elem"], m_from_elem)
    M.reg(["slice::split_at_checked"], m_split_at_checked)
    M.prefix_table.insert(0, (re.compile(r" as TryInto::try_into$"), m_try_into))
    M.reg(["num::from_le_bytes"], m_from_le)
    M.reg(["calculate_blob_hash"], m_hash)
    M.reg("deserialize_wal_op_raw", m_deser)
    M.reg("WalOp::from_raw", lambda ex2, st, fr, c, a, d, r: ok(VOpaque("op", a[0].data)))
    orig_ts = M.tuple_struct

    def tuple_struct(ex2, st, name, vals):
        if name == "BlobHash" and len(vals) == 1 and isinstance(vals[0], VVec) and vals[0].elems and \
                all(isinstance(e, VOpaque) and e.tag == "hdr" for e in vals[0].elems):
            i = vals[0].elems[0].data[0]
            ks = [e.data[1] for e in vals[0].elems]
            if ks == list(range(8, 40)):
                return VSym(disk.hf[i], "H")
        return orig_ts(ex2, st, name, vals)
    M.tuple_struct = tuple_struct

    def call_dyn(ex2, st, cv, args, dref, ret_bb):
        if isinstance(cv, VOpaque) and cv.tag == "collector":
            st.meta.setdefault("applied", []).append(args[0].data[1])
            return ex2.finish_call(st, dref, ret_bb, VUnit())
        return None
    M.call_dyn = call_dyn
    return orig_ts


def ob_replay_real_reader(ex, nrec, damaged=None, cut=None):
    """replay() with the REAL SegmentReader over a byte-structured log (record lengths symbolic in
    1..2^32-1).  damaged=i: record i has a checksum/payload mismatch; cut=(i, 'header'|'payload'): the log
    ends inside record i (only meaningful for the last record).  Post: Err, or Ok having applied exactly
    the records above the snapshot version that precede the damage; without damage: all of them, and
    highest = max(snapshot, versions)."""
    import re as _re
    with scoped_models(ex):
        if ex.models.io_hook is None:
            IoModel(ex.models)
        t0 = time.time()
        q0 = ex.queries
        st0 = State()
        disk = LogDisk(ex, st0, nrec)
        pt_len = len(ex.models.prefix_table)
        orig_ts = install_byte_reader(ex, disk, st0, damaged=damaged, cut_tail=cut)
        bad0 = damaged if damaged is not None else (cut[0] if cut else None)
        if bad0 is not None:
            st0.pc.append(disk.vers[bad0] > disk.c)  # C10 speaks about the not-yet-checkpointed part of the log
        try:
            fn = find_fn(ex, "::replay", "replay::<impl", p0="&WalReplayer")
            finals = []
            for st, groups in disk.groups(ex, st0):
                if cut is not None and cut[0] not in groups[-1]:
                    continue
                if cut is not None and groups[-1][-1] != cut[0]:
                    continue
                st.meta["groups"] = groups
                st.meta["tail"] = False
                rep = VStruct("WalReplayer", [VRef(st.alloc(VStruct("SegmentStorage", [VStruct("DbPaths", [VOpaque("dbpaths")])]))),
                                              sym_option(disk.c != 0, VInt(disk.c, "u64"))])
                ex.start(st, fn, [VRef(st.alloc(rep)), VOpaque("collector")])
                finals += ex.run(st)
        finally:
            ex.models.tuple_struct = orig_ts
            del ex.models.prefix_table[:len(ex.models.prefix_table) - pt_len]
        what = "intact" if damaged is None and cut is None else (f"record {damaged} altered" if damaged is not None else f"cut inside the {cut[1]} of record {cut[0]}")
        name = f"replay through the REAL SegmentReader, byte-structured log of {nrec} records ({what}), record lengths 1..2^32-1"
        terms = dict(snap_ver=disk.c, versions=disk.vers, segments=disk.segs, lengths=disk.L)
        bad = damaged if damaged is not None else (cut[0] if cut else None)
        nq = 0
        for f in finals:
            if f.status in ("unsupported", "cut"):
                return Obligation(name, ["C10", "C02"], "inconclusive", time.time() - t0, f"{f.status}: {f.note}", None, ex.queries - q0, len(finals))
            if f.status != "returned":
                r, m = ex.model_of(f.pc)
                return Obligation(name, ["C10", "C02"], "violated", time.time() - t0, f"replay ends in {f.status}: {f.note}",
                                  model_values(m, terms) if m else None, ex.queries - q0, len(finals))
            rv = f.retval
            applied = f.meta.get("applied", [])
            isok = isinstance(rv, VEnum) and rv.concrete() == 0
            def viol(msg, extra=None):
                r, m = ex.model_of(f.pc, extra)
                cex = model_values(m, terms) if m else {}
                cex.update(applied=applied, damaged_record=-1 if damaged is None else damaged, cut_record=cut[0] if cut else -1,
                           cut_where=cut[1] if cut else "", groups=str(f.meta.get("groups")))
                return Obligation(name, ["C10", "C02"], "violated", time.time() - t0, msg, cex, ex.queries - q0, len(finals))
            if bad is None:
                if not isok:
                    return viol("replay of an intact log fails")
                for i in range(nrec):
                    should = disk.vers[i] > disk.c
                    post = should if i in applied else z3.Not(should)
                    nq += 1
                    r, m = ex.model_of(f.pc, z3.Not(post))
                    if r == z3.sat:
                        return viol(f"record {i} of an intact log is {'applied although checkpointed' if i in applied else 'NOT applied although above the snapshot'}", z3.Not(post))
                opt = rv.payloads[0][0]
                hi = disk.c
                for v_ in disk.vers:
                    hi = z3.If(v_ > hi, v_, hi)
                got = z3.If(opt.disc == 1, (opt.payloads[1][0].t if 1 in opt.payloads and opt.payloads[1] else z3.IntVal(0)), 0)
                nq += 1
                r, m = ex.model_of(f.pc, got != hi)
                if r == z3.sat:
                    return viol("highest version differs from max(snapshot version, versions in the log)", got != hi)
            else:
                if isok:
                    late = [i for i in applied if i >= bad]
                    # a damaged record at or below the snapshot version is skipped by replay either way;
                    # what must never happen is that it (or anything after it) is APPLIED
                    if late:
                        return viol(f"replay accepts a damaged log and applies record(s) {late} at/after the damage")
                    for i in range(bad):
                        should = disk.vers[i] > disk.c
                        post = should if i in applied else z3.Not(should)
                        nq += 1
                        r, m = ex.model_of(f.pc, z3.Not(post))
                        if r == z3.sat:
                            return viol("accepted state is not the longest undamaged prefix", z3.Not(post))
                    if damaged is not None:
                        # an altered record above the snapshot must not be accepted silently
                        nq += 1
                        r, m = ex.model_of(f.pc, disk.vers[bad] > disk.c)
                        if r == z3.sat and cut is None:
                            # Ok is only legitimate if everything after the damage was dropped too (checked above)
                            pass
        if not finals:
            return Obligation(name, ["C10", "C02"], "inconclusive", time.time() - t0, "no feasible path", None, ex.queries - q0, 0)
        return Obligation(name, ["C10", "C02"], "discharged", time.time() - t0, f"{len(finals)} paths, {nq} queries", None, ex.queries - q0, len(finals))
