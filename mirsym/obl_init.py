"""C03 — first-time initialisation is restartable: the directory pre-creation loop.

`pre_create_all_cas_directories` (65 536 mkdirs) is one abstract effect everywhere else.  Here its real MIR runs with the
fan-out constant 256 replaced by a small one (stated bound; the loop structure, the name building and the error handling are
the real ones) over a DIRECTORY-SET model: every bucket `cas/ii` and every leaf `cas/ii/jj` exists or not initially (any
subset closed under "a leaf needs its bucket" - i.e. any state a killed earlier initialisation may have left behind),
`create_dir_all` creates the path and its ancestors, `create_dir` answers AlreadyExists / NotFound like mkdir(2).
Decided: whenever the function returns Ok, EVERY leaf directory exists."""
import copy
import re
import time

import z3

from exec import (VInt, VBool, VUnit, VStruct, VEnum, VRef, VVec, VOpaque, State, Unsupported)
from models import ok, err, deref_all
from world import find_fn
from obl_index import Obligation
from obl_replay import scoped_models
from iomodel import IoModel, P, path_desc, ioerr


def patched(fn, fanout):
    f2 = copy.copy(fn)
    f2.lines = [re.sub(r"const 256_(i32|u32|usize|u16|i64|u64)", lambda m: f"const {fanout}_{m.group(1)}", l) for l in fn.lines]
    if f2.lines == fn.lines:
        raise Unsupported("pre_create_all_cas_directories: no 256 fan-out constant found to bound the loop")
    f2.blocks, f2.locals, f2.debug, f2._parsed = {}, {}, {}, False
    return f2


def ob_precreate_restart(ex, fanout=2):
    with scoped_models(ex):
        if ex.models.io_hook is None:
            IoModel(ex.models)
        R = ex.models.reg
        t0 = time.time()
        q0 = ex.queries
        st = State()
        st.faults_left = 0
        names = [f"{i:02x}" for i in range(fanout)]
        bucket = {n: z3.Bool(f"dir_{n}") for n in names}
        leaf = {(a, b): z3.Bool(f"dir_{a}_{b}") for a in names for b in names}
        for (a, b), l in leaf.items():
            st.pc.append(z3.Implies(l, bucket[a]))
        st.meta["dirs"] = {("cas",): z3.BoolVal(True), **{("cas", n): t for n, t in bucket.items()},
                           **{("cas", a, b): t for (a, b), t in leaf.items()}}

        def hexarg(ex2, s, fr, c, a, d, r):
            v = deref_all(s, a[0])
            t = z3.simplify(v.t)
            if not z3.is_int_value(t):
                raise Unsupported("directory name built from a symbolic number")
            return VOpaque("fmtarg", t.as_long())

        def m_arguments(ex2, s, fr, c, a, d, r):
            args = deref_all(s, a[-1])
            vals = tuple(deref_all(s, e).data for e in args.elems) if isinstance(args, VVec) else ()
            return VOpaque("fmtargs", vals)

        def m_format(ex2, s, fr, c, a, d, r):
            v = deref_all(s, a[0])
            if not (isinstance(v, VOpaque) and v.tag == "fmtargs" and len(v.data) == 1 and isinstance(v.data[0], int)):
                raise Unsupported("directory name is not one formatted number")
            return VOpaque("name", f"{v.data[0]:02x}")

        def m_join(ex2, s, fr, c, a, d, r):
            comp = deref_all(s, a[1])
            if not (isinstance(comp, VOpaque) and comp.tag == "name"):
                raise Unsupported(f"Path::join with {comp}")
            return P(*(path_desc(s, a[0]) + (comp.data,)))

        def exists_term(s, p):
            return s.meta["dirs"].get(tuple(p), z3.BoolVal(False))

        def m_create_dir_all(ex2, s, fr, c, a, d, r):
            p = tuple(path_desc(s, a[0]))
            dirs = dict(s.meta["dirs"])
            for k in range(1, len(p) + 1):
                dirs[p[:k]] = z3.BoolVal(True)
            s.meta["dirs"] = dirs
            s.event("io", op="mkdir", outcome="ok", path=p, all=True)
            return ok(VUnit())

        def m_create_dir(ex2, s, fr, c, a, d, r):
            p = tuple(path_desc(s, a[0]))
            outs = []
            here, parent = exists_term(s, p), exists_term(s, p[:-1])
            for cond, kind in ((here, "AlreadyExists"), (z3.And(z3.Not(here), z3.Not(parent)), "NotFound")):
                if ex2.feasible(s.pc, cond):
                    s2 = s.clone()
                    s2.pc.append(cond)
                    s2.event("io", op="mkdir", outcome=kind, path=p)
                    outs += ex2.finish_call(s2, d, r, err(ioerr(kind)))
            good = z3.And(z3.Not(here), parent)
            if ex2.feasible(s.pc, good):
                s.pc.append(good)
                dirs = dict(s.meta["dirs"])
                dirs[p] = z3.BoolVal(True)
                s.meta["dirs"] = dirs
                s.event("io", op="mkdir", outcome="ok", path=p)
                outs += ex2.finish_call(s, d, r, ok(VUnit()))
            return outs

        def m_exists(ex2, s, fr, c, a, d, r):
            return VBool(exists_term(s, tuple(path_desc(s, a[0]))))

        R(["Argument::new_lower_hex", "Argument::new_display", "Argument::new_upper_hex"], hexarg)
        R(["Arguments::new"], m_arguments)
        R(["format", "fmt::format"], m_format)
        R(["must_use"], lambda ex2, s, fr, c, a, d, r: a[0])
        R(["Path::join"], m_join)
        R(["create_dir_all", "fs::create_dir_all", "DirBuilder::create"], m_create_dir_all)
        R(["create_dir", "fs::create_dir"], m_create_dir)
        R(["DirBuilder::new"], lambda ex2, s, fr, c, a, d, r: VOpaque("dirbuilder", True))
        R(["DirBuilder::recursive", "DirBuilder::mode"], lambda ex2, s, fr, c, a, d, r: a[0])
        R(["Path::exists", "Path::is_dir", "Path::try_exists"], m_exists)
        ex.models.table.pop("pre_create_all_cas_directories", None)
        fn = patched(find_fn(ex, "pre_create_all_cas_directories"), fanout)
        old_lb = ex.loop_bound
        ex.loop_bound = fanout * fanout + fanout + 4
        try:
            ex.start(st, fn, [VRef(st.alloc(VStruct("DbPaths", [VOpaque("dbpaths")])))])
            finals = ex.run(st)
        finally:
            ex.loop_bound = old_lb
        name = (f"first-time directory pre-creation is restartable: from ANY partial tree a killed initialisation may have left (fan-out {fanout} "
                f"instead of 256) a successful run leaves every leaf directory in place")
        for f in finals:
            if f.status in ("unsupported", "cut"):
                return Obligation(name, ["C03"], "inconclusive", time.time() - t0, f"{f.status}: {f.note}", None, ex.queries - q0, len(finals))
        nq = 0
        for f in finals:
            if f.status == "panic":
                return Obligation(name, ["C03"], "violated", time.time() - t0, "pre-creation can panic: " + f.note,
                                  {"violation": "precreate", "existing": []}, ex.queries - q0, len(finals))
            rv = f.retval
            if not (isinstance(rv, VEnum) and rv.concrete() == 0):
                continue
            missing = z3.Or([z3.Not(f.meta["dirs"].get(("cas", a, b), z3.BoolVal(False))) for (a, b) in leaf])
            nq += 1
            r, m = ex.model_of(f.pc, missing)
            if r == z3.sat:
                ex0 = [f"{n}" for n, t in bucket.items() if z3.is_true(m.eval(t, model_completion=True))] + \
                      [f"{a}/{b}" for (a, b), t in leaf.items() if z3.is_true(m.eval(t, model_completion=True))]
                gone = [f"{a}/{b}" for (a, b) in leaf if z3.is_false(m.eval(f.meta["dirs"].get(("cas", a, b), z3.BoolVal(False)), model_completion=True))]
                cex = {"violation": "precreate", "existing": ex0, "missing_after": gone,
                       "detail": "a second initialisation over a partially created tree returns Ok but leaves leaf directories missing"}
                return Obligation(name, ["C03"], "violated", time.time() - t0, cex["detail"], cex, ex.queries - q0, len(finals))
            if r != z3.unsat:
                return Obligation(name, ["C03"], "inconclusive", time.time() - t0, "solver unknown", None, ex.queries - q0, len(finals))
        if not any(isinstance(f.retval, VEnum) and f.retval.concrete() == 0 for f in finals):
            return Obligation(name, ["C03"], "inconclusive", time.time() - t0, "no successful path", None, ex.queries - q0, len(finals))
        return Obligation(name, ["C03"], "discharged", time.time() - t0, f"{len(finals)} paths, {nq} queries over {len(bucket) + len(leaf)} directory bits", None,
                          ex.queries - q0, len(finals))
