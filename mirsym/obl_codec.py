"""C16 (Engine M) — the op / snapshot decoders on an input slice of SYMBOLIC, UNBOUNDED length:
no panic path (overflow checks are explicit MIR asserts), every allocation bounded by the bytes that
are actually present.  Bytes are abstract (base, offset, length) slices; integers decoded from the
input are arbitrary values of their type."""
import time

import z3

from exec import (VInt, VBool, VUnit, VStruct, VEnum, VRef, VVec, VOpaque, State, Unsupported)
from world import find_fn
from obl_index import Obligation
from obl_replay import scoped_models
from iomodel import IoModel

ELEM_BYTES = {"u8": 1, "Vec<u8>": 24, "std::vec::Vec<u8>": 24}


def ob_decoder_total(ex, fname, contains, label, loop_bound=3):
    with scoped_models(ex):
        if ex.models.io_hook is None:
            IoModel(ex.models)
        t0 = time.time()
        q0 = ex.queries
        old_lb = ex.loop_bound
        ex.loop_bound = loop_bound
        try:
            st = State()
            n = z3.Int("input_len")
            st.pc += [n >= 0, n <= (1 << 63) - 1]
            inp = VOpaque("bytes", ("slice", "input", z3.IntVal(0), n))
            fn = find_fn(ex, fname, contains)
            ex.start(st, fn, [VRef(st.alloc(inp))])
            finals = ex.run(st)
        finally:
            ex.loop_bound = old_lb
        name = f"{label}: total and allocation-bounded on an input of symbolic length"
        done = [f for f in finals if f.status in ("returned", "panic")]
        cuts = [f for f in finals if f.status == "cut"]
        for f in finals:
            if f.status == "unsupported":
                return Obligation(name, ["C16"], "inconclusive", time.time() - t0, f.note, None, ex.queries - q0, len(finals))
        nq = 0
        for f in done:
            if f.status == "panic":
                r, m = ex.model_of(f.pc)
                cex = {"input_len": m.eval(n, model_completion=True).as_long(), "decoded": {str(k): m.eval(v, model_completion=True).as_long()
                       for k, v in f.meta.get("decoded_ints", {}).items()}} if m else None
                return Obligation(name, ["C16"], "violated", time.time() - t0, f"decoder can panic: {f.note}", cex, ex.queries - q0, len(finals))
            for e in f.trace:
                if e["kind"] != "alloc":
                    continue
                nq += 1
                elem = ELEM_BYTES.get(str(e.get("elem", "u8")).strip(), 1 if e["what"] == "to_vec" else 24)
                # requested bytes must not exceed what the input can justify: 8x the input size is the
                # growth slack of Vec (capacity doubling, 24-byte Vec headers per >=4-byte key record)
                bound = e["n"] * elem <= 8 * n + 96
                r, m = ex.model_of(f.pc, z3.Not(bound))
                if r == z3.sat:
                    cex = {"input_len": m.eval(n, model_completion=True).as_long(),
                           "requested_elements": m.eval(e["n"], model_completion=True).as_long(), "where": e.get("where"), "what": e["what"]}
                    return Obligation(name, ["C16"], "violated", time.time() - t0,
                                      f"{e['what']} in {e.get('where')} allocates from an untrusted count, not bounded by the input size", cex,
                                      ex.queries - q0, len(finals))
        if not done:
            return Obligation(name, ["C16"], "inconclusive", time.time() - t0, "no completed path", None, ex.queries - q0, len(finals))
        return Obligation(name, ["C16"], "discharged", time.time() - t0,
                          f"{len(done)} completed paths ({len(cuts)} cut at the loop bound {loop_bound}), {nq} allocation queries", None,
                          ex.queries - q0, len(done))
