"""Parser for rustc's `-Zunpretty=mir` text (the subset cassadilia's functions use).

Produces Fn objects: params, locals with types, basic blocks of parsed statements and a
parsed terminator.  Expressions are small tuples (see the grammar notes at each parse_*).
"""
import re

BINOPS = {"Add", "Sub", "Mul", "Div", "Rem", "BitAnd", "BitOr", "BitXor", "Shl", "Shr",
          "Eq", "Ne", "Lt", "Le", "Gt", "Ge", "Cmp", "Offset",
          "AddWithOverflow", "SubWithOverflow", "MulWithOverflow",
          "AddUnchecked", "SubUnchecked", "MulUnchecked", "ShlUnchecked", "ShrUnchecked"}
UNOPS = {"Not", "Neg", "PtrMetadata"}


class ParseError(Exception):
    pass


def split_top(s, sep=","):
    """Split at top-level separators, respecting (), [], {}, <>, string/char literals."""
    out, depth, cur, i, n = [], 0, [], 0, len(s)
    while i < n:
        c = s[i]
        if c == '"' or (c == "b" and i + 1 < n and s[i + 1] == '"'):
            j = i + (2 if c == "b" else 1)
            while j < n and s[j] != '"':
                j += 2 if s[j] == "\\" else 1
            cur.append(s[i:j + 1])
            i = j + 1
            continue
        if c in "([{":
            depth += 1
        elif c in ")]}":
            depth -= 1
        elif c == "<":
            # generic bracket unless it's a comparison (none in MIR operands)
            depth += 1
        elif c == ">":
            if i > 0 and s[i - 1] == "-":  # '->'
                pass
            else:
                depth -= 1
        if c == sep and depth == 0:
            out.append("".join(cur).strip())
            cur = []
        else:
            cur.append(c)
        i += 1
    last = "".join(cur).strip()
    if last or out:
        out.append(last)
    return out


def match_close(s, i):
    """s[i] is an opening bracket; return index of its matching close."""
    pairs = {"(": ")", "[": "]", "{": "}", "<": ">"}
    depth = 0
    n = len(s)
    j = i
    while j < n:
        c = s[j]
        if c == '"':
            j += 1
            while j < n and s[j] != '"':
                j += 2 if s[j] == "\\" else 1
        elif c in "([{<":
            depth += 1
        elif c in ")]}":
            depth -= 1
            if depth == 0:
                return j
        elif c == ">" and not (j > 0 and s[j - 1] == "-"):
            depth -= 1
            if depth == 0:
                return j
        j += 1
    raise ParseError("unbalanced: " + s[i:i + 80])


# ---- places ------------------------------------------------------------------------------
# ('local', n) | ('deref', P) | ('field', P, idx, type) | ('downcast', P, variant)
# | ('index', P, local_n) | ('cindex', P, i, from_end) | ('subslice', P, a, b, from_end)

def parse_place(s, i=0):
    s_len = len(s)
    if s[i] == "_" :
        m = re.match(r"_(\d+)", s[i:])
        p = ("local", int(m.group(1)))
        i += m.end()
    elif s[i] == "(":
        if s[i + 1] == "*":
            inner, j = parse_place(s, i + 2)
            if s[j] != ")":
                raise ParseError("deref close: " + s[i:i + 60])
            p = ("deref", inner)
            i = j + 1
        else:
            inner, j = parse_place(s, i + 1)
            if s.startswith(" as ", j):
                k = s.index(")", j)
                p = ("downcast", inner, s[j + 4:k].strip())
                i = k + 1
            elif s[j] == ".":
                m = re.match(r"\.(\d+): ", s[j:])
                if not m:
                    raise ParseError("field: " + s[j:j + 40])
                close = match_close(s, i)
                ty = s[j + m.end():close]
                p = ("field", inner, int(m.group(1)), ty)
                i = close + 1
            else:
                raise ParseError("place paren: " + s[i:i + 60])
    else:
        raise ParseError("place: " + s[i:i + 60])
    while i < s_len and s[i] == "[":
        close = match_close(s, i)
        idx = s[i + 1:close]
        if idx.startswith("_"):
            p = ("index", p, int(idx[1:]))
        else:
            m = re.match(r"(-?)(\d+) of (\d+)$", idx)
            if m:
                p = ("cindex", p, int(m.group(2)), m.group(1) == "-")
            else:
                m = re.match(r"(\d+):(-?)(\d*)$", idx)
                if not m:
                    raise ParseError("index: " + idx)
                p = ("subslice", p, int(m.group(1)), int(m.group(3) or 0), m.group(2) == "-")
        i = close + 1
    return p, i


def parse_place_full(s):
    s = s.strip()
    p, i = parse_place(s, 0)
    if i != len(s):
        raise ParseError("trailing after place: " + s[i:])
    return p


# ---- operands: ('copy', P) | ('move', P) | ('const', text) ---------------------------------

def parse_operand(s):
    s = s.strip()
    if s.startswith("no_retag "):
        s = s[9:]
    if s.startswith("copy "):
        return ("copy", parse_place_full(s[5:]))
    if s.startswith("move "):
        return ("move", parse_place_full(s[5:]))
    if s.startswith("const "):
        return ("const", s[6:].strip())
    if re.match(r"[A-Za-z_<]", s) and not s.startswith(("copy", "move")):
        return ("const", "fnitem " + s)  # bare path: a function item / tuple-variant constructor
    raise ParseError("operand: " + s[:80])


# ---- rvalues -------------------------------------------------------------------------------

def parse_rvalue(s):
    s = s.strip()
    if s.startswith(("copy ", "move ", "const ", "no_retag ")):
        # maybe a cast:  <operand> as TYPE (Kind)
        m = re.match(r"(.*) as (.*) \(([A-Za-z]+(?:\(.*\))?)\)$", s)
        if m and _is_operand(m.group(1)):
            return ("cast", parse_operand(m.group(1)), m.group(2).strip(), m.group(3))
        return ("use", parse_operand(s))
    if s.startswith("&"):
        r = s[1:]
        kind = "shared"
        for pre, k in (("raw const ", "rawconst"), ("raw mut ", "rawmut"), ("mut ", "mut"),
                       ("fake shallow ", "shared"), ("fake ", "shared")):
            if r.startswith(pre):
                r = r[len(pre):]
                kind = k
                break
        return ("ref", kind, parse_place_full(r))
    m = re.match(r"([A-Za-z]+)\(", s)
    if m and s.endswith(")"):
        name = m.group(1)
        inner = s[m.end():-1]
        if name in BINOPS:
            a, b = split_top(inner)
            return ("binop", name, parse_operand(a), parse_operand(b))
        if name in UNOPS:
            return ("unop", name, parse_operand(inner))
        if name == "discriminant":
            return ("discriminant", parse_place_full(inner))
        if name == "Len":
            return ("len", parse_place_full(inner))
        if name == "CopyForDeref":
            return ("use", ("copy", parse_place_full(inner)))
        if name in ("SizeOf", "AlignOf"):
            return ("nullary", name, inner)
    if s.startswith("["):
        close = match_close(s, 0)
        inner = s[1:close]
        parts = split_top(inner, ";")
        if len(parts) == 2:
            return ("repeat", parse_operand(parts[0]), parts[1].strip())
        elems = [parse_operand(x) for x in split_top(inner) if x]
        return ("aggregate", "array", None, elems)
    if s.startswith("("):
        close = match_close(s, 0)
        if close == len(s) - 1:
            inner = s[1:close]
            elems = [parse_operand(x) for x in split_top(inner) if x]
            return ("aggregate", "tuple", None, elems)
    # struct / variant / closure aggregates
    if s.startswith("{closure@") or s.startswith("{coroutine@"):
        close = match_close(s, 0)
        name = s[:close + 1]
        rest = s[close + 1:].strip()
        fields = []
        if rest.startswith("{"):
            for f in split_top(rest[1:match_close(rest, 0)]):
                if f:
                    fname, _, val = f.partition(": ")
                    fields.append((fname.strip(), parse_operand(val)))
        return ("aggregate", "closure", name, fields)
    # Path { a: x, b: y }   |  Path(x, y)  |  Path
    m = re.search(r" \{ (.*) \}$", s)
    if m and not s.endswith(")"):
        name = s[:m.start()]
        fields = []
        for f in split_top(m.group(1)):
            if f:
                fname, _, val = f.partition(": ")
                fields.append((fname.strip(), parse_operand(val)))
        return ("aggregate", "struct", name.strip(), fields)
    if s.endswith(")"):
        # find the opening paren of the final argument list
        depth = 0
        for j in range(len(s) - 1, -1, -1):
            if s[j] == ")":
                depth += 1
            elif s[j] == "(":
                depth -= 1
                if depth == 0:
                    break
        name = s[:j].strip()
        elems = [parse_operand(x) for x in split_top(s[j + 1:-1]) if x]
        return ("aggregate", "tuplestruct", name, elems)
    if re.match(r"[\w:<>' ,&\[\];()]+$", s):
        return ("aggregate", "unit", s, [])
    raise ParseError("rvalue: " + s[:120])


def _is_operand(s):
    try:
        parse_operand(s)
        return True
    except Exception:
        return False


# ---- statements / terminators ----------------------------------------------------------------

def parse_stmt(line):
    s = line.strip().rstrip(";")
    if s.startswith(("StorageLive", "StorageDead", "nop", "FakeRead", "PlaceMention", "Retag",
                     "AscribeUserType", "Coverage", "ConstEvalCounter", "BackwardIncompatibleDropHint")):
        return ("nop",)
    if s.startswith("Deinit("):
        return ("nop",)
    m = re.match(r"discriminant\((.*)\) = (\d+)$", s)
    if m:
        return ("setdisc", parse_place_full(m.group(1)), int(m.group(2)))
    if s.startswith("assume("):
        return ("assume", parse_operand(s[7:-1]))
    if s.startswith("copy_nonoverlapping("):
        return ("unsupported", s)
    # assignment: PLACE = RVALUE   (split at first top-level " = ")
    depth = 0
    for i, c in enumerate(s):
        if c in "([{":
            depth += 1
        elif c in ")]}":
            depth -= 1
        elif c == "=" and depth == 0 and s[i - 1] == " " and s[i + 1] == " ":
            return ("assign", parse_place_full(s[:i]), parse_rvalue(s[i + 2:]))
    raise ParseError("stmt: " + s[:120])


def _targets(s):
    """'[return: bb1, unwind: bb50]' -> dict"""
    d = {}
    for part in split_top(s.strip()[1:-1]):
        k, _, v = part.partition(": ")
        d[k.strip()] = v.strip()
    return d


def parse_terminator(line):
    s = line.strip().rstrip(";")
    if s == "return":
        return ("return",)
    if s in ("unreachable",):
        return ("unreachable",)
    if s.startswith("resume") or s.startswith("unwind_terminate") or s.startswith("terminate"):
        return ("resume",)
    m = re.match(r"goto -> bb(\d+)$", s)
    if m:
        return ("goto", int(m.group(1)))
    if s.startswith("switchInt("):
        close = match_close(s, 9)
        op = parse_operand(s[10:close])
        rest = s[close + 1:].strip()
        assert rest.startswith("-> ")
        tg = []
        other = None
        for part in split_top(rest[3:].strip()[1:-1]):
            k, _, v = part.partition(": ")
            bb = int(v.strip()[2:])
            if k.strip() == "otherwise":
                other = bb
            else:
                tg.append((int(k.strip()), bb))
        return ("switch", op, tg, other)
    if s.startswith("assert("):
        close = match_close(s, 6)
        inner = s[7:close]
        parts = split_top(inner)
        cond = parts[0]
        neg = cond.startswith("!")
        if neg:
            cond = cond[1:]
        msg = parts[1] if len(parts) > 1 else ""
        rest = s[close + 1:].strip()
        t = _targets(rest[3:])
        return ("assert", parse_operand(cond), not neg, msg, int(t["success"][2:]))
    if s.startswith("drop("):
        close = match_close(s, 4)
        place = parse_place_full(s[5:close])
        rest = s[close + 1:].strip()
        t = _targets(rest[3:])
        return ("drop", place, int(t["return"][2:]))
    # call:  PLACE = CALLEE(args) -> [return: bbN, unwind ..]   |  ... -> unwind ...  | -> bbN
    m = re.search(r"\) -> (\[.*\]|unwind [a-z]+|bb\d+)$", s)
    if m:
        head = s[:m.start() + 1]
        tgt = m.group(1)
        ret = None
        if tgt.startswith("["):
            t = _targets(tgt)
            if "return" in t:
                ret = int(t["return"][2:])
        # split dest = callee(args)
        depth = 0
        eq = None
        for i, c in enumerate(head):
            if c in "([{":
                depth += 1
            elif c in ")]}":
                depth -= 1
            elif c == "=" and depth == 0 and head[i - 1] == " " and head[i + 1] == " ":
                eq = i
                break
        if eq is None:
            raise ParseError("call without dest: " + s[:100])
        dest = parse_place_full(head[:eq])
        call = head[eq + 2:].strip()
        # last top-level '(' starts the argument list
        depth = 0
        for j in range(len(call) - 1, -1, -1):
            if call[j] == ")":
                depth += 1
            elif call[j] == "(":
                depth -= 1
                if depth == 0:
                    break
        callee = call[:j].strip()
        args = [parse_operand(x) for x in split_top(call[j + 1:-1]) if x]
        return ("call", dest, callee, args, ret)
    raise ParseError("terminator: " + s[:160])


class Block:
    __slots__ = ("stmts", "term", "raw", "cleanup")

    def __init__(self):
        self.stmts = []
        self.term = None
        self.raw = []
        self.cleanup = False


class Fn:
    def __init__(self, name, header):
        self.name = name
        self.header = header
        self.params = []      # [(local_n, type)]
        self.ret = None
        self.locals = {}      # n -> type
        self.debug = {}       # n -> name
        self.blocks = {}
        self.lines = []
        self._parsed = False
        self.kind = "fn"
        self.inline_value = None

    def parse_body(self):
        if self._parsed:
            return
        self._parsed = True
        cur = None
        for line in self.lines:
            st = line.strip()
            if not st or st.startswith("//"):
                continue
            m = re.match(r"let (mut )?_(\d+): (.*);$", st)
            if m and cur is None:
                self.locals[int(m.group(2))] = m.group(3)
                continue
            m = re.match(r"debug (.*) => (.*);$", st)
            if m and cur is None:
                mm = re.match(r"_(\d+)$", m.group(2))
                if mm:
                    self.debug[int(mm.group(1))] = m.group(1)
                continue
            if st.startswith("scope ") or st == "}":
                if cur is not None and st == "}":
                    cur = None
                continue
            m = re.match(r"bb(\d+)( \(cleanup\))?: \{$", st)
            if m:
                cur = Block()
                cur.cleanup = bool(m.group(2))
                self.blocks[int(m.group(1))] = cur
                continue
            if cur is not None:
                cur.raw.append(st)
        for n, b in self.blocks.items():
            if b.cleanup:
                continue  # unwinding paths are not executed (panics are reported, not unwound)
            if not b.raw:
                raise ParseError(f"{self.name}: empty bb{n}")
            for st in b.raw[:-1]:
                b.stmts.append(parse_stmt(st))
            b.term = parse_terminator(b.raw[-1])


def parse_header(line):
    """fn NAME(_1: T, _2: T) -> RET {"""
    m = re.match(r"fn (.*)$", line.rstrip(" {"))
    s = m.group(1)
    # find the param list: the '(' that opens '(_1: ' or '()' right before ' -> ' at top level
    i = s.find("(_1: ")
    if i < 0:
        # no params: last "()" before " -> "
        i = s.rfind("() -> ")
        if i < 0:
            i = s.rfind("()")
    name = s[:i]
    close = match_close(s, i)
    plist = s[i + 1:close]
    params = []
    for p in split_top(plist):
        if not p:
            continue
        mm = re.match(r"_(\d+): (.*)$", p)
        params.append((int(mm.group(1)), mm.group(2)))
    rest = s[close + 1:].strip()
    ret = rest[3:].strip() if rest.startswith("->") else "()"
    return name, params, ret


def parse_mir(text):
    """-> {name: Fn} (functions), {name: Fn} (consts/promoteds keyed by display name)."""
    fns = {}
    consts = {}
    lines = text.split("\n")
    i, n = 0, len(lines)
    while i < n:
        line = lines[i]
        if line.startswith("fn "):
            name, params, ret = parse_header(line)
            f = Fn(name, line)
            f.params, f.ret = params, ret
            for ln, ty in params:
                f.locals[ln] = ty
            j = i + 1
            while j < n and lines[j] != "}":
                f.lines.append(lines[j])
                j += 1
            # closures / duplicates: keep first
            fns.setdefault(name, f)
            i = j + 1
            continue
        m = re.match(r"const (.*): ([^=:]*) = const (.*);$", line)
        if m and not line.endswith("{"):
            f = Fn(m.group(1).strip(), line)
            f.kind = "const"
            f.ret = m.group(2).strip()
            f.inline_value = m.group(3).strip()
            consts[f.name] = f
            i += 1
            continue
        m = re.match(r"(const|static|static mut) (.*): ([^:]*) = \{$", line)
        if m:
            f = Fn(m.group(2).strip(), line)
            f.kind = "const"
            f.ret = m.group(3)
            j = i + 1
            while j < n and lines[j] != "}":
                f.lines.append(lines[j])
                j += 1
            consts[f.name] = f
            i = j + 1
            continue
        m = re.match(r"promoted\[(\d+)\] in (.*): (.*) = \{$", line)
        if m:
            f = Fn(f"promoted[{m.group(1)}] in {m.group(2)}", line)
            f.kind = "promoted"
            f.ret = m.group(3)
            j = i + 1
            while j < n and lines[j] != "}":
                f.lines.append(lines[j])
                j += 1
            consts[f.name] = f
            i = j + 1
            continue
        i += 1
    return fns, consts


if __name__ == "__main__":
    import sys
    fns, consts = parse_mir(open(sys.argv[1]).read())
    bad = 0
    for f in list(fns.values()) + list(consts.values()):
        try:
            f.parse_body()
        except Exception as e:
            bad += 1
            print("FAIL", f.name[:100], "::", str(e)[:200])
    print(len(fns), "fns", len(consts), "consts", bad, "failed")
