"""C14 (and C03's 'usable afterwards'): bounded HISTORIES with one symbolic I/O fault, followed by the
abstract recovery of what is on disk.  k real operations run one after the other from an arbitrary
quiet store; exactly one I/O call anywhere may fail; then the store is 'reopened': the recovered index
is the start state plus every record that reached a WAL file (in order), whatever the operations
reported.  Obligations: no key of the recovered index (and of the live index) points to a missing
blob; keys not named by the failed operation have the same value live and recovered."""
import time

import z3

from exec import (VInt, VBool, VSym, VUnit, VStruct, VEnum, VRef, VVec, VOpaque, State)
from obl_index import Obligation, model_values
from obl_replay import scoped_models
from iomodel import IoModel
import obl_sched as S
import obl_trace as T


def records_written(f):
    """[(version term, WalOp value)] for every record that reached a WAL file, in order"""
    out = []
    for e in f.trace:
        if e["kind"] == "io" and e["op"] == "write" and e["outcome"] == "ok" and (e.get("path") or ("",))[0] == "wal":
            chunks = []
            for d in e.get("data", []):
                if isinstance(d, tuple) and d and d[0] == "record":
                    chunks += list(d[1])
                else:
                    chunks.append(d)
            flat = []
            for c in chunks:
                while isinstance(c, tuple) and len(c) == 2 and c[0] == "chunk":
                    c = c[1]
                flat.append(c)
            ver = None
            for c in flat:
                if isinstance(c, tuple) and c and c[0] == "le-bytes" and ver is None:
                    ver = c[1]
                elif isinstance(c, tuple) and c and c[0] == "bytes" and isinstance(c[1], tuple) and c[1] and c[1][0] == "op":
                    out.append((ver, c[1][1]))
                    ver = None
                elif isinstance(c, tuple) and c and c[0] == "bytes":
                    ver = None
    return out


def recovered_index(w, pre, recs):
    """textbook replay of the records on the start state -> per-universe-key (present, hash) terms"""
    pk = list(pre["pk"])
    hk = list(pre["hk"])
    for ver, op in recs:
        ci = op.concrete()
        if ci == 0:
            k, h = op.payloads[0][0].t, op.payloads[0][1].t
            for i in range(w.U):
                hit = w.keys[i] == k
                pk[i] = z3.Or(hit, pk[i])
                hk[i] = z3.If(hit, h, hk[i])
        else:
            for kv in op.payloads[1][0].elems:
                for i in range(w.U):
                    pk[i] = z3.And(pk[i], w.keys[i] != kv.t)
    return pk, hk


def ob_fault_history(ex, kinds, U=2, HU=2, faults=1):
    with scoped_models(ex):
        if ex.models.io_hook is None:
            IoModel(ex.models)
        t0 = time.time()
        q0 = ex.queries
        st = State()
        st.faults_left = faults
        sw = S.quiet_world(ex, st, U, HU)
        w = sw.iw
        ex.models.reg("BlobHash::from_bytes", S.digest_hash_hook(ex))
        pre = w.snapshot_pre()
        states, infos = [], []
        try:
            for tprogs, infos, st1 in S.build_programs(ex, sw, st, kinds):
                progs = [(fn, args) for (_n, fn, args) in tprogs]
                st1.meta["thread_hashes"] = {i: inf["hash"] for i, inf in enumerate(infos) if inf["kind"] == "put"}
                puts = [inf for inf in infos if inf["kind"] == "put"]
                for a in range(len(puts)):
                    for b in range(a + 1, len(puts)):
                        st1.pc.append(z3.Implies(puts[a]["hash"] == puts[b]["hash"], puts[a]["size"] == puts[b]["size"]))
                cur = [st1]
                for i, (fn, args) in enumerate(progs):
                    nxt = []
                    for s in cur:
                        s.status = "running"
                        ex.start(s, fn, [a.clone() for a in args])
                        for f in ex.run(s):
                            f.meta.setdefault("results", [])
                            f.meta["results"] = f.meta["results"] + [f.retval]
                            nxt.append(f)
                    cur = nxt
                states += cur
        finally:
            sw.io.disk = None
        name = f"history {' ; '.join(kinds)} with <= {faults} failed I/O call, then reopen: no dangling key live or recovered; untouched keys agree (U={U}, HU={HU})"
        terms = dict(keys=w.keys, hashes=w.hashes, pk=w.pk, hk=w.hk, orphans=sw.orphan_bits)
        for i, inf in enumerate(infos):
            for k2, v in inf.items():
                if k2 != "kind":
                    terms[f"t{i}_{k2}"] = v
        for f in states:
            if f.status in ("unsupported", "cut"):
                return Obligation(name, ["C14"], "inconclusive", time.time() - t0, f"{f.status}: {f.note}", None, ex.queries - q0, len(states))
        nq = 0
        by_role = {}
        for f in states:
            what = None
            if f.status in ("panic", "deadlock"):
                what = ("panic", f.note)
            else:
                post = w.snapshot_of(f, sw.state_ref)
                blobs = f.meta["blobs"]
                live_bad = z3.Or([z3.And(post["pk"][i], z3.Not(z3.Select(blobs, post["hk"][i]))) for i in range(w.U)])
                nq += 1
                if ex.feasible(f.pc, live_bad):
                    f.pc.append(live_bad)
                    what = ("live-dangling", "after the history a key of the live index points to a missing blob")
                else:
                    recs = records_written(f)
                    # the log stays well-formed under a contained fault too: record versions strictly increase (C20)
                    vers = [v for (v, _op) in recs if v is not None]
                    reuse = z3.Or([vers[i] >= vers[i + 1] for i in range(len(vers) - 1)]) if len(vers) > 1 else z3.BoolVal(False)
                    nq += 1
                    if len(vers) > 1 and ex.feasible(f.pc, reuse):
                        f.pc.append(reuse)
                        what = ("version-reused", "two records that reached the log carry versions that are not strictly increasing "
                                                   "(a version is used twice after a failed append)")
                if what is None and f.status not in ("panic", "deadlock"):
                    rpk, rhk = recovered_index(w, pre, recs)
                    rec_bad = z3.Or([z3.And(rpk[i], z3.Not(z3.Select(blobs, rhk[i]))) for i in range(w.U)])
                    nq += 1
                    if ex.feasible(f.pc, rec_bad):
                        f.pc.append(rec_bad)
                        what = ("recovered-dangling", "after a reopen a key of the recovered index points to a missing blob "
                                                       "(a record of a failed operation is on disk while later operations deleted its blob)")
            if what:
                fault = f.meta.get("fault")
                fkey = (fault[0], str(fault[1][0]) if fault and fault[1] else None) if fault else None
                role = what[0] + (f":{fkey[0]}:{fkey[1]}" if fkey else ":no-fault")
                if role in by_role:
                    continue
                r, m = ex.model_of(f.pc)
                cex = model_values(m, terms) if m else {}
                res = []
                for rv in f.meta.get("results", []):
                    res.append("ok" if isinstance(rv, VEnum) and rv.concrete() == 0 else "err")
                cex.update(kinds=list(kinds), violation=what[0], detail=what[1], results=res, fault=fkey,
                           steps=[T.short(e) for e in f.trace if e["kind"] == "io"][:60])
                ob = Obligation(name, ["C14"], "violated", time.time() - t0, f"{what[0]}: {what[1]}", cex, ex.queries - q0, len(states))
                ob.role = role
                by_role[role] = ob
        if by_role:
            obs = list(by_role.values())
            obs[0].others = obs[1:]
            return obs[0]
        if not states:
            return Obligation(name, ["C14"], "inconclusive", time.time() - t0, "no path", None, ex.queries - q0, 0)
        return Obligation(name, ["C14"], "discharged", time.time() - t0, f"{len(states)} complete histories, {nq} queries", None,
                          ex.queries - q0, len(states))
