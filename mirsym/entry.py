"""Catalogue of the public entry points, each started from an arbitrary SystemWorld."""
import z3

from exec import (VInt, VBool, VSym, VUnit, VStruct, VEnum, VRef, VVec, VMap, VOpaque, State)
from world import SystemWorld, find_fn, U64
from models import some, none


def keyref(sw, st, name="op_key"):
    k = sw.sym_key(st, name)
    sw.op_key = k
    return VRef(st.alloc(VSym(k, "K")))


def sym_range(ex, sw, st):
    lo, hi = ex.fresh("range_lo"), ex.fresh("range_hi")
    sw.op_range = (lo, hi)
    return VStruct("SymRange", [VInt(lo, "K"), VInt(hi, "K")])


def tx_field(ex, name):
    """index of a Transaction field BY NAME in the current source (fields may be added or reordered)"""
    return ex.si.structs["Transaction"].index(name)


def _run_ok(ex, st, fn, args, what):
    """run fn to completion without faults -> the states in which it returned Ok / () (one per feasible path)"""
    from exec import Unsupported
    ex.start(st, fn, args)
    outs = ex.run(st)
    good = []
    for f in outs:
        if f.status == "unsupported":
            raise Unsupported(f"{what}: {f.note}")
        if f.status == "returned" and (not isinstance(f.retval, VEnum) or f.retval.concrete() == 0):
            f.status = "running"
            good.append(f)
    if not good:
        raise Unsupported(f"{what}: no successful path among {len(outs)}")
    if len(good) > 8:
        raise Unsupported(f"{what}: {len(good)} successful set-up paths")
    return good


def real_tx(ex, sw, st, key, content_id=(), pending=True):
    """A Transaction as the REAL code builds it: Transaction::new(cas, key) and (pending) one
    Transaction::write(chunk) run from their MIR, so that every field - also one this framework has never
    heard of - holds what the real code puts there.  The chunk is the abstract content ('content', id) of
    symbolic length; if the code treats chunks differently by size there is one variant per feasible path.
    -> [(transaction value, state to continue from, size term)]"""
    saved = st.faults_left
    st.faults_left = 0
    ntrace = len(st.trace)
    out = []
    for f in _run_ok(ex, st, find_fn(ex, "::new", "transaction::"), [sw.cas_ref, VSym(key, "K")], "Transaction::new"):
        tx = f.retval.payloads[0][0]
        if not pending:
            variants = [(tx, f)]
        else:
            txref = VRef(f.alloc(tx))
            chunk = VOpaque("content", content_id)
            variants = [(g.load(txref), g) for g in _run_ok(ex, f, find_fn(ex, "::write", "transaction::"),
                                                             [txref, VRef(f.alloc(chunk))], "Transaction::write")]
        for tx2, g in variants:
            # the set-up (creating and filling the staging file) is not part of the operation under test
            del g.trace[ntrace:]
            g.faults_left = saved
            g.retval = None
            out.append((tx2, g, tx2.fields[tx_field(ex, "size")]))
    return out


def mk_tx(ex, sw, st, pending=True):
    """-> [(transaction, state)].  The content's hash (what finalize() will return) and the C18 / environment
    preconditions: a hash determines its content, hence its length; all distinct contents fit in u64 bytes"""
    k = sw.sym_key(st, "op_key")
    sw.op_key = k
    h = sw.sym_hash(st, "op_hash")
    sw.op_hash = h
    sz = ex.new_int(st, "u64", "tx_size")
    sw.op_size = sz.t
    w = sw.iw
    for i in range(w.U):
        st.pc.append(z3.Implies(z3.And(w.pk[i], w.hk[i] == h), w.sk[i] == sz.t))
    st.pc.append(w.total + sz.t <= U64)
    st.meta["content-hash"] = h
    st.meta["hashed-content"] = (("content", ()),)
    out = []
    for tx, st2, size in real_tx(ex, sw, st, k, (), pending):
        st2.pc.append(sz.t == size.t)
        tx.fields[tx_field(ex, "size")] = VInt(sz.t, "u64")
        out.append((tx, st2))
    return out


def orphan_stats(ex, sw, st, n=1):
    hs = [sw.sym_hash(st, f"orphan{i}") for i in range(n)]
    sw.orphans = hs
    from iomodel import P
    from structs import mk
    return mk(ex, st, "OrphanStats", orphaned_blobs=VVec([VSym(h, "H") for h in hs]), invalid_files=VVec([P("invalid", 0)]),
              missing_blobs=VVec([]), corrupted_blobs=VVec([]), staging_files=VVec([P("staging", 99)]), total_blobs=VInt(0, "usize"),
              scan_duration=VOpaque("duration"), cas_inner=VStruct("Arc", [sw.cas]))


def _orphan_ref(ex, sw, st, n=1):
    os_ = orphan_stats(ex, sw, st, n)
    cell = st.alloc(os_)
    # the Arc<CasInner> inside OrphanStats must alias the world's CasInner: re-point the world at it
    from structs import fidx
    sw.set_refs(ex, cell, (fidx(ex, "OrphanStats", "cas_inner"), 0))
    return VRef(cell)


def mk_config(ex, sw, st):
    n = ex.new_int(st, "u64", "config_N")
    st.pc.append(n.t >= 1)
    pre = ex.fresh("config_precreate", "bool")
    mode = ex.fresh("config_async", "bool")
    sw.config_N, sw.config_pre, sw.config_async = n.t, pre, mode
    sync = VEnum("SyncMode", z3.If(mode, 1, 0), {0: [], 1: []})
    from structs import mk
    return mk(ex, st, "Config", sync_mode=sync, num_ops_per_wal=n, pre_create_cas_dirs=VBool(pre),
              scan_orphans_on_startup=VBool(ex.fresh("scan", "bool")), verify_blob_integrity=VBool(ex.fresh("verify", "bool")),
              fail_on_integrity_errors=VBool(ex.fresh("failint", "bool")))


def open_new(ex, sw, st):
    """CasInner::new with Index::load abstracted to one 'index-load' effect (recovery is C02/C03's subject)"""
    def m_index_load(ex2, st2, fr, c, a, d, r):
        st2.event("io", op="index-load", outcome="ok", path=("root",))
        return ex2.models.io_hook.call(ex2, st2, d, r, "index-load-result", VStruct("Index", [VOpaque("index")]), path=("root",))
    ex.models.reg("Index::load", m_index_load)
    return (find_fn(ex, "::new", "cas::", p0="PathBuf", nparams=2), [VOpaque("path", ("root",)), mk_config(ex, sw, st)])


ENTRY = {
    "open.new": open_new,
    "put.finish": lambda ex, sw, st: [(find_fn(ex, "::commit", "transaction::"), [t[0]], t[1]) for t in mk_tx(ex, sw, st)],
    "put.new": lambda ex, sw, st: (find_fn(ex, "::new", "transaction::"), [sw.cas_ref, VSym(sw.sym_key(st, "op_key"), "K")]),
    "tx.write": lambda ex, sw, st: [(find_fn(ex, "::write", "transaction::"),
                                     [VRef(t[1].alloc(t[0])), VRef(t[1].alloc(VOpaque("bytes", ("chunk",))))], t[1]) for t in mk_tx(ex, sw, st)],
    "tx.drop": lambda ex, sw, st: [("drop", [t[0]], t[1]) for t in mk_tx(ex, sw, st)],
    "get": lambda ex, sw, st: (find_fn(ex, "::get", "cas::"), [sw.cas_ref, keyref(sw, st)]),
    "get_size": lambda ex, sw, st: (find_fn(ex, "::get_size", "cas::"), [sw.cas_ref, keyref(sw, st)]),
    "get_reader": lambda ex, sw, st: (find_fn(ex, "::get_reader", "cas::"), [sw.cas_ref, keyref(sw, st)]),
    "get_range": lambda ex, sw, st: (find_fn(ex, "::get_range", "cas::"),
                                     [sw.cas_ref, keyref(sw, st), ex.new_int(st, "u64", "range_start"), ex.new_int(st, "u64", "range_end")]),
    "remove": lambda ex, sw, st: (find_fn(ex, "::remove", "cas::"), [sw.cas_ref, keyref(sw, st)]),
    "remove_range": lambda ex, sw, st: (find_fn(ex, "::remove_range", "cas::"), [sw.cas_ref, sym_range(ex, sw, st)]),
    "checkpoint": lambda ex, sw, st: (find_fn(ex, "::checkpoint", "cas::"), [sw.cas_ref]),
    "stats": lambda ex, sw, st: (find_fn(ex, "::stats", "cas::", p0="&CasInner"), [sw.cas_ref]),
    "delete_orphan": lambda ex, sw, st: (find_fn(ex, "::delete_orphan", "orphan::"),
                                         [_orphan_ref(ex, sw, st), VRef(st.alloc(VSym(sw.sym_hash(st, "op_hash"), "H")))]),
    "delete_orphans": lambda ex, sw, st: (find_fn(ex, "::delete_orphans", "orphan::"), [_orphan_ref(ex, sw, st)]),
    "quarantine_orphans": lambda ex, sw, st: (find_fn(ex, "::quarantine_orphans", "orphan::"),
                                              [_orphan_ref(ex, sw, st), VRef(st.alloc(VOpaque("path", ("quarantine",))))]),
}


def explore(ex, name, U=2, HU=2, faults=0, spill=False, **world):
    st = State()
    st.faults_left = faults
    spill = world.pop("spill", spill)
    sw = SystemWorld(ex, st, U=U, HU=HU, **world)
    sw.io.spill = spill
    saved_table = dict(ex.models.table)
    try:
        return _explore(ex, name, sw, st)
    finally:
        ex.models.table.clear()
        ex.models.table.update(saved_table)


def _explore(ex, name, sw, st):
    ent = ENTRY[name](ex, sw, st)
    variants = ent if isinstance(ent, list) else [ent]
    finals = []
    for v in variants:
        fn, args = v[0], v[1]
        st1 = v[2] if len(v) > 2 else st     # the entry point's set-up ran real code: continue from the state it produced
        if fn == "drop":
            # dropping a value: run the drop glue (Drop impls, field drops) on it
            for s2 in ex.drop_value(st1, args[0], VRef(st1.alloc(args[0]))):
                if s2.frames:
                    finals += ex.run(s2)
                else:
                    s2.status = "returned"
                    finals.append(s2)
            continue
        ex.start(st1, fn, args)
        finals += ex.run(st1)
    return sw, finals
