"""Arithmetic obligations on the real WalManager code at full u64 width (SMT Int + division
lemma): segment placement, monotonicity, prune-safety, version allocation, checkpoint target."""
import time

import z3

from exec import (VInt, VBool, VSym, VUnit, VStruct, VEnum, VRef, VVec, VOpaque, State)
from world import find_fn, U64
from obl_index import Obligation, check_posts, model_values
from models import none, some, sym_option


def wal_manager(ex, st, n, nxt, writer=None):
    from structs import mk
    return mk(ex, st, "WalManager", num_ops_per_wal=VInt(n, "u64"), next_op_version=VInt(nxt, "u64"),
              storage=VStruct("SegmentStorage", [VOpaque("paths")]), active_writer=writer if writer is not None else none())


def sym_u64(st, name, lo=0):
    t = z3.Int(name)
    st.pc.append(z3.And(t >= lo, t <= U64))
    return t


def call(ex, st, suffix, args, contains="wal::manager"):
    fn = find_fn(ex, suffix, contains)
    ex.start(st, fn, args)
    return ex.run(st)


def ob_placement(ex):
    st = State()
    n, v, nxt = sym_u64(st, "N", 1), sym_u64(st, "v", 1), sym_u64(st, "next", 1)
    wm = VRef(st.alloc(wal_manager(ex, st, n, nxt)))
    finals = call(ex, st, "::segment_id_for_op_version", [wm, VInt(v, "u64")])

    def posts(f):
        s = f.retval.t
        return {"C20 placement: seg*N < v": s * n < v, "C20 placement: v <= (seg+1)*N": v <= (s + 1) * n,
                "seg >= 0": s >= 0}
    return check_posts(ex, finals, posts, dict(N=n, v=v), "segment placement seg(v)*N < v <= (seg(v)+1)*N, all u64 v,N",
                       ["C02", "C20"])


def ob_zero_version_panics(ex):
    """segment_id_for_op_version(0) is a programming error (assert_ne!) — check it IS rejected"""
    st = State()
    n, nxt = sym_u64(st, "N", 1), sym_u64(st, "next", 1)
    wm = VRef(st.alloc(wal_manager(ex, st, n, nxt)))
    finals = call(ex, st, "::segment_id_for_op_version", [wm, VInt(0, "u64")])
    t0 = time.time()
    ok = all(f.status == "panic" for f in finals) and finals
    return Obligation("version 0 is rejected by segment_id_for_op_version", ["C20"], "discharged" if ok else "violated",
                      time.time() - t0, f"{len(finals)} paths", None if ok else {"N": 1}, 0, len(finals))


def two_calls(ex, name, rel_pre, rel_post, tags):
    st = State()
    n, nxt = sym_u64(st, "N", 1), sym_u64(st, "next", 1)
    a, b = sym_u64(st, "v1", 1), sym_u64(st, "v2", 1)
    st.pc.append(rel_pre(a, b))
    wm = VRef(st.alloc(wal_manager(ex, st, n, nxt)))
    finals1 = call(ex, st, "::segment_id_for_op_version", [wm, VInt(a, "u64")])
    finals = []
    for f in finals1:
        if f.status != "returned":
            finals.append(f)
            continue
        s1 = f.retval.t
        f.status = "running"
        f.meta["s1"] = s1
        for g in call(ex, f, "::segment_id_for_op_version", [wm, VInt(b, "u64")]):
            finals.append(g)

    def posts(f):
        return {name: rel_post(f.meta["s1"], f.retval.t, a, b)}
    return check_posts(ex, finals, posts, dict(N=n, v1=a, v2=b), name, tags)


def ob_monotone(ex):
    return two_calls(ex, "C20 monotone: v1 <= v2 => seg(v1) <= seg(v2)", lambda a, b: a <= b,
                     lambda s1, s2, a, b: s1 <= s2, ["C02", "C20"])


def ob_prune_safe(ex):
    # contrapositive form keeps it one implication: v1 >= v2 => seg(v1) >= seg(v2)
    return two_calls(ex, "C20 prune-safety: seg(u) < seg(v) => u < v", lambda a, b: a >= b,
                     lambda s1, s2, a, b: s1 >= s2, ["C02", "C20"])


def ob_allocate(ex):
    st = State()
    n, nxt = sym_u64(st, "N", 1), sym_u64(st, "next", 1)
    wm = VRef(st.alloc(wal_manager(ex, st, n, nxt)))
    finals = call(ex, st, "::allocate_next_op_version", [wm])

    def posts(f):
        from structs import fget
        new_next = fget(ex, f.load(wm), "WalManager", "next_op_version").t
        r = f.retval
        rt = r.t if isinstance(r, VInt) else r.fields[0].t
        return {"C20 allocate returns the current next version": rt == nxt,
                "C20 next advances by one (saturating at u64::MAX)": new_next == z3.If(nxt == U64, U64, nxt + 1),
                "C20 versions are never reused below u64::MAX": z3.Implies(nxt < U64, new_next > rt)}
    return check_posts(ex, finals, posts, dict(N=n, next=nxt), "allocate_next_op_version", ["C20", "C02"])


def ob_checkpoint_target(ex):
    st = State()
    n, nxt = sym_u64(st, "N", 1), sym_u64(st, "next", 1)
    last = sym_u64(st, "last", 0)  # 0 = never checkpointed
    # J: everything checkpointed was written before: last < next
    st.pc.append(last < nxt)
    reason = z3.Int("reason")
    st.pc.append(z3.And(reason >= 0, reason <= 3))
    rv = VEnum("CheckpointReason", reason, {0: [], 1: [], 2: [], 3: []})
    lastv = sym_option(last != 0, VInt(last, "u64"))
    wm = VRef(st.alloc(wal_manager(ex, st, n, nxt)))
    finals = call(ex, st, "::compute_checkpoint_target", [wm, rv, lastv])
    INITIAL, AFTER, ROLL, EXPL = 0, 1, 2, 3

    def posts(f):
        r = f.retval
        is_some = r.disc == 1
        t = r.payloads[1][0] if 1 in r.payloads and r.payloads[1] else None
        tt = (t.t if isinstance(t, VInt) else t.fields[0].t) if t is not None else z3.IntVal(0)
        want = z3.And(nxt > 1, z3.Or(
            z3.And(reason == INITIAL, last == 0),
            reason == AFTER, reason == EXPL,
            z3.And(reason == ROLL, z3.If(last == 0, nxt > 1, nxt - 1 > last))))
        return {"C02 checkpoint target is Some exactly per the reason table": is_some == want,
                "C02 target = highest written version (next-1)": z3.Implies(is_some, tt == nxt - 1),
                "C02 target never below the last snapshot version": z3.Implies(is_some, tt >= last)}
    return check_posts(ex, finals, posts, dict(N=n, next=nxt, last=last, reason=reason),
                       "compute_checkpoint_target decision table", ["C02", "C20"])


def ob_prev_segment(ex):
    st = State()
    n, nxt = sym_u64(st, "N", 1), sym_u64(st, "next", 1)
    wm = VRef(st.alloc(wal_manager(ex, st, n, nxt)))
    finals = call(ex, st, "::get_segment_id_for_previous_op", [wm])

    def posts(f):
        s = f.retval.t
        return {"C20 previous-op segment: 0 when nothing written": z3.Implies(nxt == 1, s == 0),
                "C20 previous-op segment places next-1": z3.Implies(nxt > 1, z3.And(s * n < nxt - 1, nxt - 1 <= (s + 1) * n))}
    return check_posts(ex, finals, posts, dict(N=n, next=nxt), "get_segment_id_for_previous_op", ["C20"])


ALL = [("segment placement", "wal_arith_placement", ob_placement),
       ("version 0 rejected", "wal_arith_zero", ob_zero_version_panics),
       ("segment id monotone", "wal_arith_monotone", ob_monotone),
       ("prune safety", "wal_arith_prune", ob_prune_safe),
       ("allocate_next_op_version", "wal_alloc", ob_allocate),
       ("compute_checkpoint_target", "wal_ckpt_target", ob_checkpoint_target),
       ("previous-op segment", "wal_prev_seg", ob_prev_segment)]
