"""Bounded interleaving exploration (DESIGN 4.2, realised inside the executor): 2-3 real operations
run as threads over ONE shared symbolic store; the scheduler forks over every enabled thread at every
visible operation (lock acquisition, blob-directory I/O).  Data stays symbolic (keys, hashes, initial
index, initial blob set); every branch and every interleaving step is decided by z3 feasibility."""
import time

import z3

from exec import (VInt, VBool, VSym, VUnit, VStruct, VEnum, VRef, VVec, VMap, VOpaque, State)
from world import SystemWorld, find_fn, U64
from obl_index import Obligation, model_values
from iomodel import BlobDisk, IoModel
import entry as E
import obl_trace as T


def quiet_world(ex, st, U, HU, N=8):
    """a store in a quiet stretch of its log: no rollover/checkpoint within the next 3 operations,
    writer open on the right segment, no intents of un-modelled threads; blob set = referenced
    hashes plus arbitrary orphans"""
    sw = SystemWorld(ex, st, U=U, HU=HU, intents="empty", N=N)
    st.pc += [sw.has_writer, sw.next % N == 2, sw.writer_seg * N < sw.next, sw.next <= (sw.writer_seg + 1) * N,
              sw.next <= U64 - 16]
    w = sw.iw
    blobs = z3.K(z3.IntSort(), z3.BoolVal(False))
    sw.orphan_bits = []
    for j, g in enumerate(w.hashes):
        ob = z3.Bool(f"w_orphan{j}")
        sw.orphan_bits.append(ob)
        refd = z3.Or([z3.And(w.pk[i], w.hk[i] == g) for i in range(w.U)])
        blobs = z3.Store(blobs, g, z3.Or(refd, ob))
    st.meta["blobs"] = blobs
    sw.io.disk = BlobDisk()
    return sw


def prog_put(ex, sw, st, idx):
    """Transaction::commit of a transaction for (symbolic key, symbolic hash); the transaction value is what the
    real Transaction::new + Transaction::write leave behind (entry.real_tx).  -> [(..., state to continue from)]"""
    k = sw.sym_key(st, f"t{idx}_key")
    h = sw.sym_hash(st, f"t{idx}_hash")
    sz = ex.new_int(st, "u64", f"t{idx}_size")
    w = sw.iw
    for i in range(w.U):
        st.pc.append(z3.Implies(z3.And(w.pk[i], w.hk[i] == h), w.sk[i] == sz.t))
    st.pc.append(w.total + 3 * sz.t <= U64)
    out = []
    for tx, st2, size in E.real_tx(ex, sw, st, k, idx, pending=True):
        st2.pc.append(sz.t == size.t)
        tx.fields[E.tx_field(ex, "size")] = VInt(sz.t, "u64")
        out.append(("put", find_fn(ex, "::commit", "transaction::"), [tx], dict(kind="put", key=k, hash=h, size=sz.t), st2))
    return out


def build_programs(ex, sw, st, kinds):
    """-> [(programs, infos, state)]: one entry per combination of set-up variants of the operations"""
    combos = [([], [], st)]
    for i, kd in enumerate(kinds):
        nxt = []
        for progs, infos, s in combos:
            pr = PROGS[kd](ex, sw, s, i)
            for v in (pr if isinstance(pr, list) else [pr]):
                name, fn, args, info = v[:4]
                s2 = v[4] if len(v) > 4 else s
                nxt.append((progs + [(f"T{i}:{name}", fn, args)], infos + [info], s2))
        combos = nxt
    return combos


def prog_remove(ex, sw, st, idx):
    k = sw.sym_key(st, f"t{idx}_key")
    return ("remove", find_fn(ex, "::remove", "cas::"), [sw.cas_ref, VRef(st.alloc(VSym(k, "K")))], dict(kind="remove", key=k))


def prog_get(ex, sw, st, idx):
    k = sw.sym_key(st, f"t{idx}_key")
    return ("get", find_fn(ex, "::get", "cas::"), [sw.cas_ref, VRef(st.alloc(VSym(k, "K")))], dict(kind="get", key=k))


def prog_delete_orphan(ex, sw, st, idx):
    """OrphanStats::delete_orphan(h) for a hash the start-up scan reported as orphaned (it was on disk and
    unreferenced then; what it is NOW is decided by the code under the locks)"""
    h = sw.sym_hash(st, f"t{idx}_hash")
    from iomodel import P
    from structs import mk, fset
    os_ = mk(ex, st, "OrphanStats", orphaned_blobs=VVec([VSym(h, "H")]), invalid_files=VVec([]), missing_blobs=VVec([]), corrupted_blobs=VVec([]),
             staging_files=VVec([]), total_blobs=VInt(0, "usize"), scan_duration=VOpaque("duration"), cas_inner=VStruct("Arc", [VOpaque("alias-of-world")]))
    cell = st.alloc(os_)
    # the Arc<CasInner> inside OrphanStats aliases the world's CasInner: point it at the shared cell
    fset(ex, os_, "OrphanStats", "cas_inner", VStruct("ArcAlias", [sw.cas_ref]))
    return ("delete_orphan", find_fn(ex, "::delete_orphan", "orphan::"), [VRef(cell), VRef(st.alloc(VSym(h, "H")))],
            dict(kind="delete_orphan", hash=h))


def prog_checkpoint(ex, sw, st, idx):
    """an explicit checkpoint (Cas::checkpoint) running beside a writer"""
    return ("checkpoint", find_fn(ex, "::checkpoint", "cas::"), [sw.cas_ref], dict(kind="checkpoint"))


def expected_after(sw, infos):
    """the textbook map after the ONE mutating operation of the program (put or remove) -> (present[], hash[]) per universe key"""
    w = sw.iw
    muts = [inf for inf in infos if inf["kind"] in ("put", "remove")]
    if len(muts) != 1:
        return None
    op = muts[0]
    if op["kind"] == "put":
        return ([z3.Or(w.pk[i], w.keys[i] == op["key"]) for i in range(w.U)],
                [z3.If(w.keys[i] == op["key"], op["hash"], w.hk[i]) for i in range(w.U)])
    return ([z3.And(w.pk[i], w.keys[i] != op["key"]) for i in range(w.U)], list(w.hk))


def check_checkpoint_consistency(ex, sw, infos, f):
    """writer || checkpoint, evaluated at the end of a schedule in which every call returned Ok:
    (1) no lost update: the in-memory map is the start map plus the writer's operation;
    (2) every snapshot written to index.tmp, labelled v, holds exactly the start map plus the records with version <= v that
        were in the log when it was written (the writer's record has the next unused version) - so snapshot + later records
        = acknowledged history; a snapshot labelled v that lacks operation v makes replay skip it for ever"""
    w = sw.iw
    exp = expected_after(sw, infos)
    if exp is None:
        return None
    res = f.meta.get("results", {})
    if not all(isinstance(rv, VEnum) and rv.concrete() == 0 for rv in res.values()):
        return None
    post = w.snapshot_of(f, sw.state_ref)
    bad = z3.Or([z3.Or(post["pk"][i] != exp[0][i], z3.And(exp[0][i], post["hk"][i] != exp[1][i])) for i in range(w.U)])
    if ex.feasible(f.pc, bad):
        f.pc.append(bad)
        return ("lost-update", "every call returned Ok but the in-memory index is not the start map plus the writer's operation "
                "(an acknowledged write was rolled back, or a removed key came back)")
    wrote_rec = False
    for i, e in T._io(f):
        if e["op"] == "write" and e["path"][0] == "wal" and e["outcome"] == "ok" and T._record_parts(e.get("data", [])) is not None:
            wrote_rec = True
        if e["op"] == "write" and e["outcome"] == "ok" and e["path"] == ("index.tmp",):
            snap = None
            for d in e.get("data", []):
                if isinstance(d, tuple) and len(d) == 2 and isinstance(d[1], tuple) and d[1] and d[1][0] == "snapshot":
                    snap = d[1]
            if snap is None:
                continue
            m, lpv = snap[1], snap[2]
            vt = lpv.payloads[1][0].t if (isinstance(lpv, VEnum) and 1 in lpv.payloads and lpv.payloads[1]) else None
            if vt is None or not isinstance(m, VMap):
                continue
            covers = z3.And(lpv.disc == 1, vt >= sw.next)      # the label covers the writer's record (version = next unused)
            for u in range(w.U):
                mp, mh = z3.Select(m.present, w.keys[u]), z3.Select(m.cols["blob_hash"], w.keys[u])
                want_p = z3.If(covers, exp[0][u], w.pk[u])
                want_h = z3.If(covers, exp[1][u], w.hk[u])
                badm = z3.Or(mp != want_p, z3.And(want_p, mh != want_h))
                if ex.feasible(f.pc, badm):
                    f.pc.append(badm)
                    return ("snapshot-inconsistent", "a snapshot labelled v does not hold exactly the operations with version <= v "
                            "(its label covers a record whose operation it lacks, or it holds an operation its label does not cover): "
                            "snapshot + log is no longer the acknowledged history")
            if not wrote_rec and ex.feasible(f.pc, covers):
                f.pc.append(covers)
                return ("snapshot-inconsistent", "a snapshot is labelled with a version whose record is not in the log yet")
    return None


PROGS = {"checkpoint": prog_checkpoint, "put": prog_put, "remove": prog_remove, "get": prog_get, "delete_orphan": prog_delete_orphan}


def classify(cex):
    """stable role of an interleaving counterexample (used by known_findings.json)"""
    kinds = cex.get("kinds", [])
    v = cex.get("violation")
    if v == "read-failed":
        return "read_vs_unlink"
    if v == "stale-intent":
        return "stale-intent"
    if v in ("lost-update", "snapshot-inconsistent"):
        return v
    if v in ("inflight-blob-deleted", "inflight-intent-lost"):
        return "inflight-unprotected"
    if v in ("dangling", "not-exact"):
        puts = [i for i, k in enumerate(kinds) if k == "put"]
        steps = cex.get("steps", [])
        for a in puts:
            for b in puts:
                if a != b and cex.get(f"t{a}_key") == cex.get(f"t{b}_key"):
                    # both intents registered before either apply removed one: the second clobbers the first
                    try:
                        ia, ib = steps.index(f"T{a}:intent-insert"), steps.index(f"T{b}:intent-insert")
                        rem = [i for i, s_ in enumerate(steps) if s_.endswith("intent-remove")]
                        if rem and max(ia, ib) < min(rem):
                            return "same_key_intent_clobber"
                    except ValueError:
                        pass
        return v
    return v or "schedule"


def digest_hash_hook(ex, st_meta_key="thread_hash"):
    """each put thread's hasher finalises to ITS content hash (symbolic, in the universe)"""
    def m_hash_from_bytes(ex2, st, fr, c, a, d, r):
        v = a[0]
        if isinstance(v, VOpaque) and v.tag in ("digest-bytes", "digest"):
            data = v.data
            idx = None
            for item in (data if isinstance(data, tuple) else ()):
                if isinstance(item, tuple) and len(item) == 2 and item[0] == "content":
                    idx = item[1]
            hs = st.meta.get("thread_hashes", {})
            if idx in hs:
                return VSym(hs[idx], "H")
        if isinstance(v, VSym):
            return v
        return VSym(ex2.fresh("hash_from_bytes"), "H")
    return m_hash_from_bytes


def fault_rename_into_cas(op, info):
    """the one fault site of the interleaving explorations: the rename of a staged blob into cas/ (the call
    between a put's register_intent and its index apply; the lock-gated replay can inject exactly this call)"""
    return op == "rename" and (info.get("dst") or ("",))[0] == "cas"


def add_inflight(ex, sw, st, infos, pinned=False):
    """a THIRD actor, stopped inside its commit window: a put of (key ka, content ha) that has registered its intent - through
    the REAL `Index::register_intent`, so whatever container the current source keeps its intents in is built by the code
    itself - and renamed its blob into cas/, but has not applied to the index yet.  Its key differs from the keys of the
    explored put threads (two commits on ONE key are the known finding D4).  -> [state]"""
    from structs import mk
    n = len(infos)
    ka = sw.sym_key(st, f"t{n}_key")
    ha = sw.sym_hash(st, f"t{n}_hash")
    sz = ex.new_int(st, "u64", f"t{n}_size")
    w = sw.iw
    for i in range(w.U):
        st.pc.append(z3.Implies(z3.And(w.pk[i], w.hk[i] == ha), w.sk[i] == sz.t))
    for inf in infos:
        if inf["kind"] == "put":
            st.pc.append(inf["key"] != ka)
            st.pc.append(z3.Implies(inf["hash"] == ha, inf["size"] == sz.t))
        if pinned and "key" in inf:
            # quick tier: the explored threads work on the first key of the universe, the in-flight commit on the last
            st.pc.append(inf["key"] == w.keys[0])
    if pinned:
        st.pc.append(ka == w.keys[-1])
    st.pc.append(w.total + 4 * sz.t <= U64)
    meta = mk(ex, st, "IntentMeta", blob_hash=VSym(ha, "H"), blob_size=sz)
    saved, st.faults_left = st.faults_left, 0
    ntrace = len(st.trace)
    outs = []
    for g in E._run_ok(ex, st, find_fn(ex, "::register_intent", "index::"), [sw.index_ref, VSym(ka, "K"), meta], "register_intent (in-flight commit)"):
        del g.trace[ntrace:]
        g.faults_left = saved
        g.meta["inflight_guard"] = g.retval     # the guard stays alive (its commit has not run)
        g.retval = None
        g.meta["blobs"] = z3.Store(g.meta["blobs"], ha, z3.BoolVal(True))   # its rename into cas/ has happened
        outs.append(g)
    sw.inflight = dict(kind="put", key=ka, hash=ha, size=sz.t, inflight=True)
    return outs


def explore(ex, kinds, U=2, HU=2, inv=None, max_states=200000, no_orphans=False, faults=0, inflight=False):
    """run the given operations as threads from an arbitrary quiet store; -> (sw, infos, finals)"""
    from obl_replay import scoped_models
    with scoped_models(ex):
        if ex.models.io_hook is None:
            IoModel(ex.models)
        st = State()
        st.faults_left = faults
        sw = quiet_world(ex, st, U, HU)
        sw.io.fault_filter = fault_rename_into_cas if faults else None
        if no_orphans:
            st.pc += [z3.Not(b) for b in sw.orphan_bits]
        finals, infos = [], []
        ex.models.reg("BlobHash::from_bytes", digest_hash_hook(ex))
        try:
            for progs, infos, st1 in build_programs(ex, sw, st, kinds):
                hashes = {i: inf["hash"] for i, inf in enumerate(infos) if inf["kind"] == "put"}
                st1.meta["thread_hashes"] = hashes
                # content addressing across threads: equal hashes mean equal contents, hence equal sizes
                puts = [inf for inf in infos if inf["kind"] == "put"]
                for a in range(len(puts)):
                    for b in range(a + 1, len(puts)):
                        st1.pc.append(z3.Implies(puts[a]["hash"] == puts[b]["hash"], puts[a]["size"] == puts[b]["size"]))
                ex.on_schedule = inv(sw, infos) if inv else None
                sw.inflight = None
                starts = add_inflight(ex, sw, st1, infos, pinned=(inflight == "pinned")) if inflight else [st1]
                for st2 in starts:
                    for s0 in ex.start_threads(st2, progs):
                        finals += ex.run(s0)
                        if len(finals) > max_states:
                            break
        finally:
            ex.on_schedule = None
            sw.io.disk = None
            sw.io.fault_filter = None
        return sw, infos, finals


def inv_no_dangling(ex):
    """C04, evaluated at every scheduling point where nobody holds the state write lock: every key
    visible in the index maps to a blob that exists"""
    def mk(sw, infos):
        w = sw.iw

        def hook(ex2, st):
            fl = getattr(sw, "inflight", None)
            if fl is not None:
                gone = z3.Not(z3.Select(st.meta["blobs"], fl["hash"]))
                if ex2.feasible(st.pc, gone):
                    st.pc.append(gone)
                    st.meta["inflight_violation"] = True
                    return ("the blob of an in-flight commit (intent registered, blob renamed into cas/, index apply still to come) "
                            "was deleted: the commit is about to reference a missing blob")
            for t, d in st.parked.items():
                if any(l == "state" and m == "write" for (l, m) in d["locks"]):
                    return None
            post = w.snapshot_of(st, sw.state_ref)
            blobs = st.meta["blobs"]
            bad = z3.Or([z3.And(post["pk"][i], z3.Not(z3.Select(blobs, post["hk"][i]))) for i in range(w.U)])
            if ex2.feasible(st.pc, bad):
                st.pc.append(bad)
                return "a key visible in the index maps to a blob that does not exist (dangling reference)"
            return None
        return hook
    return mk


def summarize(st):
    out = []
    for e in st.trace:
        t = e.get("tid")
        if e["kind"] == "io" and e["op"] in ("rename", "unlink", "open", "read") and (e.get("path") or ("",))[0] in ("cas", "staging"):
            out.append(f"T{t}:{e['op']}:{e['outcome']}:{e['path'][0]}")
        elif e["kind"] == "acq":
            out.append(f"T{t}:acq:{e['lock']}" + (f"-{e['mode']}" if e["lock"] == "state" else ""))
        elif e["kind"] == "intent":
            out.append(f"T{t}:intent-{e['op']}")
        elif e["kind"] == "thread-done":
            out.append(f"T{t}:done")
    return out


def intents_map(st, sw):
    """the per-key intents map (a VMap keyed by K) inside whatever `pending_intents` protects in the current source"""
    def find(v, depth=0):
        if isinstance(v, VMap) and v.ksort == "K":
            return v
        if isinstance(v, VStruct) and depth < 3:
            for f in v.fields:
                r = find(f, depth + 1)
                if r is not None:
                    return r
        return None
    v = st.load(sw.intents_ref)
    m = find(v)
    if m is None:
        from exec import Unsupported
        raise Unsupported(f"no per-key map inside pending_intents ({v})")
    return m


def ob_schedules(ex, kinds, U=2, HU=2, tags=("C04",), check_reads=True, final_exact=False, faults=0, inflight=False):
    t0 = time.time()
    q0 = ex.queries
    sw, infos, finals = explore(ex, kinds, U, HU, inv=inv_no_dangling(ex), no_orphans=final_exact, faults=faults, inflight=inflight)
    fl = getattr(sw, "inflight", None) if inflight else None
    what_ = {"C15": "some thread can always proceed until all are done (no deadlock), no panic",
             "C07": "no dangling reference at any instant; after an error-free schedule cas/ holds exactly the referenced contents",
             "C05": "a get whose key was present at its lookup succeeds; no dangling reference at any instant"}.get(
                 tags[0] if tags else "", "no dangling reference at any instant; reads of present keys succeed")
    if faults:
        what_ += "; one failed rename into cas/ anywhere: still no dangling reference, and when all calls have returned no intent is left behind"
    if inflight:
        what_ += ("; a THIRD commit is stopped inside its window (intent registered by the real register_intent, blob renamed into cas/, "
                  "apply still to come): its blob is never deleted and its intent is still there when the others are done")
    name = ("every interleaving of " + " || ".join(kinds) + (" with a third put in flight" + (" (thread keys = first key, in-flight key = last key)" if inflight == "pinned" else "") if inflight else "")
            + f" (U={U}, HU={HU}{', 1 fault' if faults else ''}): " + what_)
    terms = dict(keys=sw.iw.keys, hashes=sw.iw.hashes, pk=sw.iw.pk, hk=sw.iw.hk, orphans=sw.orphan_bits)
    for i, inf in enumerate(list(infos) + ([fl] if fl else [])):
        for k2, v in inf.items():
            if k2 not in ("kind", "inflight"):
                terms[f"t{i}_{k2}"] = v
    for f in finals:
        if f.status in ("unsupported", "cut"):
            return Obligation(name, list(tags), "inconclusive", time.time() - t0, f"{f.status}: {f.note}", None, ex.queries - q0, len(finals))
    by_role = {}
    for f in finals:
        what = None
        if f.status == "violation":
            what = ("inflight-blob-deleted" if f.meta.get("inflight_violation") else "dangling", f.note)
        elif f.status == "deadlock":
            what = ("deadlock", f.note)
        elif f.status == "panic":
            what = ("panic", f.note)
        elif check_reads and f.status == "returned":
            for tid, rv in f.meta.get("results", {}).items():
                if infos[tid]["kind"] == "get" and isinstance(rv, VEnum) and rv.concrete() == 1:
                    what = ("read-failed", "a get returned an error (BlobDataMissing) although its key was present at its lookup")
        if what is None and f.status == "returned":
            # quiescence: every call has returned (successfully or not) -> pending_intents is empty again; an intent left
            # behind protects a blob for ever (never reclaimed), one removed too early exposes a concurrent commit
            im = intents_map(f, sw)
            if fl is None:
                left = z3.Or([z3.Select(im.present, k) for k in sw.iw.keys])
            else:
                left = z3.Or([z3.And(z3.Select(im.present, k), k != fl["key"]) for k in sw.iw.keys])
                lost = z3.Or(z3.Not(z3.Select(im.present, fl["key"])), z3.Select(im.cols["v"], fl["key"]) != fl["hash"])
                if ex.feasible(f.pc, lost):
                    f.pc.append(lost)
                    what = ("inflight-intent-lost", "the other operations have returned and the intent of the commit still in flight is gone or names another content")
            if what is None and ex.feasible(f.pc, left):
                f.pc.append(left)
                what = ("stale-intent", "all operations have returned but pending_intents still holds an intent")
        if what is None and f.status == "returned" and "checkpoint" in kinds:
            what = check_checkpoint_consistency(ex, sw, infos, f)
        if what is None and final_exact and f.status == "returned":
            res = f.meta.get("results", {})
            if all(isinstance(rv, VEnum) and rv.concrete() == 0 for rv in res.values()):
                w = sw.iw
                post = w.snapshot_of(f, sw.state_ref)
                blobs = f.meta["blobs"]
                bad = z3.Or([z3.Select(blobs, g) != z3.Or([z3.And(post["pk"][i], post["hk"][i] == g) for i in range(w.U)]) for g in w.hashes])
                if ex.feasible(f.pc, bad):
                    f.pc.append(bad)
                    what = ("not-exact", "after an error-free schedule the files under cas/ are not exactly the referenced contents")
        if what:
            pre = dict(kinds=list(kinds), violation=what[0], detail=what[1], schedule=f.meta.get("schedule"), steps=summarize(f))
            if fl is not None:
                # the in-flight commit is one more real thread of the native replay: it runs up to its window first, is held
                # at whatever it does next, and resumes when the others are done
                n = len(kinds)
                pre["kinds"] = list(kinds) + ["put"]
                pre["steps"] = [f"T{n}:acq:pending_intents", f"T{n}:rename:ok:staging"] + pre["steps"] + [f"T{n}:resume"]
                pre["inflight"] = n
            # the role needs the concrete keys: evaluate a model only for the first path of each candidate role
            r, m = ex.model_of(f.pc)
            cex = model_values(m, terms) if m else {}
            cex.update(pre)
            role = classify(cex)
            if role not in by_role or len(cex["steps"]) < len(by_role[role].cex["steps"]):
                ob = Obligation(name, list(tags), "violated", time.time() - t0, f"{what[0]}: {what[1]}", cex, ex.queries - q0, len(finals))
                ob.role = role
                by_role[role] = ob
    if by_role:
        obs = list(by_role.values())
        first = obs[0]
        first.others = obs[1:]
        return first
    if not finals:
        return Obligation(name, list(tags), "inconclusive", time.time() - t0, "no schedule explored", None, ex.queries - q0, 0)
    ob = Obligation(name, list(tags), "discharged", time.time() - t0, f"{len(finals)} complete interleaved paths", None, ex.queries - q0, len(finals))
    ob.sample = " ".join(summarize(max(finals, key=lambda x: len(x.trace)))[:40])
    return ob
