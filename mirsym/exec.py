"""mirsym — a path-wise symbolic executor for the MIR subset cassadilia uses.

State = call stack of frames over a cell store, a path condition (z3 Bool terms), an effect
trace (lock and I/O events) and the current lock-set.  Branches on symbolic conditions fork the
state after a solver feasibility check.  Library calls go to models (models.py); crate
functions are executed from their MIR.  Anything unmodelled aborts the path as 'unsupported',
which the checks turn into INCONCLUSIVE, never into a pass.
"""
import re
import time

import z3

from parse import Fn, parse_mir, split_top, match_close

INT_BITS = {"u8": 8, "u16": 16, "u32": 32, "u64": 64, "u128": 128, "usize": 64,
            "i8": 8, "i16": 16, "i32": 32, "i64": 64, "i128": 128, "isize": 64}


def is_int_ty(t):
    return t in INT_BITS


def int_range(ty):
    b = INT_BITS[ty]
    if ty[0] == "u":
        return 0, (1 << b) - 1
    return -(1 << (b - 1)), (1 << (b - 1)) - 1


# ---- values -------------------------------------------------------------------------------


class Value:
    def clone(self):
        return self


class VInt(Value):
    __slots__ = ("t", "ty")

    def __init__(self, t, ty):
        self.t = z3.IntVal(t) if isinstance(t, int) else t
        self.ty = ty

    def __repr__(self):
        return f"{self.t}:{self.ty}"


class VBool(Value):
    __slots__ = ("t",)

    def __init__(self, t):
        self.t = z3.BoolVal(t) if isinstance(t, bool) else t

    def __repr__(self):
        return f"{self.t}"


class VSym(Value):
    """atom of an uninterpreted sort (keys, hashes) — only ==, !=, (keys) < are available"""
    __slots__ = ("t", "sort")

    def __init__(self, t, sort):
        self.t, self.sort = t, sort

    def __repr__(self):
        return f"{self.t}"


class VUnit(Value):
    def __repr__(self):
        return "()"


class VUninit(Value):
    def __repr__(self):
        return "<uninit>"


class VOpaque(Value):
    """value whose content the properties do not depend on (paths, error payloads, fmt args)"""
    __slots__ = ("tag", "data")

    def __init__(self, tag, data=None):
        self.tag, self.data = tag, data

    def __repr__(self):
        return f"<{self.tag}{'' if self.data is None else ':' + str(self.data)}>"


class VFn(Value):
    __slots__ = ("name",)

    def __init__(self, name):
        self.name = name

    def __repr__(self):
        return f"fn {self.name}"


class VStruct(Value):
    __slots__ = ("name", "fields")

    def __init__(self, name, fields):
        self.name, self.fields = name, fields

    def clone(self):
        return VStruct(self.name, [f.clone() for f in self.fields])

    def __repr__(self):
        return f"{self.name}{self.fields}"


class VEnum(Value):
    """disc: z3 Int term (possibly symbolic); payloads: {variant_index: [fields]}"""
    __slots__ = ("name", "disc", "payloads")

    def __init__(self, name, disc, payloads):
        self.name = name
        self.disc = z3.IntVal(disc) if isinstance(disc, int) else disc
        self.payloads = payloads

    def clone(self):
        return VEnum(self.name, self.disc, {k: [f.clone() for f in v] for k, v in self.payloads.items()})

    def concrete(self):
        d = z3.simplify(self.disc)
        return d.as_long() if z3.is_int_value(d) else None

    def __repr__(self):
        return f"{self.name}#{self.disc}{self.payloads}"


class VRef(Value):
    __slots__ = ("cell", "path")

    def __init__(self, cell, path=()):
        self.cell, self.path = cell, tuple(path)

    def __repr__(self):
        return f"&c{self.cell}{list(self.path)}"


class VVec(Value):
    """Vec / slice / array with a concrete length on each path"""
    __slots__ = ("elems", "ety", "cap_req")

    def __init__(self, elems, ety="?"):
        self.elems, self.ety = elems, ety
        self.cap_req = None

    def clone(self):
        v = VVec([e.clone() for e in self.elems], self.ety)
        v.cap_req = self.cap_req
        return v

    def __repr__(self):
        return f"vec{self.elems}"


class VMap(Value):
    """BTreeMap / HashMap as SMT arrays: present: K->Bool, cols[name]: K->leaf"""
    __slots__ = ("kind", "ksort", "present", "cols", "vshape")

    def __init__(self, kind, ksort, present, cols, vshape):
        self.kind, self.ksort, self.present, self.cols, self.vshape = kind, ksort, present, cols, vshape

    def clone(self):
        return VMap(self.kind, self.ksort, self.present, dict(self.cols), self.vshape)

    def __repr__(self):
        return f"<{self.kind}map>"


class VGuard(Value):
    """a held lock guard: lock name, mode, pointer to the protected data"""
    __slots__ = ("lock", "mode", "data", "live")

    def __init__(self, lock, mode, data):
        self.lock, self.mode, self.data = lock, mode, data
        self.live = True

    def clone(self):
        g = VGuard(self.lock, self.mode, self.data)
        g.live = self.live
        return g

    def __repr__(self):
        return f"<guard {self.lock}/{self.mode}>"


class VIter(Value):
    """iterator over a concrete list of candidate items: [(presence_cond|None, value)]"""
    __slots__ = ("items", "pos", "kind")

    def __init__(self, items, kind="iter"):
        self.items, self.pos, self.kind = items, 0, kind

    def clone(self):
        it = VIter(self.items, self.kind)
        it.pos = self.pos
        return it

    def __repr__(self):
        return f"<iter {self.pos}/{len(self.items)}>"


# ---- state ---------------------------------------------------------------------------------


class Frame:
    __slots__ = ("fn", "locals", "bb", "dest", "ret_bb", "tag", "generics")

    def __init__(self, fn, dest, ret_bb):
        self.fn, self.locals, self.bb, self.dest, self.ret_bb = fn, {}, 0, dest, ret_bb
        self.tag = None
        self.generics = ()

    def clone(self):
        f = Frame(self.fn, self.dest, self.ret_bb)
        f.locals = dict(self.locals)
        f.bb = self.bb
        f.tag = self.tag
        f.generics = self.generics
        return f


class State:
    def __init__(self):
        self.cells = {}
        self.ncell = 0
        self.frames = []
        self.pc = []
        self.trace = []       # effect events
        self.locks = []       # [(lock, mode)] currently held, in acquisition order
        self.status = "running"
        self.note = ""
        self.retval = None
        self.faults_left = 0
        self.meta = {}        # free-form per-path data used by checks
        self.steps = 0
        # multi-thread exploration: the running thread's frames/locks live in self.frames/self.locks,
        # the other threads are parked here: tid -> dict(frames, locks, status, pending, retval, name)
        self.mt = False
        self.tid = 0
        self.parked = {}
        self.resumed = False

    def clone(self):
        s = State()
        s.cells = {k: v.clone() for k, v in self.cells.items()}
        s.ncell = self.ncell
        s.frames = [f.clone() for f in self.frames]
        s.pc = list(self.pc)
        s.trace = list(self.trace)
        s.locks = list(self.locks)
        s.status, s.note, s.retval = self.status, self.note, self.retval
        s.faults_left = self.faults_left
        s.meta = {k: (list(v) if isinstance(v, list) else dict(v) if isinstance(v, dict) else v)
                  for k, v in self.meta.items()}
        s.steps = self.steps
        s.mt, s.tid, s.resumed = self.mt, self.tid, self.resumed
        s.parked = {t: dict(frames=[f.clone() for f in d["frames"]], locks=list(d["locks"]), status=d["status"],
                            pending=d.get("pending"), retval=d.get("retval"), name=d.get("name"))
                    for t, d in self.parked.items()}
        return s

    def alloc(self, v):
        self.ncell += 1
        self.cells[self.ncell] = v
        return self.ncell

    # pointer navigation
    def load(self, ref):
        v = self.cells[ref.cell]
        for p in ref.path:
            v = child(v, p)
        return v

    def store(self, ref, val):
        if not ref.path:
            self.cells[ref.cell] = val
            return
        v = self.cells[ref.cell]
        for p in ref.path[:-1]:
            v = child(v, p)
        set_child(v, ref.path[-1], val)

    def event(self, kind, **kw):
        kw["kind"] = kind
        kw["locks"] = tuple(self.locks)
        if self.mt:
            kw["tid"] = self.tid
        self.trace.append(kw)

    # ---- multi-thread support
    def other_locks(self):
        out = []
        for t, d in self.parked.items():
            out += [(l, m, t) for (l, m) in d["locks"]]
        return out

    def park_current(self, status, pending=None, retval=None):
        self.parked[self.tid] = dict(frames=self.frames, locks=self.locks, status=status, pending=pending,
                                     retval=retval, name=self.parked.get(self.tid, {}).get("name"))
        self.frames, self.locks = [], []

    def switch_to(self, tid):
        d = self.parked.pop(tid)
        self.tid = tid
        self.frames, self.locks = d["frames"], d["locks"]
        self.parked[tid] = dict(frames=[], locks=[], status="running", pending=None, retval=None, name=d.get("name"))
        del self.parked[tid]
        self.meta.setdefault("names", {})[tid] = d.get("name")
        self.resumed = d.get("pending") is not None


class Unsupported(Exception):
    pass


def child(v, p):
    if isinstance(v, VStruct):
        if not isinstance(p, int) or p >= len(v.fields):
            raise Unsupported(f"field {p} of a {v.name} value modelled with {len(v.fields)} fields")
        return v.fields[p]
    if isinstance(v, VVec):
        return v.elems[p]
    if isinstance(v, VEnum):
        c = v.concrete()
        if isinstance(p, tuple):  # ('v', variant_idx, field)
            return v.payloads[p[1]][p[2]]
        if c is None:
            raise Unsupported(f"field of symbolic enum {v}")
        return v.payloads[c][p]
    raise Unsupported(f"child {p} of {type(v).__name__} {v}")


def set_child(v, p, val):
    if isinstance(v, VStruct):
        v.fields[p] = val
    elif isinstance(v, VVec):
        v.elems[p] = val
    elif isinstance(v, VEnum):
        if isinstance(p, tuple):
            v.payloads[p[1]][p[2]] = val
        else:
            v.payloads[v.concrete()][p] = val
    else:
        raise Unsupported(f"set_child on {type(v).__name__}")


# ---- type helpers ----------------------------------------------------------------------------


def strip_generics(name):
    out, i, n = [], 0, len(name)
    while i < n:
        if name.startswith("::<", i):
            i = match_close(name, i + 2) + 1
            continue
        out.append(name[i])
        i += 1
    return "".join(out)


def base_type(ty):
    """'std::option::Option<NonZero<u64>>' -> 'Option'; '&mut Foo<K>' -> 'Foo'"""
    t = ty.strip()
    while t.startswith("&"):
        t = t[1:].lstrip()
        if t.startswith("mut "):
            t = t[4:]
        if t.startswith("'"):
            t = t.split(" ", 1)[1] if " " in t else t
    i = t.find("<")
    if i > 0:
        t = t[:i]
    return t.split("::")[-1].strip()


def type_args(ty):
    i = ty.find("<")
    if i < 0:
        return []
    return split_top(ty[i + 1:match_close(ty, i)])


# ---- executor --------------------------------------------------------------------------------


class Executor:
    def __init__(self, fns, consts, srcinfo, models, max_steps=20000, loop_bound=4):
        self.fns, self.consts, self.si, self.models = fns, consts, srcinfo, models
        self.solver = z3.Solver()
        self.solver.set("timeout", 60000)
        self.queries = 0
        self.solver_time = 0.0
        self.max_steps = max_steps
        self.loop_bound = loop_bound
        self.axioms = []
        self._index_fns()
        self.fresh_n = 0
        self.const_cache = {}
        self.unsupported = []

    # ---- name resolution ----
    def _index_fns(self):
        self.by_last = {}
        self.closures = {}
        self.drop_impls = {}
        self.from_impls = {}
        for name, f in self.fns.items():
            segs = strip_generics(name)
            last = segs.split("::")[-1]
            self.by_last.setdefault(last, []).append(f)
            if f.params:
                p0 = f.params[0][1]
                m = re.search(r"\{closure@[^}]*\}", p0)
                if m and "{closure#" in name.split("::")[-1]:
                    self.closures[m.group(0)] = f
                if last == "drop" and p0.startswith("&mut ") and len(f.params) == 1:
                    self.drop_impls[base_type(p0)] = f
                if last == "from" and len(f.params) == 1 and "<impl at" in name:
                    self.from_impls[(base_type(p0), base_type(f.ret))] = f

    def resolve(self, callee, argvals=None):
        """crate function for a call-site callee string, or None."""
        c = strip_generics(callee).strip()
        if c.startswith("<") and " as " in c:
            # <T as Trait>::method -> look for impl'd method on T
            inner = c[1:match_close(c, 0)]
            ty, _, trait = inner.partition(" as ")
            method = c[match_close(c, 0) + 1:].lstrip(":")
            cands = self.by_last.get(method, [])
            bt = base_type(ty)
            for f in cands:
                if "<impl at" not in f.name:
                    continue
                owner_ty = base_type(f.params[0][1]) if f.params else base_type(f.ret)
                if owner_ty == bt or (not f.params and self._impl_self(f) == bt):
                    if self._impl_trait(f) in (base_type(trait), None):
                        return f
            return None
        if c.startswith("<"):
            inner = c[1:match_close(c, 0)]
            c = base_type(inner) + c[match_close(c, 0) + 1:]
        parts = c.split("::")
        last = parts[-1]
        cands = self.by_last.get(last, [])
        if not cands:
            return None
        if len(parts) == 1:
            free = [f for f in cands if "<impl at" not in f.name]
            return free[0] if len(free) >= 1 else None
        owner = parts[-2]
        for f in cands:
            if "<impl at" in f.name:
                if self._impl_self(f) == owner:
                    return f
            else:
                if len(f.name.split("::")) >= 2 and strip_generics(f.name).split("::")[-2] == owner:
                    return f
        return None

    _impl_re = re.compile(r"<impl at (src/[^:]+):(\d+):\d+: \d+:\d+>")

    def _impl_line(self, f):
        m = self._impl_re.search(f.name)
        if not m:
            return None
        key = (m.group(1), int(m.group(2)))
        if key not in self.const_cache:
            try:
                lines = open(self.si_root + "/" + m.group(1)).read().split("\n")
                txt = " ".join(lines[key[1] - 1:key[1] + 3])
            except Exception:
                txt = ""
            self.const_cache[key] = txt
        return self.const_cache[key]

    def _impl_self(self, f):
        txt = self._impl_line(f) or ""
        m = re.search(r"impl\s*(<[^{]*?>\s*)?(?:([\w:]+)\s*(?:<[^{]*?>)?\s+for\s+)?([\w:\[\]; ]+)", txt)
        if m:
            return base_type(m.group(3).strip())
        if f.params:
            return base_type(f.params[0][1])
        return None

    def _impl_trait(self, f):
        txt = self._impl_line(f) or ""
        m = re.search(r"impl\s*(<[^{]*?>\s*)?([\w:]+)\s*(?:<[^{]*?>)?\s+for\s+", txt)
        if m:
            return base_type(m.group(2))
        if "#[derive" in txt or re.search(r"^\s*#\[", txt):
            return None
        return None

    # ---- solver ----
    def fresh(self, prefix, sort=None):
        self.fresh_n += 1
        n = f"{prefix}!{self.fresh_n}"
        if sort is None:
            return z3.Int(n)
        if sort == "bool":
            return z3.Bool(n)
        return z3.Const(n, sort)

    def feasible(self, pc, extra=None):
        t0 = time.time()
        self.solver.push()
        for a in self.axioms:
            self.solver.add(a)
        for c in pc:
            self.solver.add(c)
        if extra is not None:
            self.solver.add(extra)
        r = self.solver.check()
        self.solver.pop()
        self.queries += 1
        self.solver_time += time.time() - t0
        if r == z3.unknown:
            raise Unsupported("solver returned unknown on a feasibility query")
        return r == z3.sat

    def model_of(self, pc, extra=None):
        self.solver.push()
        for a in self.axioms:
            self.solver.add(a)
        for c in pc:
            self.solver.add(c)
        if extra is not None:
            self.solver.add(extra)
        r = self.solver.check()
        m = self.solver.model() if r == z3.sat else None
        self.solver.pop()
        self.queries += 1
        return r, m

    # ---- running ----
    def new_int(self, st, ty, prefix="i"):
        t = self.fresh(prefix)
        lo, hi = int_range(ty)
        st.pc.append(z3.And(t >= lo, t <= hi))
        return VInt(t, ty)

    def start(self, st, fn, args):
        """push a frame calling fn with argument values; the result lands in st.retval"""
        if isinstance(fn, str):
            fn = self.fns[fn]
        fn.parse_body()
        fr = Frame(fn, None, None)
        for (n, ty), v in zip(fn.params, args):
            fr.locals[n] = st.alloc(v)
        st.frames.append(fr)
        return st

    def run(self, st):
        """explore all paths from st; returns list of final states"""
        finals = []
        work = [st]
        while work:
            s = work.pop()
            if not s.frames and not s.mt:
                # nothing left to execute (e.g. a top-level drop whose Drop impls have all returned)
                if s.status == "running":
                    s.status = "returned"
                finals.append(s)
                continue
            try:
                succ = self.step_block(s)
            except Unsupported as e:
                s.status, s.note = "unsupported", str(e)
                self.unsupported.append(str(e))
                finals.append(s)
                continue
            for x in succ:
                if x.status == "running":
                    work.append(x)
                else:
                    finals.append(x)
        return finals

    def local_ref(self, st, fr, n):
        if n not in fr.locals:
            fr.locals[n] = st.alloc(VUninit())
        return VRef(fr.locals[n])

    def place_ref(self, st, fr, p):
        k = p[0]
        if k == "local":
            return self.local_ref(st, fr, p[1])
        if k == "deref":
            r = self.place_ref(st, fr, p[1])
            v = st.load(r)
            if isinstance(v, VRef):
                return v
            if isinstance(v, VStruct) and v.name in ("Box", "Arc") and v.fields:
                return VRef(r.cell, r.path + (0,))
            raise Unsupported(f"deref of non-reference {v} in {fr.fn.name}")
        if k == "field":
            r = self.place_ref(st, fr, p[1])
            if p[1][0] == "downcast":
                base = st.load(r)
                if isinstance(base, VEnum):
                    vi = self.variant_idx(base.name, p[1][2])
                    return VRef(r.cell, r.path + (("v", vi, p[2]),))
            return VRef(r.cell, r.path + (p[2],))
        if k == "downcast":
            return self.place_ref(st, fr, p[1])
        if k == "index":
            r = self.place_ref(st, fr, p[1])
            iv = st.load(self.local_ref(st, fr, p[2]))
            c = z3.simplify(iv.t)
            if not z3.is_int_value(c):
                raise Unsupported("symbolic index into a concrete-length sequence")
            return VRef(r.cell, r.path + (c.as_long(),))
        if k == "cindex":
            r = self.place_ref(st, fr, p[1])
            base = st.load(r)
            i = p[2]
            if p[3]:
                i = len(base.elems) - i
            return VRef(r.cell, r.path + (i,))
        raise Unsupported(f"place kind {k}")

    def variant_idx(self, enum, variant):
        i = self.si.variant_index(enum, variant)
        if i is None:
            raise Unsupported(f"unknown variant {enum}::{variant}")
        return i

    def operand(self, st, fr, op):
        k = op[0]
        if k in ("copy", "move"):
            v = st.load(self.place_ref(st, fr, op[1]))
            if isinstance(v, VUninit):
                raise Unsupported(f"read of uninitialised place in {fr.fn.name}: {op[1]}")
            return v.clone() if k == "copy" else v.clone()
        return self.const(st, fr, op[1])

    def const(self, st, fr, text):
        t = text.strip()
        if t == "true":
            return VBool(True)
        if t == "false":
            return VBool(False)
        if t in ("()", "ZeroSized: ()"):
            return VUnit()
        m = re.match(r"(-?\d+)_(\w+)$", t)
        if m and m.group(2) in INT_BITS:
            return VInt(int(m.group(1)), m.group(2))
        if t.startswith('"') or t.startswith('b"'):
            return VOpaque("str", t)
        if t.startswith("ZeroSized: "):
            what = t[11:]
            m = re.search(r"\{closure@[^}]*\}", what)
            if m:
                return VStruct(m.group(0), [])
            return VFn(what)
        if t.startswith("fnitem "):
            return VFn(t[7:])
        m = re.match(r"'(.)'$", t)
        if m:
            return VInt(ord(m.group(1)), "char")
        # a const generic parameter of the current (polymorphic) function: take it from the call site
        if fr is not None and re.fullmatch(r"[A-Z][A-Z0-9_]*", t) and getattr(fr, "generics", ()):
            nums = [g for g in fr.generics if re.fullmatch(r"\d+", g)]
            if len(nums) == 1:
                return VInt(int(nums[0]), "usize")
        # named constants / promoteds
        key = t
        if key in self.consts:
            return self.eval_const(st, key)
        short = [k for k in self.consts if k.endswith("::" + key) or key.endswith("::" + k) or k == key.split("::")[-1]]
        if len(short) == 1:
            return self.eval_const(st, short[0])
        m = re.match(r"(.*)::promoted\[(\d+)\]$", key)
        if m:
            fn_last = strip_generics(m.group(1)).split("::")[-1]
            cands = [k for k in self.consts if k.endswith(f"::{fn_last}::promoted[{m.group(2)}]")]
            if len(cands) > 1 and fr is not None:
                cands = [k for k in cands if k.startswith(fr.fn.name)] or cands
            if cands:
                return self.eval_const(st, cands[0])
        return VOpaque("const", t)

    def eval_const(self, st, key):
        f = self.consts[key]
        if getattr(f, "inline_value", None) is not None:
            return self.const(st, None, f.inline_value)
        f.parse_body()
        sub = State()
        sub.cells, sub.ncell = st.cells, st.ncell
        fr = Frame(f, None, None)
        sub.frames.append(fr)
        finals = self.run(sub)
        st.ncell = max(st.ncell, sub.ncell)
        if len(finals) != 1 or finals[0].status != "returned":
            raise Unsupported(f"const {key} did not evaluate: {[ (x.status, x.note) for x in finals][:2]}")
        st.ncell = finals[0].ncell
        st.cells.update(finals[0].cells)
        return finals[0].retval

    # -- integer semantics
    def wrap(self, t, ty):
        lo, hi = int_range(ty)
        m = hi - lo + 1
        return z3.If(t > hi, t - m, z3.If(t < lo, t + m, t))

    def binop(self, st, name, a, b):
        if isinstance(a, VInt) and isinstance(b, VInt):
            x, y, ty = a.t, b.t, a.ty
            if name in ("Eq", "Ne", "Lt", "Le", "Gt", "Ge"):
                r = {"Eq": x == y, "Ne": x != y, "Lt": x < y, "Le": x <= y, "Gt": x > y, "Ge": x >= y}[name]
                return VBool(r)
            if name in ("Add", "Sub", "Mul", "AddUnchecked", "SubUnchecked", "MulUnchecked"):
                r = {"A": x + y, "S": x - y, "M": x * y}[name[0]]
                return VInt(self.wrap(r, ty) if name[0] != "M" else self._wrap_mod(r, ty), ty)
            if name in ("AddWithOverflow", "SubWithOverflow", "MulWithOverflow"):
                r = {"A": x + y, "S": x - y, "M": x * y}[name[0]]
                lo, hi = int_range(ty)
                ov = z3.Or(r > hi, r < lo)
                w = self.wrap(r, ty) if name[0] != "M" else self._wrap_mod(r, ty)
                return VStruct("tuple", [VInt(w, ty), VBool(ov)])
            if name in ("Div", "Rem"):
                cx, cy = z3.simplify(x), z3.simplify(y)
                if z3.is_int_value(cy) or int_range(ty)[0] < 0:
                    return VInt(x / y if name == "Div" else x % y, ty)
                # symbolic divisor: fresh quotient/remainder + the division lemma
                # (x = q*y + r, 0 <= r < y) instead of a non-linear div term
                q, rr = self.fresh("q"), self.fresh("r")
                st.pc.append(z3.And(x == q * y + rr, rr >= 0, rr < y, q >= 0, q <= x))
                return VInt(q if name == "Div" else rr, ty)
            if name in ("BitAnd", "BitOr", "BitXor", "Shl", "Shr"):
                cx, cy = z3.simplify(x), z3.simplify(y)
                if z3.is_int_value(cx) and z3.is_int_value(cy):
                    p, q = cx.as_long(), cy.as_long()
                    r = {"BitAnd": p & q, "BitOr": p | q, "BitXor": p ^ q, "Shl": p << q, "Shr": p >> q}[name]
                    return VInt(r & ((1 << INT_BITS.get(ty, 64)) - 1), ty)
                raise Unsupported(f"bit operation {name} on symbolic integers")
        if isinstance(a, VBool) and isinstance(b, VBool):
            x, y = a.t, b.t
            r = {"Eq": x == y, "Ne": x != y, "BitAnd": z3.And(x, y), "BitOr": z3.Or(x, y),
                 "BitXor": z3.Xor(x, y)}.get(name)
            if r is not None:
                return VBool(r)
        if isinstance(a, VSym) and isinstance(b, VSym) and name in ("Eq", "Ne"):
            return VBool(a.t == b.t if name == "Eq" else a.t != b.t)
        raise Unsupported(f"binop {name} on {type(a).__name__},{type(b).__name__}")

    def _wrap_mod(self, r, ty):
        lo, hi = int_range(ty)
        if lo == 0:
            return r % (hi + 1)
        raise Unsupported("signed wrapping multiplication")

    def rvalue(self, st, fr, rv, dest_ty=None):
        k = rv[0]
        if k == "use":
            return self.operand(st, fr, rv[1])
        if k == "ref":
            return self.place_ref(st, fr, rv[2])
        if k == "binop":
            return self.binop(st, rv[1], self.operand(st, fr, rv[2]), self.operand(st, fr, rv[3]))
        if k == "unop":
            a = self.operand(st, fr, rv[2])
            if rv[1] == "Not":
                if isinstance(a, VBool):
                    return VBool(z3.Not(a.t))
                raise Unsupported("bitwise Not on integer")
            if rv[1] == "Neg":
                return VInt(-a.t, a.ty)
            if rv[1] == "PtrMetadata":
                tgt = st.load(a) if isinstance(a, VRef) else a
                if isinstance(tgt, VVec):
                    return VInt(len(tgt.elems), "usize")
                if hasattr(self.models, "ptr_metadata"):
                    return self.models.ptr_metadata(self, st, tgt)
                raise Unsupported("PtrMetadata of " + type(tgt).__name__)
        if k == "discriminant":
            v = st.load(self.place_ref(st, fr, rv[1]))
            if isinstance(v, VEnum):
                return VInt(v.disc, "isize")
            raise Unsupported(f"discriminant of {type(v).__name__} {v}")
        if k == "cast":
            a = self.operand(st, fr, rv[1])
            ty = rv[2].strip()
            if rv[3] == "IntToInt" and isinstance(a, VInt) and is_int_ty(ty):
                lo, hi = int_range(ty)
                slo, shi = int_range(a.ty) if a.ty in INT_BITS else (0, 0x10FFFF)
                if slo >= lo and shi <= hi:
                    return VInt(a.t, ty)
                if lo == 0 and slo >= 0:
                    return VInt(a.t % (hi + 1), ty)
                raise Unsupported(f"cast {a.ty}->{ty}")
            if rv[3] == "IntToInt" and isinstance(a, VBool):
                return VInt(z3.If(a.t, 1, 0), ty)
            if rv[3].startswith("PointerCoercion") or rv[3] in ("PtrToPtr", "Transmute"):
                return a
            raise Unsupported(f"cast kind {rv[3]} of {type(a).__name__}")
        if k == "len":
            v = st.load(self.place_ref(st, fr, rv[1]))
            return VInt(len(v.elems), "usize")
        if k == "repeat":
            a = self.operand(st, fr, rv[1])
            n = rv[2]
            m = re.match(r"(?:const )?(\d+)(?:_usize)?$", n)
            if not m:
                c = self.const(st, fr, n.replace("const ", ""))
                if isinstance(c, VInt) and z3.is_int_value(z3.simplify(c.t)):
                    cnt = z3.simplify(c.t).as_long()
                else:
                    raise Unsupported("repeat count " + n)
            else:
                cnt = int(m.group(1))
            return VVec([a.clone() for _ in range(cnt)])
        if k == "aggregate":
            kind, name, elems = rv[1], rv[2], rv[3]
            if kind == "tuple":
                if not elems:
                    return VUnit()
                return VStruct("tuple", [self.operand(st, fr, e) for e in elems])
            if kind == "array":
                return VVec([self.operand(st, fr, e) for e in elems])
            if kind == "closure":
                return VStruct(name, [self.operand(st, fr, e) for _, e in elems])
            return self.make_adt(st, fr, kind, name, elems, dest_ty)
        if k == "nullary":
            raise Unsupported("nullary op " + rv[1])
        raise Unsupported("rvalue " + k)

    def make_adt(self, st, fr, kind, name, elems, dest_ty=None):
        n = strip_generics(name).strip()
        parts = n.split("::")
        last = parts[-1]
        owner = parts[-2] if len(parts) >= 2 else None
        if owner is None and dest_ty in self.si.enums and self.si.variant_index(dest_ty, last) is not None:
            owner = dest_ty
        if kind == "struct":
            vals = {fname: self.operand(st, fr, e) for fname, e in elems}
            if owner in self.si.enums and self.si.variant_index(owner, last) is not None:
                vi = self.si.variant_index(owner, last)
                names = self.si.enums[owner][vi][1] or list(vals)
                return VEnum(owner, vi, {vi: [vals[x] for x in names]})
            if last in self.si.structs:
                order = self.si.structs[last]
                if set(order) == set(vals):
                    v = VStruct(last, [vals[x] for x in order])
                    return self.models.post_struct(self, st, v) if hasattr(self.models, "post_struct") else v
            return VStruct(last, list(vals.values()))
        if kind == "tuplestruct":
            vals = [self.operand(st, fr, e) for e in elems]
            if owner in self.si.enums and self.si.variant_index(owner, last) is not None:
                vi = self.si.variant_index(owner, last)
                return VEnum(owner, vi, {vi: vals})
            if hasattr(self.models, "tuple_struct"):
                r = self.models.tuple_struct(self, st, last, vals)
                if r is not None:
                    return r
            return VStruct(last, vals)
        if kind == "unit":
            if owner in self.si.enums and self.si.variant_index(owner, last) is not None:
                vi = self.si.variant_index(owner, last)
                return VEnum(owner, vi, {vi: []})
            return VStruct(last, [])
        raise Unsupported("aggregate " + kind)

    # -- one basic block
    def step_block(self, st):
        fr = st.frames[-1]
        blk = fr.fn.blocks[fr.bb]
        st.steps += 1
        if st.steps > self.max_steps:
            raise Unsupported("step budget exhausted (loop?)")
        for s in blk.stmts:
            k = s[0]
            if k == "nop":
                continue
            if k == "assign":
                hint = None
                if s[2][0] == "aggregate" and s[1][0] == "local":
                    hint = base_type(fr.fn.locals.get(s[1][1], ""))
                v = self.rvalue(st, fr, s[2], hint)
                st.store(self.place_ref(st, fr, s[1]), v)
            elif k == "setdisc":
                r = self.place_ref(st, fr, s[1])
                v = st.load(r)
                if isinstance(v, VEnum):
                    v.disc = z3.IntVal(s[2])
                    v.payloads.setdefault(s[2], [])
                else:
                    raise Unsupported("SetDiscriminant on non-enum")
            elif k == "assume":
                v = self.operand(st, fr, s[1])
                st.pc.append(v.t)
            else:
                raise Unsupported(f"statement {s}")
        t = blk.term
        k = t[0]
        if k == "goto":
            fr.bb = t[1]
            return [st]
        if k == "return":
            return self.do_return(st)
        if k == "unreachable":
            st.status, st.note = "panic", f"reached `unreachable` in {fr.fn.name} bb{fr.bb}"
            return [st]
        if k == "switch":
            return self.do_switch(st, fr, t)
        if k == "assert":
            c = self.operand(st, fr, t[1])
            cond = c.t if t[2] else z3.Not(c.t)
            out = []
            bad = z3.simplify(z3.Not(cond))
            if not z3.is_false(bad) and self.feasible(st.pc, bad):
                s2 = st.clone()
                s2.pc.append(bad)
                s2.status, s2.note = "panic", f"assert failed in {fr.fn.name} bb{fr.bb}: {t[3][:80]}"
                out.append(s2)
            good = z3.simplify(cond)
            if z3.is_true(good) or self.feasible(st.pc, good):
                if not z3.is_true(good):
                    st.pc.append(good)
                fr.bb = t[4]
                out.append(st)
            return out
        if k == "drop":
            r = self.place_ref(st, fr, t[1])
            v = st.load(r)
            fr.bb = t[2]
            return self.drop_value(st, v, r)
        if k == "call":
            return self.do_call(st, fr, t)
        if k == "resume":
            st.status, st.note = "panic", "unwind"
            return [st]
        raise Unsupported("terminator " + k)

    def do_switch(self, st, fr, t):
        v = self.operand(st, fr, t[1])
        term = v.t
        if isinstance(v, VBool):
            term = z3.If(v.t, z3.IntVal(1), z3.IntVal(0))
        c = z3.simplify(term)
        if z3.is_int_value(c):
            val = c.as_long()
            for x, bb in t[2]:
                if x == val:
                    fr.bb = bb
                    return [st]
            fr.bb = t[3]
            return [st]
        out = []
        conds = []
        for x, bb in t[2]:
            conds.append((term == x, bb))
        if t[3] is not None:
            conds.append((z3.And([term != x for x, _ in t[2]]), t[3]))
        feas = [(c, bb) for c, bb in conds if self.feasible(st.pc, c)]
        for i, (c, bb) in enumerate(feas):
            s2 = st if i == len(feas) - 1 else st.clone()
            s2.pc.append(c)
            s2.frames[-1].bb = bb
            out.append(s2)
        return out

    def do_return(self, st):
        fr = st.frames.pop()
        rv = st.cells.get(fr.locals.get(0), VUnit()) if 0 in fr.locals else VUnit()
        if isinstance(rv, VUninit):
            rv = VUnit()
        if not st.frames or fr.dest is None:
            st.retval = rv
            st.status = "returned"
            if fr.tag:
                return fr.tag(self, st, rv)
            if st.mt:
                return self.thread_done(st, rv)
            return [st]
        st.store(fr.dest, rv)
        caller = st.frames[-1]
        if fr.ret_bb is None:
            raise Unsupported("return into diverging call")
        caller.bb = fr.ret_bb
        if fr.tag:
            return fr.tag(self, st, rv)
        return [st]

    def push_call(self, st, fn, args, dest, ret_bb, tag=None):
        fn.parse_body()
        nf = Frame(fn, dest, ret_bb)
        nf.tag = tag
        for (n, ty), v in zip(fn.params, args):
            nf.locals[n] = st.alloc(v)
        st.frames.append(nf)
        return [st]

    def do_call(self, st, fr, t):
        _, dest, callee, argops, ret_bb = t
        args = [self.operand(st, fr, a) for a in argops]
        dref = self.place_ref(st, fr, dest)
        if st.mt:
            vis = self.visible_op(st, callee, args)
            if vis is not None:
                if st.resumed:
                    st.resumed = False
                else:
                    st.park_current("parked", pending=vis)
                    return self.schedule(st)
        # 1. models take precedence when they claim the callee
        res = self.models.call(self, st, fr, callee, args, dref, ret_bb)
        if res is not None:
            return res
        # 2. crate function
        fn = self.resolve(callee, args)
        if fn is not None:
            cs = strip_generics(callee).strip()
            if cs.startswith("<&") and re.search(r" as (PartialEq|PartialOrd|Ord|Eq)\b", cs):
                # std's blanket impls for references (`&A == &B`, `&a < &b`) forward to the impl on the referents
                args = [st.load(a) if isinstance(a, VRef) and isinstance(st.load(a), VRef) else a for a in args]
            outs = self.push_call(st, fn, args, dref, ret_bb)
            m = re.search(r"::<([^<>]*)>$", callee.strip())
            if m:
                st.frames[-1].generics = tuple(x.strip() for x in m.group(1).split(","))
            return outs
        raise Unsupported(f"unmodelled callee `{strip_generics(callee)}` (in {fr.fn.name.split('::')[-1]})")

    def finish_call(self, st, dref, ret_bb, value):
        """helper for models: store result and continue in the caller"""
        fr = st.frames[-1]
        if ret_bb is None:
            st.status, st.note = "panic", "diverging call returned"
            return [st]
        st.store(dref, value)
        fr.bb = ret_bb
        return [st]

    def call_closure(self, st, clos, args, dref, ret_bb, tag=None):
        """invoke a closure value (VStruct named {closure@..}) or fn item with argument list"""
        if isinstance(clos, VRef):
            cv = st.load(clos)
        else:
            cv = clos
        if isinstance(cv, VStruct) and cv.name.startswith("{closure@"):
            fn = self.closures.get(cv.name)
            if fn is None:
                raise Unsupported("closure body not found: " + cv.name)
            fn.parse_body()
            p0 = fn.params[0][1]
            if p0.startswith("&"):
                selfarg = clos if isinstance(clos, VRef) else VRef(st.alloc(cv))
            else:
                selfarg = cv
            return self.push_call(st, fn, [selfarg] + list(args), dref, ret_bb, tag)
        if isinstance(cv, VFn):
            name = cv.name
            # tuple-variant constructor used as a function, e.g. LibError::Index
            n = strip_generics(name)
            parts = n.split("::")
            if len(parts) >= 2 and parts[-2] in self.si.enums and self.si.variant_index(parts[-2], parts[-1]) is not None:
                vi = self.si.variant_index(parts[-2], parts[-1])
                val = VEnum(parts[-2], vi, {vi: list(args)})
                if tag:
                    st.store(dref, val)
                    st.frames[-1].bb = ret_bb
                    return tag(self, st, val)
                return self.finish_call(st, dref, ret_bb, val)
            fn = self.resolve(name, args)
            if fn is not None:
                return self.push_call(st, fn, list(args), dref, ret_bb, tag)
            res = self.models.call(self, st, st.frames[-1], name, list(args), dref, ret_bb)
            if res is not None:
                return res
            raise Unsupported("call of fn item " + name)
        if hasattr(self.models, "call_dyn"):
            r = self.models.call_dyn(self, st, cv, args, dref, ret_bb)
            if r is not None:
                return r
        raise Unsupported(f"call of non-closure {cv}")

    # -- drops
    def drop_value(self, st, v, ref=None):
        """release guards / run Drop impls / emit effects for a dropped value. returns [states]"""
        if isinstance(v, VGuard):
            if v.live:
                v.live = False
                self.release(st, v)
            return [st]
        if isinstance(v, VStruct):
            f = self.drop_impls.get(v.name)
            if f is not None and ref is not None and not st.meta.get("in_drop_" + v.name):
                # user Drop impl first, then the fields (fields handled when the impl returns)
                def after(ex, s, rv, v=v, ref=ref):
                    vv = s.load(ref)
                    if not s.frames and s.status == "returned":
                        s.status = "running"     # a top-level drop: the fields are still to be dropped
                    outs = [s]
                    for i, fld in enumerate(vv.fields if isinstance(vv, VStruct) else []):
                        nxt = []
                        for x in outs:
                            nxt += ex.drop_value(x, fld, VRef(ref.cell, ref.path + (i,)))
                        outs = nxt
                    return outs
                ret_bb = st.frames[-1].bb if st.frames else None
                return self.push_call(st, f, [ref], VRef(st.alloc(VUnit())) if st.frames else None, ret_bb, tag=after)
            outs = [st]
            if hasattr(self.models, "on_drop"):
                self.models.on_drop(self, st, v)
            for i, fld in enumerate(v.fields):
                nxt = []
                for x in outs:
                    # a field with its own Drop impl needs a place to be dropped in: the field of this value
                    nxt += self.drop_value(x, fld, VRef(ref.cell, ref.path + (i,)) if ref is not None else None)
                outs = nxt
            return outs
        if isinstance(v, VEnum):
            c = v.concrete()
            if c is None and any(_has_droppable(f) for fl in v.payloads.values() for f in fl):
                # symbolic discriminant with something to release inside: decide per variant
                outs = []
                for vi, flds in v.payloads.items():
                    cond = v.disc == vi
                    if not self.feasible(st.pc, cond):
                        continue
                    s2 = st.clone()
                    s2.pc.append(cond)
                    cur = [s2]
                    for fld in flds:
                        nxt = []
                        for x in cur:
                            nxt += self.drop_value(x, fld.clone() if not isinstance(fld, VGuard) else fld, None)
                        cur = nxt
                    outs += cur
                return outs
            if c is not None:
                outs = [st]
                for fld in v.payloads.get(c, []):
                    nxt = []
                    for x in outs:
                        nxt += self.drop_value(x, fld, None)
                    outs = nxt
                return outs
            return [st]
        if isinstance(v, VVec):
            for e in v.elems:
                self.drop_value(st, e, None)
            return [st]
        if isinstance(v, VOpaque) and hasattr(self.models, "on_drop"):
            self.models.on_drop(self, st, v)
        return [st]

    # ---- interleaving exploration -------------------------------------------------------------
    VISIBLE_LOCK = ("Mutex::lock", "RwLock::read", "RwLock::write")
    VISIBLE_IO = ("fs::rename", "rename", "fs::remove_file", "remove_file", "File::open", "fs::read", "CasManager::read_blob_range",
                  "fs::metadata", "metadata", "Path::metadata", "Path::exists", "Path::try_exists", "fs::exists")

    def visible_op(self, st, callee, args):
        """('lock', name, mode) / ('io',) when the call touches state other threads can see"""
        key = self.models.canon(strip_generics(callee).strip())
        if key in self.VISIBLE_LOCK:
            ref = args[0]
            v = st.load(ref)
            while isinstance(v, VRef):
                ref = v
                v = st.load(ref)
            if isinstance(v, VStruct) and v.name in ("Mutex", "RwLock"):
                mode = "read" if key.endswith("::read") else ("write" if key.endswith("::write") else "lock")
                return ("lock", v.fields[1].data, mode)
            return None
        if key in self.VISIBLE_IO:
            # only the blob directory (cas/, staging/) is shared without a lock; WAL segments, the snapshot and its temp file
            # are touched under the wal/state locks, whose acquisitions are scheduling points already
            try:
                from iomodel import path_desc
                heads = [path_desc(st, a)[0] for a in args]
            except Exception:  # noqa: BLE001
                heads = ["unknown"]
            if heads and all(h in ("wal", "index", "index.tmp", "root", "lock", "settings", "settings.tmp", "quarantine") for h in heads):
                return None
            return ("io", key)
        return None

    @staticmethod
    def _conflict(held_mode, want_mode):
        return not (held_mode == "read" and want_mode == "read")

    def enabled(self, st, tid):
        d = st.parked[tid]
        if d["status"] in ("done",):
            return False
        p = d.get("pending")
        if p and p[0] == "lock":
            for t2, d2 in st.parked.items():
                if t2 == tid:
                    continue
                for (l, m) in d2["locks"]:
                    if l == p[1] and self._conflict(m, p[2]):
                        return False
        return True

    def schedule(self, st):
        """the running thread has just been parked: fork over every enabled thread"""
        hook = getattr(self, "on_schedule", None)
        if hook is not None:
            v = hook(self, st)
            if v is not None:
                st.status, st.note = "violation", v
                return [st]
        live = [t for t, d in st.parked.items() if d["status"] != "done"]
        if not live:
            st.status = "returned"
            return [st]
        cands = [t for t in live if self.enabled(st, t)]
        if not cands:
            st.status, st.note = "deadlock", "no thread can proceed: " + str({t: st.parked[t].get("pending") for t in live})
            return [st]
        outs = []
        for i, t in enumerate(cands):
            s2 = st if i == len(cands) - 1 else st.clone()
            s2.switch_to(t)
            s2.meta.setdefault("schedule", [])
            s2.meta["schedule"] = s2.meta["schedule"] + [t]
            s2.status = "running"
            outs.append(s2)
        return outs

    def thread_done(self, st, rv):
        st.meta.setdefault("results", {})
        st.meta["results"] = dict(st.meta["results"])
        st.meta["results"][st.tid] = rv
        st.event("thread-done", result=rv)
        st.park_current("done", retval=rv)
        st.status = "running"
        return self.schedule(st)

    def start_threads(self, st, programs):
        """programs: [(name, fn, args)] — every thread starts parked before its first instruction"""
        st.mt = True
        for tid, (name, fn, args) in enumerate(programs):
            if isinstance(fn, str):
                fn = self.fns[fn]
            fn.parse_body()
            fr = Frame(fn, None, None)
            for (n, ty), v in zip(fn.params, args):
                fr.locals[n] = st.alloc(v)
            st.parked[tid] = dict(frames=[fr], locks=[], status="parked", pending=None, retval=None, name=name)
        st.frames, st.locks = [], []
        st.tid = -1
        outs = self.schedule(st)
        for s in outs:
            s.resumed = False   # a fresh thread is not parked at a visible call
        return outs

    def acquire(self, st, lock, mode):
        if st.mt:
            for (l, m, t) in st.other_locks():
                if l == lock and self._conflict(m, mode):
                    raise Unsupported(f"scheduler let thread {st.tid} acquire {lock} held by thread {t}")
        for (l, m) in st.locks:
            if l == lock and not (m == "read" and mode == "read"):
                st.event("self-deadlock", lock=lock, mode=mode)
                st.status, st.note = "deadlock", f"re-acquire of {lock} ({m} then {mode})"
                return False
        st.event("acq", lock=lock, mode=mode)
        st.locks.append((lock, mode))
        return True

    def release(self, st, g):
        for i in range(len(st.locks) - 1, -1, -1):
            if st.locks[i][0] == g.lock and st.locks[i][1] == g.mode:
                del st.locks[i]
                break
        st.event("rel", lock=g.lock, mode=g.mode)


def _has_droppable(v):
    if isinstance(v, VGuard):
        return v.live
    if isinstance(v, VStruct):
        return v.name in ("NamedTempFile", "BufWriter", "TempPath") or any(_has_droppable(f) for f in v.fields)
    if isinstance(v, VEnum):
        return any(_has_droppable(f) for fl in v.payloads.values() for f in fl)
    if isinstance(v, VVec):
        return any(_has_droppable(f) for f in v.elems)
    return False


def load_mir(path, src_root):
    from srcinfo import SrcInfo
    fns, consts = parse_mir(open(path).read())
    si = SrcInfo(src_root)
    return fns, consts, si
