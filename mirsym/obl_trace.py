"""Obligations over effect traces (lock events + I/O events) of the public entry points.

Every feasible path of an entry point from an arbitrary SystemWorld is produced by mirsym
(each branch decided by a z3 feasibility query); the predicates below are evaluated on each
path's trace.  The trace *shape* is concrete per path, its parameters (keys, hashes, versions,
segment ids) are symbolic terms."""
import time

import z3

from exec import VEnum
from obl_index import Obligation, model_values
import entry

RANK = {"pending_intents": 0, "state": 1, "wal": 2}


def short(e):
    if e["kind"] == "io":
        p = e.get("path", ("",))
        return f"{e['op']}:{e['outcome']}:{p[0] if p else ''}"
    if e["kind"] in ("acq", "rel"):
        return f"{e['kind']}:{e['lock']}/{e['mode']}"
    return e["kind"]


def trace_str(f, n=40):
    return " ".join(short(e) for e in f.trace[:n])


def lock_discipline(f, allow_held_at_end=()):
    """-> None or (kind, detail) for the first violation on this path"""
    if f.status == "deadlock":
        return ("self-deadlock", f.note)
    for e in f.trace:
        if e["kind"] != "acq":
            continue
        new = e["lock"]
        for (l, m) in e["locks"]:
            if l == new:
                return ("re-acquire", f"{new} ({m} then {e['mode']}) is acquired while already held")
            if RANK.get(l, 9) > RANK.get(new, 9):
                return ("order", f"{new} acquired while holding {l}: violates the global order pending_intents < state < wal")
    if f.status == "returned":
        left = [l for (l, m) in f.locks if l not in allow_held_at_end]
        if left:
            return ("leak", f"locks still held at return: {left}")
    return None


def run_paths(ex, name, U, HU, pred, label, tags, faults=0, spill=False, pre=None, **world):
    """explore one entry point; apply pred(sw, final)->None|(kind, detail, role) to every path"""
    t0 = time.time()
    q0 = ex.queries
    sw, finals = entry.explore(ex, name, U=U, HU=HU, faults=faults, spill=spill, **world)
    oname = f"{label}: {name}"
    for f in finals:
        if f.status in ("unsupported", "cut"):
            return Obligation(oname, tags, "inconclusive", time.time() - t0, f"{f.status}: {f.note}", None,
                              ex.queries - q0, len(finals))
    for f in finals:
        v = pred(sw, f)
        if v is not None:
            r, m = ex.model_of(f.pc)
            cex = None
            if m is not None:
                w = sw.iw
                cex = model_values(m, dict(keys=w.keys, hashes=w.hashes, pk=w.pk, hk=w.hk, sk=w.sk,
                                           N=sw.N, next=sw.next, lpv=w.lpv, has_writer=sw.has_writer,
                                           writer_seg=sw.writer_seg, ip=sw.ip, ih=sw.ih))
                cex.update(entry=name, violation=v[0], detail=v[1], trace=trace_str(f, 60))
                if len(v) > 2:
                    cex.update(v[2])
            ob = Obligation(oname, tags, "violated", time.time() - t0, f"{v[0]}: {v[1]}", cex, ex.queries - q0, len(finals))
            ob.entry = name
            return ob
    if not finals:
        return Obligation(oname, tags, "inconclusive", time.time() - t0, "no feasible path", None, ex.queries - q0, 0)
    ob = Obligation(oname, tags, "discharged", time.time() - t0, f"{len(finals)} feasible paths checked", None,
                    ex.queries - q0, len(finals))
    ob.sample = trace_str(max(finals, key=lambda x: len(x.trace)), 60)
    return ob


# ---- C15 -------------------------------------------------------------------------------------------

def c15_pred(sw, f):
    if f.status == "panic":
        return None  # panics are C14's subject; lock release on unwind is parking_lot's guard drop
    v = lock_discipline(f)
    if v is None:
        return None
    held = None
    for e in f.trace:
        if e["kind"] == "acq":
            for (l, m) in e["locks"]:
                if l == e["lock"] or RANK.get(l, 9) > RANK.get(e["lock"], 9):
                    held = dict(held=l, wanted=e["lock"])
    return (v[0], v[1], held or {})


C15_ENTRIES = ["put.finish", "get", "get_size", "get_reader", "get_range", "remove", "remove_range", "checkpoint",
               "stats", "delete_orphan", "delete_orphans", "quarantine_orphans"]


# ---- ordering / discipline predicates over effect traces ------------------------------------------------
# each returns None or (kind, detail, extra-dict-for-replay)

def _io(f):
    return [(i, e) for i, e in enumerate(f.trace) if e["kind"] == "io"]


def p_cas_never_written(sw, f):
    """C06: no file under cas/ is ever opened for writing / created / truncated / written in place"""
    for i, e in _io(f):
        p = e.get("path") or ("",)
        if p and p[0] == "cas":
            if e["op"] == "open" and any(e.get("flags", {}).get(k) for k in ("write", "create", "truncate", "append")):
                return ("cas-write-open", "a file under cas/ is opened for writing", dict(pred="cas_never_written"))
            if e["op"] in ("write", "create", "create-temp"):
                return ("cas-write", "a file under cas/ is written in place", dict(pred="cas_never_written"))
    return None


def p_stage_complete_before_rename(sw, f, sync_mode="sync"):
    """C06/C09: staged blob: every byte flushed (+fdatasync in Sync mode) before the rename into cas/,
    and never written after it"""
    ios = _io(f)
    for n, (i, e) in enumerate(ios):
        if e["op"] == "rename" and e["outcome"] == "ok" and e["path"][0] == "staging" and e.get("dst", ("",))[0] == "cas":
            src = e["path"]
            before = [x for _, x in ios[:n] if x.get("path") == src]
            after = [x for _, x in ios[n + 1:] if x.get("path") == src]
            wr = [k for k, x in enumerate(before) if x["op"] == "write" and x["outcome"] == "ok"]
            if not wr:
                return ("rename-before-flush", "blob renamed into cas/ before its buffered bytes were written",
                        dict(pred="stage_complete_before_rename"))
            if any(x["op"] == "write" for x in after):
                return ("write-after-rename", "bytes are written to the blob after it became visible under cas/",
                        dict(pred="stage_complete_before_rename"))
            want = "sync" if sync_mode == "sync" else "async-sync-request"
            if not any(x["op"] == want and x["outcome"] == "ok" for x in before[wr[-1] + 1:]):
                return ("rename-before-sync", f"blob renamed into cas/ without a preceding {want} of the staged file",
                        dict(pred="stage_complete_before_rename"))
    return None


def p_wal_durable_before_unlink(sw, f):
    """C03/C09: a referenced blob is unlinked only after the WAL record that un-references it was
    written AND fdatasync'ed (put/remove paths)"""
    ios = _io(f)
    for n, (i, e) in enumerate(ios):
        if e["op"] == "unlink" and e["outcome"] == "ok" and e["path"][0] == "cas":
            before = [x for _, x in ios[:n]]
            wal_w = [k for k, x in enumerate(before) if x["op"] == "write" and x["outcome"] == "ok" and x["path"][0] == "wal"]
            if not wal_w:
                return ("unlink-before-wal", "blob unlinked before any WAL record was written",
                        dict(pred="wal_durable_before_unlink"))
            if not any(x["op"] == "sync" and x["outcome"] == "ok" and x["path"][0] == "wal" for x in before[wal_w[-1] + 1:]):
                return ("unlink-before-wal-sync", "blob unlinked before the WAL record was fdatasync'ed",
                        dict(pred="wal_durable_before_unlink"))
    return None


def p_snapshot_before_prune(sw, f):
    """C03/C20: WAL segments are pruned only after the new snapshot was written, synced and renamed"""
    ios = _io(f)
    for n, (i, e) in enumerate(ios):
        if e["op"] == "unlink" and e["path"][0] == "wal":
            before = [x for _, x in ios[:n]]
            ren = [k for k, x in enumerate(before) if x["op"] == "rename" and x["outcome"] == "ok" and x["path"] == ("index.tmp",)
                   and x.get("dst") == ("index",)]
            if not ren:
                return ("prune-before-snapshot", "a WAL segment is removed before the snapshot rename",
                        dict(pred="snapshot_before_prune"))
            pre = before[:ren[-1]]
            w = [k for k, x in enumerate(pre) if x["op"] == "write" and x["outcome"] == "ok" and x["path"] == ("index.tmp",)]
            if not w or not any(x["op"] == "sync" and x["outcome"] == "ok" and x["path"] == ("index.tmp",) for x in pre[w[-1] + 1:]):
                return ("snapshot-rename-before-sync", "index.tmp renamed over index before it was written and synced",
                        dict(pred="snapshot_before_prune"))
    return None


def p_unlink_under_intents(sw, f):
    """C04/C08: every blob unlink happens while the pending_intents lock is held"""
    for i, e in _io(f):
        if e["op"] == "unlink" and e["path"][0] == "cas" and e["outcome"] in ("ok", "NotFound"):
            if not any(l == "pending_intents" for (l, m) in e["locks"]):
                return ("unlink-outside-intents-lock", "a blob is unlinked without holding the pending_intents lock",
                        dict(pred="unlink_under_intents"))
    return None


def make_p_intent_before_rename(ex):
    def p(sw, f):
        """C04/C08: the commit's intent (key -> hash) is registered before its blob appears under cas/"""
        for n, e in enumerate(f.trace):
            if e["kind"] == "io" and e["op"] == "rename" and e["outcome"] == "ok" and e.get("dst", ("",))[0] == "cas":
                h = e["dst"][1]
                ok = False
                for x in f.trace[:n]:
                    if x["kind"] == "intent" and x["op"] == "insert":
                        if not ex.feasible(f.pc, x["hash"] != h):
                            ok = True
                if not ok:
                    return ("rename-before-intent", "blob placed under cas/ before an intent protecting it was registered",
                            dict(pred="intent_before_rename"))
        return None
    return p


def p_abandon_only_staging(sw, f):
    """C13: creating / dropping a transaction touches only its own fresh staging file, takes no lock"""
    for e in f.trace:
        # the index's own locks and the intent table are the shared state of the property; a private lock of some other
        # component (a buffer pool, a metrics counter) is not - what it may carry over is decided by the abandoned-then-put obligation
        if e["kind"] == "intent" or (e["kind"] in ("acq", "rel") and e.get("lock") in ("pending_intents", "state", "wal")):
            return ("abandoned-tx-shared-state", "an un-finished transaction touches shared state (lock/intent)",
                    dict(pred="abandon_only_staging"))
        if e["kind"] == "io":
            p = e.get("path") or ("",)
            if p[0] != "staging":
                return ("abandoned-tx-foreign-path", f"an un-finished transaction touches {p[0]}", dict(pred="abandon_only_staging"))
            if e["op"] == "open" and not e.get("flags", {}).get("reopen"):
                return ("staging-not-fresh", "the staging file is opened by name (create/truncate) instead of created fresh",
                        dict(pred="abandon_only_staging"))
    return None


def p_abandon_removes_staging(sw, f):
    """C13: when the drop of an un-finished transaction has returned, its staging file is gone (the abandoned bytes do not
    stay behind in staging/ - not until 'later', not until the next clean close: a crash in between would keep them)"""
    if f.status != "returned":
        return None
    if not any(e["kind"] == "io" and e["op"] == "unlink" and (e.get("path") or ("",))[0] == "staging" and e["outcome"] == "ok" for e in f.trace):
        return ("abandoned-staging-left", "the transaction was dropped without finish and its staging file was not unlinked by the drop",
                dict(pred="abandon_removes_staging"))
    return None


_EXPLORE_CACHE = {}


def run_preds(ex, name, preds, U=2, HU=2, tags=(), faults=0, spill=False, **world):
    """explore one entry point ONCE and evaluate several predicates; -> [Obligation] (one per pred)
    preds: [(label, fn)]"""
    key = (name, U, HU, faults, spill, tuple(sorted(world.items())))
    t0 = time.time()
    q0 = ex.queries
    if key not in _EXPLORE_CACHE:
        _EXPLORE_CACHE[key] = entry.explore(ex, name, U=U, HU=HU, faults=faults, spill=spill, **world)
    sw, finals = _EXPLORE_CACHE[key]
    texp = time.time() - t0
    qexp = ex.queries - q0
    out = []
    for label, pred in preds:
        t1 = time.time()
        oname = f"{label}: {name}"
        bad = [f for f in finals if f.status in ("unsupported", "cut")]
        if bad:
            out.append(Obligation(oname, list(tags), "inconclusive", texp, f"{bad[0].status}: {bad[0].note}", None, qexp, len(finals)))
            continue
        ob = None
        for f in finals:
            v = pred(sw, f)
            if v is not None:
                r, m = ex.model_of(f.pc)
                cex = {}
                if m is not None:
                    w = sw.iw
                    cex = model_values(m, dict(keys=w.keys, hashes=w.hashes, pk=w.pk, hk=w.hk, N=sw.N, next=sw.next, lpv=w.lpv))
                cex.update(entry=name, violation=v[0], detail=v[1], trace=trace_str(f, 60))
                if len(v) > 2:
                    cex.update(v[2])
                ob = Obligation(oname, list(tags), "violated", texp + time.time() - t1, f"{v[0]}: {v[1]}", cex, qexp, len(finals))
                break
        if ob is None:
            if not finals:
                ob = Obligation(oname, list(tags), "inconclusive", texp, "no feasible path", None, qexp, 0)
            else:
                ob = Obligation(oname, list(tags), "discharged", texp + time.time() - t1,
                                f"{len(finals)} feasible paths checked", None, qexp, len(finals))
                ob.sample = trace_str(max(finals, key=lambda x: len(x.trace)), 50)
        ob.pred_fn = pred
        out.append(ob)
        texp, qexp = 0.0, 0
    return out


def p_quarantine_under_intents(sw, f):
    for i, e in _io(f):
        if e["op"] == "rename" and e["path"][0] == "cas":
            if not any(l == "pending_intents" for (l, m) in e["locks"]):
                return ("quarantine-outside-intents-lock", "an orphan is moved out of cas/ without holding the pending_intents lock",
                        dict(pred="unlink_under_intents"))
    return None


def make_p_intent_at_apply(ex):
    def p(sw, f):
        """the intent inserted by register_intent is for the committed (key, hash) and is not removed
        before the state write lock of the apply is taken"""
        ins = [n for n, e in enumerate(f.trace) if e["kind"] == "intent" and e["op"] == "insert"]
        app = [n for n, e in enumerate(f.trace) if e["kind"] == "acq" and e["lock"] == "state" and e["mode"] == "write"]
        ren = [n for n, e in enumerate(f.trace) if e["kind"] == "io" and e["op"] == "rename" and e.get("dst", ("",))[0] == "cas"
               and e["outcome"] == "ok"]
        if ren and app:
            if not ins or ins[0] > app[0]:
                return ("no-intent-at-apply", "the commit reaches its index apply without a registered intent",
                        dict(pred="register_intent"))
            k = getattr(sw, "op_key", None)
            e = f.trace[ins[0]]
            if k is not None and ex.feasible(f.pc, e["key"] != k):
                return ("intent-wrong-key", "the registered intent is not for the committed key", dict(pred="register_intent"))
            rm = [n for n, x in enumerate(f.trace) if x["kind"] == "intent" and x["op"] == "remove" and ins[0] < n < app[0]]
            if rm:
                return ("intent-dropped-early", "the intent is removed before the index apply", dict(pred="register_intent"))
        return None
    return p


def make_p_orphan_guarded(ex):
    def p(sw, f):
        """at every orphan unlink/quarantine of hash h: h is not referenced by the index and no intent
        holds h (evaluated on the pre-state: these entry points do not modify index or intents)"""
        w = sw.iw
        for i, e in _io(f):
            if (e["op"] == "unlink" and e["path"][0] == "cas" and e["outcome"] == "ok") or \
               (e["op"] == "rename" and e["path"][0] == "cas" and e["outcome"] == "ok"):
                h = e["path"][1]
                referenced = z3.Or([z3.And(w.pk[j], w.hk[j] == h) for j in range(w.U)])
                intent = z3.Or([z3.And(sw.ip[j], sw.ih[j] == h) for j in range(w.U)])
                if ex.feasible(f.pc, z3.Or(referenced, intent)):
                    return ("live-blob-removed", "an orphan clean-up removes a blob that a key references or an in-flight commit protects",
                            dict(pred="orphan_guarded"))
        return None
    return p


def p_staging_fresh_native(sw, f):
    """strace-side counterpart of p_abandon_only_staging: every staging file is created exclusively
    (O_CREAT|O_EXCL, fresh random name), never opened by a reusable name with O_CREAT/O_TRUNC"""
    for i, e in _io(f):
        p = e.get("path") or ("",)
        if p[0] == "staging" and e["op"] == "open" and (e["flags"].get("create") or e["flags"].get("truncate")):
            return ("staging-not-fresh", "a staging file is opened with O_CREAT/O_TRUNC by name instead of being created fresh (O_EXCL)",
                    dict(pred="abandon_only_staging"))
    return None


p_abandon_only_staging.native = p_staging_fresh_native


def p_record_single_write(sw, f):
    """C03/C20: between two fdatasyncs of a WAL segment at most one write call happens, i.e. every
    record (and the end marker) reaches the file with a single write"""
    pending = {}
    for i, e in _io(f):
        p = e.get("path") or ("",)
        if p[0] != "wal":
            continue
        if e["op"] == "write" and e["outcome"] == "ok":
            pending[p] = pending.get(p, 0) + 1
            if pending[p] > 1:
                return ("record-split", "a WAL record is written with more than one write call (torn by a crash in between)",
                        dict(pred="record_single_write"))
        elif e["op"] == "sync":
            pending[p] = 0
    return None


def p_ack_after_wal_sync(sw, f):
    """C03: an operation that returns Ok has its WAL record written and fdatasync'ed"""
    if f.status != "returned" or not isinstance(f.retval, VEnum) or f.retval.concrete() != 0:
        return None
    ios = [e for _, e in _io(f)]
    w = [k for k, x in enumerate(ios) if x["op"] == "write" and x["outcome"] == "ok" and x["path"][0] == "wal"]
    mut = any(e["kind"] == "acq" and e["lock"] == "wal" for e in f.trace)
    if not mut:
        return None
    appended = any(x["op"] == "write" and x["path"][0] == "wal" for x in ios)
    if appended and not any(x["op"] == "sync" and x["outcome"] == "ok" and x["path"][0] == "wal" for x in ios[w[-1] + 1:]):
        return ("ack-before-wal-sync", "operation acknowledged although its WAL record was not fdatasync'ed",
                dict(pred="ack_after_wal_sync"))
    return None


# ---- open gate: C11 (exclusive ownership) and C19 (settings/version gate) ----------------------------

def _ret(f):
    rv = f.retval
    if isinstance(rv, VEnum):
        return rv.concrete(), rv
    return None, rv


MUTATING = ("write", "rename", "unlink", "create-temp", "index-load", "sync")


def p_lock_first(sw, f):
    """C11: nothing but `mkdir -p` of the directories and the open of LOCK happens before try_lock;
    a losing open returns AlreadyOpened without any further effect (in particular LOCK is not touched)"""
    ios = [e for _, e in _io(f)]
    tl = [k for k, e in enumerate(ios) if e["op"] == "trylock"]
    if not tl:
        if any(e["op"] in MUTATING or (e["op"] == "open" and e["path"][0] != "lock") for e in ios):
            return ("work-without-lock", "the open path performs work without ever taking the directory lock", dict(pred="lock_first"))
        return None
    for e in ios[:tl[0]]:
        if not (e["op"] == "mkdir" or (e["op"] == "open" and e["path"][0] == "lock")):
            return ("work-before-lock", f"{e['op']} on {e['path'][0]} happens before the directory lock is taken", dict(pred="lock_first"))
    if ios[tl[0]]["outcome"] != "ok":
        code, rv = _ret(f)
        if code != 1:
            return ("loser-not-rejected", "try_lock failed but open did not return an error", dict(pred="lock_first"))
        after = ios[tl[0] + 1:]
        if after:
            return ("loser-has-effects", f"a losing open performs {after[0]['op']} on {after[0]['path'][0]} after failing to lock",
                    dict(pred="lock_first"))
    return None


def p_lock_kept(sw, f):
    """C11: a successful open stores the LOCKED handle in the returned value (so it lives as long as it)"""
    code, rv = _ret(f)
    if code != 0:
        return None
    inner = rv.payloads[0][0]
    try:
        from structs import fidx
        lf = inner.fields[fidx(sw.ex, "CasInner", "_lockfile")] if hasattr(inner, "fields") else None
    except Exception:
        lf = None
    files = f.meta.get("files", {})
    from exec import VOpaque as _VO
    if not (isinstance(lf, _VO) and lf.tag == "file" and files.get(lf.data, {}).get("path") == ("lock",)):
        return ("lock-not-kept", "the handle stored in the returned store is not the locked LOCK file", dict(pred="lock_kept"))
    locked = [e for _, e in _io(f) if e["op"] == "trylock" and e["outcome"] == "ok"]
    if not locked:
        return ("open-without-lock", "open succeeded without holding the directory lock", dict(pred="lock_kept"))
    return None


def make_p_settings_gate(ex):
    def p(sw, f):
        """C19: stored version != build version or stored segment size != configured one => Err with no
        mutating effect; creation saves the settings before recovery runs; the stored pre-creation
        choice (not the requested one) is what the store uses"""
        ios = [e for _, e in _io(f)]
        code, rv = _ret(f)
        rd = [k for k, e in enumerate(ios) if e["op"] == "read" and e["path"][0] == "settings"]
        if not rd or ios[rd[0]]["outcome"] != "ok":
            # first creation (settings file absent): saved atomically before index-load
            if code == 0:
                il = [k for k, e in enumerate(ios) if e["op"] == "index-load"]
                rn = [k for k, e in enumerate(ios) if e["op"] == "rename" and e["path"][0] == "settings"]
                if rd and (not rn or (il and rn[0] > il[0])):
                    return ("settings-not-saved-first", "a new store runs recovery before its settings are durably saved",
                            dict(pred="settings_gate"))
            return None
        ver, n_st, pre_st = f.meta.get("stored_version"), f.meta.get("stored_N"), f.meta.get("stored_precreated")
        if ver is None:
            return None  # unparsable settings: rejected by the parse error path
        after = ios[rd[0] + 1:]
        mism = z3.Or(ver != 4, n_st != sw.config_N)
        if code == 0:
            if ex.feasible(f.pc, mism):
                return ("mismatch-accepted", "open succeeds although the stored version / segment size differs", dict(pred="settings_gate"))
            inner = rv.payloads[0][0]
            from structs import fget
            cm = fget(ex, inner, "CasInner", "cas_manager").fields[0]
            flag = fget(ex, cm, "CasManager", "dir_tree_is_pre_created").t
            if ex.feasible(f.pc, flag != pre_st):
                return ("precreate-not-remembered", "the store uses the requested pre-creation choice instead of the stored one",
                        dict(pred="settings_gate"))
        else:
            if not ex.feasible(f.pc, z3.Not(mism)):
                bad = [e for e in after if e["op"] in MUTATING or (e["op"] == "open" and e.get("flags", {}).get("write"))]
                if bad:
                    return ("rejected-open-has-effects", f"an open rejected for a settings mismatch still performs {bad[0]['op']} on "
                            f"{bad[0]['path'][0]}", dict(pred="settings_gate"))
        return None
    return p


# ---- C05 -------------------------------------------------------------------------------------------------

def p_index_mutation_under_write_lock(sw, f):
    """every mutation of the key map happens while the state WRITE lock is held (so all writes are
    totally ordered and a read's lookup sees a state between two writes)"""
    for e in f.trace:
        if e["kind"] == "index-mutation":
            if not any(l == "state" and m == "write" for (l, m) in e["locks"]):
                return ("index-mutation-unlocked", "the key map is modified without the state write lock", dict(pred="mutation_locked"))
    return None


def p_single_lookup_under_read_lock(sw, f):
    """a read performs its index lookup under the state read lock, exactly once"""
    acq = [e for e in f.trace if e["kind"] == "acq" and e["lock"] == "state"]
    if len(acq) != 1 or acq[0]["mode"] != "read":
        return ("lookup-discipline", f"a read takes the state lock {len(acq)} times / not in read mode", dict(pred="single_lookup"))
    return None


def make_p_read_vs_unlink(writer_unlink_locksets):
    def p(sw, f):
        """lockset criterion: the reader opens cas/<h> holding lockset Lr; some writer unlinks blobs holding
        Lw; if no common lock excludes the two, `lookup < overwrite-apply < unlink < open` is a feasible
        schedule and the read of a present key fails"""
        for e in f.trace:
            if e["kind"] == "io" and e["op"] in ("open", "read", "read_range") and (e.get("path") or ("",))[0] == "cas":
                lr = {l for (l, m) in e["locks"]}
                for lw in writer_unlink_locksets:
                    if not (lr & lw):
                        return ("read-vs-unlink", "the blob is opened after the index lock was released: a concurrent overwrite/remove "
                                "can unlink it in between (read of a present key fails with BlobDataMissing)", dict(pred="read_vs_unlink"))
        return None
    return p


# ---- C14: one injected I/O failure ---------------------------------------------------------------------

def p_returns_clean(sw, f):
    if f.status in ("panic", "deadlock"):
        return ("panic-on-fault", f"a failed I/O call makes the operation panic/hang: {f.note}", dict(pred="returns_clean"))
    if f.status == "returned" and f.locks:
        return ("lock-leak-on-fault", f"locks still held at return: {[l for l, m in f.locks]}", dict(pred="returns_clean"))
    return None


def make_p_no_unlink_of_referenced(ex):
    def p(sw, f):
        """no blob that the index references when the operation returns was unlinked by it — with or
        without a failed call (single-thread view of 'no dangling reference')"""
        if f.status != "returned":
            return None
        w = sw.iw
        post = w.snapshot_of(f, sw.state_ref)
        for i, e in _io(f):
            if e["op"] == "unlink" and e["outcome"] == "ok" and e["path"][0] == "cas":
                h = e["path"][1]
                ref = z3.Or([z3.And(post["pk"][j], post["hk"][j] == h) for j in range(w.U)])
                # a blob re-created by this very operation after the unlink does not count
                later = [x for _, x in _io(f) if x["op"] == "rename" and x.get("dst", ("",))[0] == "cas"]
                if ex.feasible(f.pc, ref) and not any(not ex.feasible(f.pc, x["dst"][1] != h) for x in later[:0]):
                    return ("referenced-blob-unlinked", "the operation unlinks a blob that a key still references when it returns",
                            dict(pred="no_unlink_of_referenced"))
        return None
    return p


def make_p_state_consistent(ex):
    def p(sw, f):
        """after the operation (failed or not) the in-memory index satisfies the exactness invariant and
        every key other than the operation's own keys is untouched"""
        if f.status != "returned":
            return None
        w = sw.iw
        post = w.snapshot_of(f, sw.state_ref)
        inv = w.invariant(post)
        if ex.feasible(f.pc, z3.Not(inv)):
            return ("invariant-broken", "refcounts/stats no longer match the key map after the operation", dict(pred="state_consistent"))
        k = getattr(sw, "op_key", None)
        if k is not None:
            for i in range(w.U):
                same = z3.And(post["pk"][i] == w.pk[i], z3.Implies(w.pk[i], z3.And(post["hk"][i] == w.hk[i], post["sk"][i] == w.sk[i])))
                if ex.feasible(f.pc, z3.And(w.keys[i] != k, z3.Not(same))):
                    return ("other-key-changed", "a key other than the operation's own key changed", dict(pred="state_consistent"))
        return None
    return p


def p_sentinel_only_on_rollover(sw, f):
    """C20: an end marker (all-zero header) is only written to a segment that is being left: the next
    WAL event after its write+sync is the opening of another segment, never a further record"""
    ios = [e for _, e in _io(f)]
    for k, e in enumerate(ios):
        if e["op"] == "write" and e["path"][0] == "wal" and any("sentinel" in str(d) or d == ("bytes", 44) for d in e.get("data", [])):
            rest = [x for x in ios[k + 1:] if x["path"][0] == "wal" and x["path"] == e["path"] and x["op"] == "write"]
            if rest:
                return ("record-after-sentinel", "a record is appended to a segment after its end marker", dict(pred="sentinel_on_rollover"))
    return None


# ---- content of what is written (C03/C20: the abstraction step) ---------------------------------------

def _record_parts(data):
    """wal write event data -> (version term, op value) or None (sentinel / unknown)"""
    chunks = []
    for d in data:
        if isinstance(d, tuple) and d and d[0] == "record":
            chunks += list(d[1])
        else:
            chunks.append(d)
    flat = []
    for c in chunks:
        while isinstance(c, tuple) and len(c) == 2 and c[0] == "chunk":
            c = c[1]
        flat.append(c)
    les = [c for c in flat if isinstance(c, tuple) and c and c[0] == "le-bytes"]
    ops = [c for c in flat if isinstance(c, tuple) and c and c[0] == "bytes" and isinstance(c[1], tuple) and c[1] and c[1][0] == "op"]
    if les and ops:
        return les[0][1], ops[0][1][1]
    return None


def make_p_record_content(ex):
    def p(sw, f):
        """C03/C20: a successful operation appends exactly ONE record; its version is the next unused
        version, it goes to the segment that version belongs to, and it encodes exactly the operation
        that is applied to the in-memory index"""
        rv = f.retval
        if f.status != "returned" or not isinstance(rv, VEnum) or rv.concrete() != 0:
            return None
        recs = []
        for i, e in _io(f):
            if e["op"] == "write" and e["outcome"] == "ok" and e["path"][0] == "wal":
                r = _record_parts(e.get("data", []))
                if r is not None:
                    recs.append((e, r))
        mutated = any(e["kind"] == "index-mutation" for e in f.trace)
        if not recs:
            if mutated:
                return ("mutation-without-record", "the index is changed without a WAL record", dict(pred="record_content"))
            return None
        if len(recs) != 1:
            return ("several-records", f"one operation appends {len(recs)} records", dict(pred="record_content"))
        e, (ver, op) = recs[0]
        N = sw.N
        seg = e["path"][1]
        if ex.feasible(f.pc, ver != sw.next):
            return ("version-not-next", "the record's version is not the next unused version", dict(pred="record_content"))
        if ex.feasible(f.pc, z3.Not(z3.And(seg * N < ver, ver <= (seg + 1) * N))):
            return ("wrong-segment", "the record is appended to a segment its version does not belong to", dict(pred="record_content"))
        k = getattr(sw, "op_key", None)
        if k is not None and isinstance(op, VEnum):
            ci = op.concrete()
            if ci == 0:
                kk, hh, ss = op.payloads[0][0].t, op.payloads[0][1].t, op.payloads[0][2].t
                want = [kk != k]
                if hasattr(sw, "op_hash"):
                    want.append(hh != sw.op_hash)
                if hasattr(sw, "op_size"):
                    want.append(ss != sw.op_size)
                if ex.feasible(f.pc, z3.Or(want)):
                    return ("record-not-the-op", "the logged Put differs from the committed (key, hash, size)", dict(pred="record_content"))
            elif ci == 1:
                ks = op.payloads[1][0].elems
                if len(ks) == 1 and ex.feasible(f.pc, ks[0].t != k):
                    return ("record-not-the-op", "the logged Remove names another key", dict(pred="record_content"))
        return None
    return p


def make_p_snapshot_content(ex):
    def p(sw, f):
        """C03/C20: a snapshot that is written holds the in-memory map of that moment and is labelled with
        the highest version written so far (so snapshot + later records = acknowledged history)"""
        w = sw.iw
        wrote_rec = False
        for i, e in _io(f):
            if e["op"] == "write" and e["path"][0] == "wal" and _record_parts(e.get("data", [])) is not None and e["outcome"] == "ok":
                wrote_rec = True
            if e["op"] == "write" and e["outcome"] == "ok" and e["path"] == ("index.tmp",):
                snap = None
                for d in e.get("data", []):
                    if isinstance(d, tuple) and len(d) == 2 and isinstance(d[1], tuple) and d[1] and d[1][0] == "snapshot":
                        snap = d[1]
                if snap is None:
                    return ("snapshot-unknown-content", "index.tmp is written with something that is not the serialised index",
                            dict(pred="snapshot_content"))
                m, lpv = snap[1], snap[2]
                vt = lpv.payloads[1][0].t if (isinstance(lpv, VEnum) and 1 in lpv.payloads and lpv.payloads[1]) else None
                highest = sw.next if wrote_rec else sw.next - 1
                if vt is None or ex.feasible(f.pc, z3.Or(lpv.disc != 1, vt != highest)):
                    return ("snapshot-version", "the snapshot is not labelled with the highest written version", dict(pred="snapshot_content"))
                from structs import fget
                cur = fget(ex, f.load(sw.state_ref), "IndexState", "key_to_hash")
                diff = z3.Or([z3.Or(z3.Select(m.present, u) != z3.Select(cur.present, u),
                                    z3.And(z3.Select(m.present, u), z3.Select(m.cols["blob_hash"], u) != z3.Select(cur.cols["blob_hash"], u)))
                              for u in w.keys])
                if ex.feasible(f.pc, diff):
                    return ("snapshot-map", "the snapshot does not hold the in-memory map", dict(pred="snapshot_content"))
        return None
    return p


def make_p_wal_never_truncated(ex):
    def p(sw, f):
        """C03/C20: a WAL segment that may hold records is never opened with truncate (File::create / O_TRUNC):
        a create-or-truncate open of a segment is only allowed right after the code established that the
        file does not exist"""
        known_absent = []
        for e in f.trace:
            if e["kind"] != "io":
                continue
            p_ = e.get("path") or ("",)
            if e["op"] == "exists?" and p_[0] == "wal":
                known_absent.append((p_, e["outcome"]))
            if e["op"] == "open" and p_[0] == "wal" and e.get("flags", {}).get("truncate") and e["outcome"] == "ok":
                ok_ = False
                for (pp, b) in known_absent:
                    if str(pp) == str(p_) and not ex.feasible(f.pc, b):
                        ok_ = True
                if not ok_:
                    return ("wal-truncated", "a WAL segment is opened with create+truncate without knowing that it does not exist "
                            "(records in it are destroyed)", dict(pred="wal_never_truncated"))
        return None

    def native(sw, f):
        written = set()
        for i, e in _io(f):
            p_ = e.get("path") or ("",)
            if p_[0] != "wal":
                continue
            if e["op"] == "write" and e["outcome"] == "ok":
                written.add(p_)
            if e["op"] == "unlink" and e["outcome"] == "ok":
                written.discard(p_)
            if e["op"] == "open" and e.get("flags", {}).get("truncate") and p_ in written:
                return ("wal-truncated", "a WAL segment that already holds records is opened with O_TRUNC", dict(pred="wal_never_truncated"))
        return None
    p.native = native
    return p


# ---- C03: crash during first-time initialisation --------------------------------------------------------

def p_init_crash_safe(sw, f):
    """C03 (first-time initialisation): until the index is loaded, every filesystem effect of opening a store
    is either idempotent and invisible to a later open (create_dir_all, create/lock of the LOCK file, a scratch
    settings file) or THE atomic installation of a completely written and synced settings file.  A kill at
    any cut therefore leaves either 'no settings yet' (the next open initialises again) or a complete store
    header; nothing else is created, removed or overwritten before the header exists."""
    tmp_state = {}
    for e in f.trace:
        if e["kind"] != "io":
            continue
        op, p_ = e["op"], e.get("path") or ("",)
        okc = isinstance(e["outcome"], str) and e["outcome"] == "ok"
        if op == "index-load":
            break
        if op in ("mkdir", "read", "exists?", "trylock", "read_dir"):
            continue
        if p_ == ("lock",) and op == "open":
            continue
        if p_[0] == "settings" and len(p_) > 1:      # the scratch file
            s = tmp_state.setdefault(p_, dict(written=False, synced=False))
            if op == "open":
                s.update(written=False, synced=False)
            elif op == "write" and okc:
                data = e.get("data", [])
                whole = any(isinstance(d, tuple) and len(d) == 2 and isinstance(d[1], tuple) and d[1] and d[1][0] == "settings-json" for d in data)
                s.update(written=whole, synced=False)
            elif op == "sync" and okc:
                s["synced"] = True
            elif op == "rename" and okc:
                if e.get("dst") != ("settings",):
                    return ("init-not-crash-safe", "the scratch settings file is renamed to something else than the settings file", dict(pred="init_crash_safe"))
                if not (s["written"] and s["synced"]):
                    return ("init-not-crash-safe", "the settings file is installed before it was completely written and synced: a crash leaves a "
                            "store header the next open cannot parse", dict(pred="init_crash_safe"))
            elif op == "unlink":
                continue
            continue
        if not okc and op in ("open", "write", "sync", "rename", "unlink"):
            continue
        return ("init-not-crash-safe", f"before the store header exists / the index is loaded, initialisation performs {op} on {p_[0]}: a crash "
                "there is visible to the next open", dict(pred="init_crash_safe"))
    return None
