"""Obligations over effect traces (lock events + I/O events) of the public entry points.

Every feasible path of an entry point from an arbitrary SystemWorld is produced by mirsym
(each branch decided by a z3 feasibility query); the predicates below are evaluated on each
path's trace.  The trace *shape* is concrete per path, its parameters (keys, hashes, versions,
segment ids) are symbolic terms."""
import time

import z3

from exec import VEnum
from obl_index import Obligation, model_values
import entry

RANK = {"pending_intents": 0, "state": 1, "wal": 2}


def short(e):
    if e["kind"] == "io":
        p = e.get("path", ("",))
        return f"{e['op']}:{e['outcome']}:{p[0] if p else ''}"
    if e["kind"] in ("acq", "rel"):
        return f"{e['kind']}:{e['lock']}/{e['mode']}"
    return e["kind"]


def trace_str(f, n=40):
    return " ".join(short(e) for e in f.trace[:n])


def lock_discipline(f, allow_held_at_end=()):
    """-> None or (kind, detail) for the first violation on this path"""
    if f.status == "deadlock":
        return ("self-deadlock", f.note)
    for e in f.trace:
        if e["kind"] != "acq":
            continue
        new = e["lock"]
        for (l, m) in e["locks"]:
            if l == new:
                return ("re-acquire", f"{new} ({m} then {e['mode']}) is acquired while already held")
            if RANK.get(l, 9) > RANK.get(new, 9):
                return ("order", f"{new} acquired while holding {l}: violates the global order pending_intents < state < wal")
    if f.status == "returned":
        left = [l for (l, m) in f.locks if l not in allow_held_at_end]
        if left:
            return ("leak", f"locks still held at return: {left}")
    return None


def run_paths(ex, name, U, HU, pred, label, tags, faults=0, spill=False, pre=None, **world):
    """explore one entry point; apply pred(sw, final)->None|(kind, detail, role) to every path"""
    t0 = time.time()
    q0 = ex.queries
    sw, finals = entry.explore(ex, name, U=U, HU=HU, faults=faults, spill=spill, **world)
    oname = f"{label}: {name}"
    for f in finals:
        if f.status in ("unsupported", "cut"):
            return Obligation(oname, tags, "inconclusive", time.time() - t0, f"{f.status}: {f.note}", None,
                              ex.queries - q0, len(finals))
    for f in finals:
        v = pred(sw, f)
        if v is not None:
            r, m = ex.model_of(f.pc)
            cex = None
            if m is not None:
                w = sw.iw
                cex = model_values(m, dict(keys=w.keys, hashes=w.hashes, pk=w.pk, hk=w.hk, sk=w.sk,
                                           N=sw.N, next=sw.next, lpv=w.lpv, has_writer=sw.has_writer,
                                           writer_seg=sw.writer_seg, ip=sw.ip, ih=sw.ih))
                cex.update(entry=name, violation=v[0], detail=v[1], trace=trace_str(f, 60))
                if len(v) > 2:
                    cex.update(v[2])
            ob = Obligation(oname, tags, "violated", time.time() - t0, f"{v[0]}: {v[1]}", cex, ex.queries - q0, len(finals))
            ob.entry = name
            return ob
    if not finals:
        return Obligation(oname, tags, "inconclusive", time.time() - t0, "no feasible path", None, ex.queries - q0, 0)
    ob = Obligation(oname, tags, "discharged", time.time() - t0, f"{len(finals)} feasible paths checked", None,
                    ex.queries - q0, len(finals))
    ob.sample = trace_str(max(finals, key=lambda x: len(x.trace)), 60)
    return ob


# ---- C15 -------------------------------------------------------------------------------------------

def c15_pred(sw, f):
    if f.status == "panic":
        return None  # panics are C14's subject; lock release on unwind is parking_lot's guard drop
    v = lock_discipline(f)
    if v is None:
        return None
    held = None
    for e in f.trace:
        if e["kind"] == "acq":
            for (l, m) in e["locks"]:
                if l == e["lock"] or RANK.get(l, 9) > RANK.get(e["lock"], 9):
                    held = dict(held=l, wanted=e["lock"])
    return (v[0], v[1], held or {})


C15_ENTRIES = ["put.finish", "get", "get_size", "get_reader", "get_range", "remove", "remove_range", "checkpoint",
               "stats", "delete_orphan", "delete_orphans", "quarantine_orphans"]
