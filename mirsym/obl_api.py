"""Obligations on the public API wrappers, from an arbitrary SystemWorld (Engine M):
C01 (reads/removes agree with the map), C07 (exact reclamation at quiescence), C17 (get_range clamp)."""
import time

import z3

from exec import VEnum, VInt, VBool, VOpaque
from obl_index import Obligation, model_values
import obl_trace as T
import entry


def _cex(ex, sw, f, extra=None):
    r, m = ex.model_of(f.pc, extra)
    if m is None:
        return {}
    w = sw.iw
    d = dict(keys=w.keys, hashes=w.hashes, pk=w.pk, hk=w.hk, sk=w.sk, N=sw.N, next=sw.next)
    for k in ("op_key", "op_size"):
        if hasattr(sw, k):
            d[k] = getattr(sw, k)
    return model_values(m, d)


def check_finals(ex, name, label, tags, posts, U=2, HU=2, **world):
    """posts(sw, final) -> {label: z3 Bool | bool}; every label on every path = one query"""
    t0 = time.time()
    q0 = ex.queries
    key = (name, U, HU, 0, False, tuple(sorted(world.items())))
    if key not in T._EXPLORE_CACHE:
        T._EXPLORE_CACHE[key] = entry.explore(ex, name, U=U, HU=HU, **world)
    sw, finals = T._EXPLORE_CACHE[key]
    oname = f"{label}: {name}"
    for f in finals:
        if f.status in ("unsupported", "cut"):
            return Obligation(oname, tags, "inconclusive", time.time() - t0, f"{f.status}: {f.note}", None, ex.queries - q0, len(finals))
    n = 0
    for f in finals:
        if f.status != "returned":
            cex = _cex(ex, sw, f)
            cex.update(entry=name, trace=T.trace_str(f, 40))
            ob = Obligation(oname, tags, "violated", time.time() - t0, f"path ends in {f.status}: {f.note}", cex, ex.queries - q0, len(finals))
            ob.entry = name
            return ob
        for lab, post in posts(sw, f).items():
            n += 1
            if isinstance(post, bool):
                bad = not post
                extra = None
            else:
                r, m = ex.model_of(f.pc, z3.Not(post))
                bad = (r == z3.sat)
                extra = z3.Not(post)
                if r == z3.unknown:
                    return Obligation(oname, tags, "inconclusive", time.time() - t0, "solver unknown on " + lab, None, ex.queries - q0, len(finals))
            if bad:
                cex = _cex(ex, sw, f, extra)
                cex.update(entry=name, failed=lab, trace=T.trace_str(f, 40))
                ob = Obligation(oname, tags, "violated", time.time() - t0, f"post-condition fails: {lab}", cex, ex.queries - q0, len(finals))
                ob.entry = name
                return ob
    if not finals:
        return Obligation(oname, tags, "inconclusive", time.time() - t0, "no feasible path", None, ex.queries - q0, 0)
    return Obligation(oname, tags, "discharged", time.time() - t0, f"{len(finals)} paths, {n} post-condition queries", None,
                      ex.queries - q0, len(finals))


def _sel(sw, arr_terms, k):
    """value of per-universe-key terms at symbolic key k"""
    w = sw.iw
    t = arr_terms[-1]
    for i in reversed(range(w.U - 1)):
        t = z3.If(k == w.keys[i], arr_terms[i], t)
    return t


def posts_get_size(sw, f):
    w = sw.iw
    k = sw.op_key
    present = _sel(sw, w.pk, k)
    rv = f.retval
    out = {"returns Ok": isinstance(rv, VEnum) and rv.concrete() == 0}
    if not out["returns Ok"]:
        return out
    opt = rv.payloads[0][0]
    out["C01 get_size: Some iff the key is present"] = (opt.disc == 1) == present
    if 1 in opt.payloads and opt.payloads[1]:
        out["C01 get_size: value is the recorded size"] = z3.Implies(opt.disc == 1, opt.payloads[1][0].t == _sel(sw, w.sk, k))
    out["C01 get_size does no I/O"] = not any(e["kind"] == "io" for e in f.trace)
    return out


def posts_get(sw, f):
    w = sw.iw
    k = sw.op_key
    present = _sel(sw, w.pk, k)
    h = _sel(sw, w.hk, k)
    rv = f.retval
    out = {}
    ios = [e for e in f.trace if e["kind"] == "io"]
    if isinstance(rv, VEnum) and rv.concrete() == 0:
        opt = rv.payloads[0][0]
        out["C01 get: Some iff the key is present"] = (opt.disc == 1) == present
        reads = [e for e in ios if e["op"] in ("read", "open", "read_range")]
        if reads:
            out["C01 get: the file read is the blob of the key's hash"] = z3.And([e["path"][1] == h for e in reads if e["path"][0] == "cas"]
                                                                                 + [z3.BoolVal(all(e["path"][0] == "cas" for e in reads))])
    else:
        # Err: only when the blob file is missing (BlobDataMissing) — not possible at quiescence with C04; allowed here
        out["C01 get: error only for a present key"] = present
    return out


def posts_get_range(sw, f):
    w = sw.iw
    k = sw.op_key
    present = _sel(sw, w.pk, k)
    size = _sel(sw, w.sk, k)
    h = _sel(sw, w.hk, k)
    out = {}
    ios = [e for e in f.trace if e["kind"] == "io"]
    rr = [e for e in ios if e["op"] == "read_range"]
    for e in rr:
        out["C17 the range end handed to the reader is clamped to the blob size (buffer <= L)"] = e["end"] <= size
        out["C17 the range read starts inside the blob"] = e["start"] < size
        out["C17 the blob read is the key's blob"] = e["path"][1] == h
    rv = f.retval
    if isinstance(rv, VEnum) and rv.concrete() == 0:
        opt = rv.payloads[0][0]
        out["C17/C01 get_range: Some iff the key is present"] = (opt.disc == 1) == present
    return out


def posts_remove(sw, f):
    w = sw.iw
    k = sw.op_key
    present = _sel(sw, w.pk, k)
    rv = f.retval
    out = {"returns Ok": isinstance(rv, VEnum) and rv.concrete() == 0}
    if not out["returns Ok"]:
        return out
    b = rv.payloads[0][0]
    out["C01 remove reports whether the key was present"] = b.t == present
    post = w.snapshot_of(f, sw.state_ref)
    for i in range(w.U):
        out[f"C01 remove: key u{i} present afterwards iff it was present and is not the removed key"] = (
            post["pk"][i] == z3.And(w.pk[i], w.keys[i] != k))
    return out


def posts_remove_range(sw, f):
    w = sw.iw
    lo, hi = sw.op_range
    rv = f.retval
    out = {"returns Ok": isinstance(rv, VEnum) and rv.concrete() == 0}
    if not out["returns Ok"]:
        return out
    cnt = rv.payloads[0][0]
    inr = [z3.And(w.pk[i], w.keys[i] >= lo, w.keys[i] <= hi) for i in range(w.U)]
    out["C01 remove_range reports the number of keys it removed"] = cnt.t == z3.Sum([z3.If(c, 1, 0) for c in inr])
    post = w.snapshot_of(f, sw.state_ref)
    for i in range(w.U):
        out[f"C01 remove_range: key u{i} survives iff it was present and outside the range"] = (
            post["pk"][i] == z3.And(w.pk[i], z3.Not(inr[i])))
    return out


def make_posts_reclaim(ex):
    def posts(sw, f):
        """C07 at quiescence (no other intents): the blobs unlinked by a successful op are exactly
        the hashes whose last reference went away; the staging file is consumed"""
        w = sw.iw
        rv = f.retval
        out = {}
        if not (isinstance(rv, VEnum) and rv.concrete() == 0):
            return out
        pre = w.snapshot_pre()
        post = w.snapshot_of(f, sw.state_ref)
        c0, c1 = w.counts(pre), w.counts(post)
        unl = [e["path"][1] for e in f.trace if e["kind"] == "io" and e["op"] == "unlink" and e["path"][0] == "cas"
               and e["outcome"] in ("ok", "NotFound")]
        for j in range(w.HU):
            g = w.hashes[j]
            dropped = z3.And(c0[j] > 0, c1[j] == 0)
            inl = z3.Or([u == g for u in unl]) if unl else z3.BoolVal(False)
            out[f"C07 blob g{j} is unlinked iff its last reference went away"] = inl == dropped
        st_ev = [e for e in f.trace if e["kind"] == "io" and (e.get("path") or ("",))[0] == "staging"]
        if st_ev:
            out["C07 staging file consumed (renamed into cas/ or removed)"] = any(
                e["op"] in ("rename", "unlink") and e["outcome"] == "ok" for e in st_ev)
        return out
    return posts


# ---- C18: blob identity depends only on content ------------------------------------------------------------

def ob_tx_write(ex, nchunks=2, abandon_first=False):
    """Transaction::write called nchunks times with chunks of arbitrary (symbolic) lengths, then the real commit: the byte
    stream the hash is finalised over == the byte stream in the staging file before its rename == the chunks in
    order, and size == sum of the lengths.  abandon_first (C13): a transaction on the same store is written to and then
    DROPPED without finish first; whatever it leaves behind in shared in-memory state (a buffer pool, a cache) must
    not reach the transaction that follows."""
    from exec import State, VRef, VStruct, VVec, VUnit
    from world import SystemWorld, find_fn
    import entry as E
    t0 = time.time()
    q0 = ex.queries
    st = State()
    sw = SystemWorld(ex, st, U=1, HU=1, N=2, intents="empty")
    if not abandon_first:
        return _tx_write_from(ex, sw, st, nchunks, t0, q0, "")
    k0 = sw.sym_key(st, "abandoned_key")
    starts = []
    for tx0, stv, _sz0 in E.real_tx(ex, sw, st, k0, "abandoned", pending=True):
        nxt0 = []
        for s2 in ex.drop_value(stv, tx0, VRef(stv.alloc(tx0))):
            nxt0 += ex.run(s2) if s2.frames else [s2]
        for s2 in nxt0:
            if s2.status in ("unsupported", "panic", "cut"):
                return Obligation("abandoned transaction, then a put", ["C13"], "inconclusive" if s2.status != "panic" else "violated",
                                  time.time() - t0, f"dropping the abandoned transaction: {s2.status}: {s2.note}", None, ex.queries - q0, 0)
            s2.status = "running"
            s2.retval = None
            del s2.trace[:]
            starts.append(s2)
    last = None
    for s2 in starts:
        last = _tx_write_from(ex, sw, s2, nchunks, t0, q0, "a transaction written to and dropped without finish, then ")
        if last.status != "discharged":
            return last
    if last is None:
        return Obligation("abandoned transaction, then a put", ["C13"], "inconclusive", time.time() - t0, "no start state", None, ex.queries - q0, 0)
    last.detail += f" ({len(starts)} ways the abandoned transaction may have buffered its bytes)"
    return last


def _tx_write_from(ex, sw, st, nchunks, t0, q0, prefix):
    from exec import State, VRef, VStruct, VVec, VUnit
    from world import SystemWorld, find_fn
    import entry as E
    (tx, st), = E.mk_tx(ex, sw, st, pending=False)  # a fresh transaction exactly as Transaction::new builds it
    st.meta.pop("hashed-content", None)
    I_SIZE = E.tx_field(ex, "size")
    tx.fields[I_SIZE] = VInt(0, "u64")
    txref = VRef(st.alloc(tx))
    fn = find_fn(ex, "::write", "transaction::")
    lens = []
    states = [st]
    for i in range(nchunks):
        nxt = []
        for s in states:
            ln = ex.fresh(f"chunk{i}_len")
            s.pc += [ln >= 0, ln <= (1 << 40)]
            s.meta["chunk_lens"] = list(s.meta.get("chunk_lens", [])) + [ln]
            data = VOpaque("bytes", ("slice", ("chunk", i), z3.IntVal(0), ln))
            ex.start(s, fn, [txref, VRef(s.alloc(data))])
            for f in ex.run(s):
                if f.status == "returned" and isinstance(f.retval, VEnum) and f.retval.concrete() == 0:
                    f.status = "running"
                    nxt.append(f)
                elif f.status in ("unsupported", "panic"):
                    nxt.append(f)
                elif f.status == "cut":
                    pass  # beyond the unrolling bound: stated as outside the claim
        states = nxt
    name = prefix + f"Transaction::write x{nchunks} then finish: hashed stream == staged stream == content; size == total length"
    for f in states:
        if f.status == "unsupported":
            return Obligation(name, ["C18"], "inconclusive", time.time() - t0, f.note, None, ex.queries - q0, len(states))
    # ... then the real commit: what counts is the stream the hash was FINALISED over and the bytes that reached the
    # staging file by the time it is renamed (buffering inside write - of file bytes or of hasher input - is legitimate)
    commit = find_fn(ex, "::commit", "transaction::")
    done, seen = [], set()
    for f in states:
        if f.status == "panic":
            done.append((f, None))
            continue
        txv = f.load(txref)
        size_t = txv.fields[I_SIZE].t
        # C18 / environment preconditions of a commit: a hash determines its content, hence its length
        for i in range(sw.iw.U):
            f.pc.append(z3.Implies(z3.And(sw.iw.pk[i], sw.iw.hk[i] == sw.op_hash), sw.iw.sk[i] == size_t))
        f.pc.append(sw.iw.total + size_t <= (1 << 64) - 1)
        f.meta.pop("finalized-over", None)
        ex.start(f, commit, [txv])
        for g in ex.run(f):
            if g.status == "unsupported":
                return Obligation(name, ["C18"], "inconclusive", time.time() - t0, g.note, None, ex.queries - q0, len(states))
            if g.status == "panic":
                done.append((g, None))
            elif g.status == "returned" and isinstance(g.retval, VEnum) and g.retval.concrete() == 0:
                sig = (str(g.meta.get("finalized-over")), str([e.get("data") for e in g.trace if e["kind"] == "io" and e["op"] == "write"
                                                                and e["path"][0] == "staging"]), str(g.meta.get("chunk_lens")))
                if sig not in seen:
                    seen.add(sig)
                    done.append((g, size_t))
    states = [g for g, _ in done]
    sizes = {id(g): sz for g, sz in done}

    def norm(chunks):
        out = []
        for d in chunks:
            while isinstance(d, tuple) and len(d) == 2 and d[0] in ("bytes", "chunk"):
                d = d[1]
            if isinstance(d, tuple) and len(d) == 2 and d[0] == "record" and isinstance(d[1], tuple):
                out += norm(list(d[1]))      # a byte vector assembled from several pieces (e.g. a batching buffer)
                continue
            if d == 0 or d == ("bytes", 0):
                continue                     # an empty byte vector
            out.append(d)
        return out

    n = 0
    for f in states:
        if f.status == "panic":
            r, m = ex.model_of(f.pc)
            return Obligation(name, ["C18"], "violated", time.time() - t0, "write panics: " + f.note,
                              {"chunk_lens": [m.eval(x, model_completion=True).as_long() for x in f.meta.get("chunk_lens", [])]} if m else None,
                              ex.queries - q0, len(states))
        hashed = norm(list(f.meta.get("finalized-over") or ()))
        ren = [i for i, e in enumerate(f.trace) if e["kind"] == "io" and e["op"] == "rename" and e.get("dst", ("",))[0] == "cas"]
        upto = ren[0] if ren else len(f.trace)
        ios = [e for e in f.trace[:upto] if e["kind"] == "io" and e["op"] == "write" and e["path"][0] == "staging"]
        written = []
        for e in ios:
            written += norm(e["data"])
        lens = f.meta.get("chunk_lens", [])
        # file offsets: every open file description has its own position (none of them is opened with O_APPEND); the staging
        # file is the chunks in order only if every write starts where all earlier writes - through ANY descriptor - ended
        fd_off, total_so_far, off_ok = {}, z3.IntVal(0), []
        for e in ios:
            ln = z3.IntVal(0)
            for dd in norm(e["data"]):
                if isinstance(dd, tuple) and dd and dd[0] == "slice":
                    ln = ln + dd[3]
            fd = e.get("fd")
            start = fd_off.get(fd, z3.IntVal(0))
            off_ok.append(z3.Or(ln == 0, start == total_so_far))
            fd_off[fd] = start + ln
            total_so_far = total_so_far + ln

        def total(seq):
            s_ = z3.IntVal(0)
            for d in seq:
                if isinstance(d, tuple) and d and d[0] == "slice":
                    s_ = s_ + d[3]
                else:
                    return None
            return s_
        th, tw = total(hashed), total(written)
        want = z3.Sum(lens) if lens else z3.IntVal(0)
        posts = {}
        if th is None or tw is None:
            import os
            if os.environ.get("VERIF_DEBUG"):
                print("DEBUG hashed", hashed, "written", written)
            posts["streams are made of slices of the written chunks"] = False
        else:
            posts["C18 the hash was finalised over exactly as many bytes as were written"] = th == want
            posts["C18 the staging file got exactly as many bytes as were written before it was renamed into cas/"] = tw == want
            # contiguity per chunk: slices of chunk i appear in order and cover [0, len_i)
            for seqname, seq in (("hasher", hashed), ("writer", written)):
                pos = {}
                okc = []
                order_ok = True
                last_chunk = -1
                for d in seq:
                    b = str(d[1])
                    okc.append(d[2] == pos.get(b, z3.IntVal(0)))
                    pos[b] = pos.get(b, z3.IntVal(0)) + d[3]
                    idx = d[1][1] if isinstance(d[1], tuple) and len(d[1]) == 2 and isinstance(d[1][1], int) else None
                    if idx is not None:
                        # bytes of a later write call must never precede bytes of an earlier one
                        # (empty slices carry no bytes and may appear anywhere)
                        if idx < last_chunk:
                            okc.append(d[3] == 0)
                        last_chunk = max(last_chunk, idx)
                posts[f"C18 {seqname} stream is the chunks in order without gaps"] = z3.And(okc) if okc else z3.BoolVal(True)
        posts["C18 recorded size == total length"] = sizes[id(f)] == want
        if len(fd_off) > 1:
            posts["C18/C06 every write to the staging file starts where the earlier ones ended (one file position per open descriptor)"] = z3.And(off_ok)
        for lab, post in posts.items():
            n += 1
            if isinstance(post, bool):
                if not post:
                    r0, m0 = ex.model_of(f.pc)
                    cex0 = {"chunk_lens": [m0.eval(x, model_completion=True).as_long() for x in lens] if m0 is not None else [3],
                            "abandon_first": bool(prefix), "detail": "bytes that are not part of the written chunks reach the hash or the staging file"}
                    return Obligation(name, ["C18"], "violated", time.time() - t0, lab, cex0, ex.queries - q0, len(states))
                continue
            r, m = ex.model_of(f.pc, z3.Not(post))
            if r == z3.sat:
                import os
                if os.environ.get("VERIF_DEBUG"):
                    print("DEBUG hashed", hashed, "written", written, "lens", lens, "th", th, "want", want)
                cex = {"chunk_lens": [m.eval(x, model_completion=True).as_long() for x in lens], "abandon_first": bool(prefix)}
                return Obligation(name, ["C18"], "violated", time.time() - t0, "post-condition fails: " + lab, cex, ex.queries - q0, len(states))
    if not states:
        return Obligation(name, ["C18"], "inconclusive", time.time() - t0, "no completed path", None, ex.queries - q0, 0)
    return Obligation(name, ["C18"], "discharged", time.time() - t0, f"{len(states)} paths, {n} post-condition queries", None,
                      ex.queries - q0, len(states))


def make_posts_commit_identity(ex):
    def posts(sw, f):
        """C18: the blob is placed at the path of the hash of exactly what was hashed (= the content);
        the index records that hash and the transaction's size"""
        out = {}
        rv = f.retval
        h = sw.op_hash
        ren = [e for e in f.trace if e["kind"] == "io" and e["op"] == "rename" and e.get("dst", ("",))[0] == "cas" and e["outcome"] == "ok"]
        for e in ren:
            out["C18 blob renamed to the path of the content's hash"] = e["dst"][1] == h
        out["C18 finalize() covers exactly the content"] = (f.meta.get("finalized-over") == (("content", ()),)) or not ren
        if isinstance(rv, VEnum) and rv.concrete() == 0:
            w = sw.iw
            post = w.snapshot_of(f, sw.state_ref)
            k = sw.op_key
            out["C18 index maps the key to the content's hash and length"] = z3.And(
                [z3.Implies(w.keys[i] == k, z3.And(post["pk"][i], post["hk"][i] == h, post["sk"][i] == sw.op_size)) for i in range(w.U)])
        return out
    return posts
