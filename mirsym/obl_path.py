"""C18(b) — hash <-> path mapping decided on the MIR of BlobHash::{relative_path, from_relative_path,
to_hex}: all 2^256 hashes at once (32 symbolic bytes).  hex::encode / hex::decode_to_slice, String
indexing and Path joins/components are library models (their contracts); what is decided is the
crate's own logic: which characters go into which component, in which order they are re-assembled,
how many trailing components are used."""
import time

import z3

from exec import (VInt, VBool, VUnit, VStruct, VEnum, VRef, VVec, VOpaque, VIter, State, Unsupported)
from world import find_fn
from obl_index import Obligation
from models import ok, err, some, none, deref_all, seq
from obl_replay import scoped_models


def install(ex):
    R = ex.models.reg

    def chars(st, v):
        v = deref_all(st, v)
        if isinstance(v, VStruct) and v.name in ("Str", "Component"):
            return v.fields[0]
        if isinstance(v, VVec):
            return v
        raise Unsupported(f"expected string-like value, got {v}")

    def m_encode(ex2, st, fr, c, a, d, r):
        b = deref_all(st, a[0])
        if isinstance(b, VStruct):
            b = b.fields[0]
        out = []
        for x in b.elems:
            out.append(VInt(x.t / 16, "hexchar"))
            out.append(VInt(x.t % 16, "hexchar"))
        return VStruct("Str", [VVec(out)])

    def m_index(ex2, st, fr, c, a, d, r):
        s = chars(st, a[0])
        rg = a[1]
        lo = z3.simplify(rg.fields[0].t).as_long()
        hi = z3.simplify(rg.fields[1].t).as_long() if len(rg.fields) > 1 else len(s.elems)
        if lo > hi or hi > len(s.elems):
            st.status, st.note = "panic", "string slice index out of range"
            return [st]
        return VRef(st.alloc(VStruct("Str", [VVec([e.clone() for e in s.elems[lo:hi]])])))

    def m_path_from(ex2, st, fr, c, a, d, r):
        return VStruct("PathV", [VVec([VStruct("Component", [chars(st, a[0]).clone()])])])

    def m_join(ex2, st, fr, c, a, d, r):
        p = deref_all(st, a[0])
        comps = [x.clone() for x in p.fields[0].elems] + [VStruct("Component", [chars(st, a[1]).clone()])]
        return VStruct("PathV", [VVec(comps)])

    def m_components(ex2, st, fr, c, a, d, r):
        p = deref_all(st, a[0])
        return VIter([(None, x.clone()) for x in p.fields[0].elems])

    def m_decode(ex2, st, fr, c, a, d, r):
        buf = chars(st, a[0])
        res = deref_all(st, a[1])
        if len(buf.elems) != 2 * len(res.elems):
            e = VEnum("FromHexError", 2, {2: []})
            return err(e)
        for i in range(len(res.elems)):
            res.elems[i] = VInt(buf.elems[2 * i].t * 16 + buf.elems[2 * i + 1].t, "u8")
        return ok(VUnit())

    R(["hex::encode", "encode"], m_encode)
    R(["String as Index::index"], m_index)
    R(["PathBuf as From::from"], m_path_from)
    R(["PathBuf as Deref::deref"], lambda ex2, st, fr, c, a, d, r: a[0])
    R(["Path::join"], m_join)
    R(["Path::components"], m_components)
    R(["Component::as_os_str", "OsStr::as_encoded_bytes"], lambda ex2, st, fr, c, a, d, r: VRef(st.alloc(chars(st, a[0]))) if not isinstance(a[0], VRef) else a[0])
    R(["hex::decode_to_slice", "decode_to_slice"], m_decode)
    R(["Vec::with_capacity"], lambda ex2, st, fr, c, a, d, r: VVec([]))
    ex.si.enums.setdefault("FromHexError", [("InvalidHexCharacter", ["c", "index"]), ("OddLength", []), ("InvalidStringLength", [])])


def ob_path_roundtrip(ex, prefix_components=0):
    with scoped_models(ex):
        install(ex)
        t0 = time.time()
        q0 = ex.queries
        st = State()
        bs = [z3.Int(f"hash_b{i}") for i in range(32)]
        for b in bs:
            st.pc += [b >= 0, b <= 255]
        h = VStruct("BlobHash", [VVec([VInt(b, "u8") for b in bs])])
        f1 = find_fn(ex, "::relative_path", "types::")
        ex.start(st, f1, [VRef(st.alloc(h))])
        finals = ex.run(st)
        name = "from_relative_path(relative_path(h)) == h for all 2^256 hashes; 2/2/60 layout" + (
            f"; {prefix_components} extra leading path component(s)" if prefix_components else "")
        outs = []
        for f in finals:
            if f.status != "returned":
                return Obligation(name, ["C18"], "inconclusive" if f.status in ("unsupported", "cut") else "violated", time.time() - t0,
                                  f"relative_path: {f.status}: {f.note}", None, ex.queries - q0, len(finals))
            p = f.retval
            comps = p.fields[0].elems
            lens = [len(c.fields[0].elems) for c in comps]
            if lens != [2, 2, 60]:
                return Obligation(name, ["C18"], "violated", time.time() - t0, f"path components have lengths {lens}, expected [2, 2, 60]",
                                  {"hash": "any"}, ex.queries - q0, len(finals))
            if prefix_components:
                pre = [VStruct("Component", [VVec([VInt(7, "hexchar")] * 3)]) for _ in range(prefix_components)]
                p = VStruct("PathV", [VVec(pre + [c.clone() for c in comps])])
            f.status = "running"
            f2 = find_fn(ex, "::from_relative_path", "types::")
            ex.start(f, f2, [VRef(f.alloc(p))])
            outs += ex.run(f)
        n = 0
        for f in outs:
            if f.status != "returned":
                return Obligation(name, ["C18"], "inconclusive" if f.status in ("unsupported", "cut") else "violated", time.time() - t0,
                                  f"from_relative_path: {f.status}: {f.note}", None, ex.queries - q0, len(outs))
            rv = f.retval
            if not (isinstance(rv, VEnum) and rv.concrete() == 0):
                r, m = ex.model_of(f.pc)
                cex = {"hash": [m.eval(b, model_completion=True).as_long() for b in bs]} if m else None
                return Obligation(name, ["C18"], "violated", time.time() - t0, "a path produced by relative_path does not parse back", cex,
                                  ex.queries - q0, len(outs))
            got = rv.payloads[0][0]
            gb = got.fields[0].elems if isinstance(got, VStruct) else []
            if len(gb) != 32:
                return Obligation(name, ["C18"], "violated", time.time() - t0, "parsed hash has the wrong length", None, ex.queries - q0, len(outs))
            post = z3.And([gb[i].t == bs[i] for i in range(32)])
            n += 1
            r, m = ex.model_of(f.pc, z3.Not(post))
            if r == z3.sat:
                cex = {"hash": [m.eval(b, model_completion=True).as_long() for b in bs],
                       "parsed": [m.eval(gb[i].t, model_completion=True).as_long() for i in range(32)]}
                return Obligation(name, ["C18"], "violated", time.time() - t0, "from_relative_path(relative_path(h)) != h", cex,
                                  ex.queries - q0, len(outs))
            if r != z3.unsat:
                return Obligation(name, ["C18"], "inconclusive", time.time() - t0, "solver unknown", None, ex.queries - q0, len(outs))
        if not outs:
            return Obligation(name, ["C18"], "inconclusive", time.time() - t0, "no path", None, ex.queries - q0, 0)
        return Obligation(name, ["C18"], "discharged", time.time() - t0, f"{len(outs)} paths, {n} queries over 32 symbolic bytes", None,
                          ex.queries - q0, len(outs))
