"""C18(b) — hash <-> path mapping decided on the MIR of BlobHash::{relative_path, from_relative_path,
to_hex}: all 2^256 hashes at once (32 symbolic bytes).  hex::encode / hex::decode_to_slice, String
indexing and Path joins/components are library models (their contracts); what is decided is the
crate's own logic: which characters go into which component, in which order they are re-assembled,
how many trailing components are used."""
import time

import z3

from exec import (VInt, VBool, VUnit, VStruct, VEnum, VRef, VVec, VOpaque, VIter, State, Unsupported)
from world import find_fn
from obl_index import Obligation
from models import ok, err, some, none, deref_all, seq
from obl_replay import scoped_models


def install(ex):
    R = ex.models.reg

    def chars(st, v):
        v = deref_all(st, v)
        if isinstance(v, VStruct) and v.name in ("Str", "Component"):
            return v.fields[0]
        if isinstance(v, VVec):
            return v
        raise Unsupported(f"expected string-like value, got {v}")

    def m_encode(ex2, st, fr, c, a, d, r):
        b = deref_all(st, a[0])
        if isinstance(b, VStruct):
            b = b.fields[0]
        out = []
        for x in b.elems:
            out.append(VInt(x.t / 16, "hexchar"))
            out.append(VInt(x.t % 16, "hexchar"))
        return VStruct("Str", [VVec(out)])

    def m_index(ex2, st, fr, c, a, d, r):
        s = chars(st, a[0])
        rg = a[1]
        lo = z3.simplify(rg.fields[0].t).as_long()
        hi = z3.simplify(rg.fields[1].t).as_long() if len(rg.fields) > 1 else len(s.elems)
        if lo > hi or hi > len(s.elems):
            st.status, st.note = "panic", "string slice index out of range"
            return [st]
        return VRef(st.alloc(VStruct("Str", [VVec([e.clone() for e in s.elems[lo:hi]])])))

    def m_path_from(ex2, st, fr, c, a, d, r):
        return VStruct("PathV", [VVec([VStruct("Component", [chars(st, a[0]).clone()])])])

    def m_join(ex2, st, fr, c, a, d, r):
        p = deref_all(st, a[0])
        comps = [x.clone() for x in p.fields[0].elems] + [VStruct("Component", [chars(st, a[1]).clone()])]
        return VStruct("PathV", [VVec(comps)])

    def m_components(ex2, st, fr, c, a, d, r):
        p = deref_all(st, a[0])
        return VIter([(None, x.clone()) for x in p.fields[0].elems])

    def m_decode(ex2, st, fr, c, a, d, r):
        buf = chars(st, a[0])
        res = deref_all(st, a[1])
        if len(buf.elems) != 2 * len(res.elems):
            e = VEnum("FromHexError", 2, {2: []})
            return err(e)
        for i in range(len(res.elems)):
            res.elems[i] = VInt(buf.elems[2 * i].t * 16 + buf.elems[2 * i + 1].t, "u8")
        return ok(VUnit())

    R(["hex::encode", "encode"], m_encode)
    R(["String as Index::index"], m_index)
    R(["PathBuf as From::from"], m_path_from)
    R(["PathBuf as Deref::deref"], lambda ex2, st, fr, c, a, d, r: a[0])
    R(["Path::join"], m_join)
    R(["Path::components"], m_components)
    R(["Component::as_os_str", "OsStr::as_encoded_bytes"], lambda ex2, st, fr, c, a, d, r: VRef(st.alloc(chars(st, a[0]))) if not isinstance(a[0], VRef) else a[0])
    R(["hex::decode_to_slice", "decode_to_slice"], m_decode)
    R(["Vec::with_capacity"], lambda ex2, st, fr, c, a, d, r: VVec([]))
    ex.si.enums.setdefault("FromHexError", [("InvalidHexCharacter", ["c", "index"]), ("OddLength", []), ("InvalidStringLength", [])])


def ob_path_roundtrip(ex, prefix_components=0):
    with scoped_models(ex):
        install(ex)
        t0 = time.time()
        q0 = ex.queries
        st = State()
        bs = [z3.Int(f"hash_b{i}") for i in range(32)]
        for b in bs:
            st.pc += [b >= 0, b <= 255]
        h = VStruct("BlobHash", [VVec([VInt(b, "u8") for b in bs])])
        f1 = find_fn(ex, "::relative_path", "types::")
        ex.start(st, f1, [VRef(st.alloc(h))])
        finals = ex.run(st)
        name = "from_relative_path(relative_path(h)) == h for all 2^256 hashes; 2/2/60 layout" + (
            f"; {prefix_components} extra leading path component(s)" if prefix_components else "")
        outs = []
        for f in finals:
            if f.status != "returned":
                return Obligation(name, ["C18"], "inconclusive" if f.status in ("unsupported", "cut") else "violated", time.time() - t0,
                                  f"relative_path: {f.status}: {f.note}", None, ex.queries - q0, len(finals))
            p = f.retval
            comps = p.fields[0].elems
            lens = [len(c.fields[0].elems) for c in comps]
            if lens != [2, 2, 60]:
                return Obligation(name, ["C18"], "violated", time.time() - t0, f"path components have lengths {lens}, expected [2, 2, 60]",
                                  {"hash": "any"}, ex.queries - q0, len(finals))
            if prefix_components:
                pre = [VStruct("Component", [VVec([VInt(7, "hexchar")] * 3)]) for _ in range(prefix_components)]
                p = VStruct("PathV", [VVec(pre + [c.clone() for c in comps])])
            f.status = "running"
            f2 = find_fn(ex, "::from_relative_path", "types::")
            ex.start(f, f2, [VRef(f.alloc(p))])
            outs += ex.run(f)
        n = 0
        for f in outs:
            if f.status != "returned":
                return Obligation(name, ["C18"], "inconclusive" if f.status in ("unsupported", "cut") else "violated", time.time() - t0,
                                  f"from_relative_path: {f.status}: {f.note}", None, ex.queries - q0, len(outs))
            rv = f.retval
            if not (isinstance(rv, VEnum) and rv.concrete() == 0):
                r, m = ex.model_of(f.pc)
                cex = {"hash": [m.eval(b, model_completion=True).as_long() for b in bs]} if m else None
                return Obligation(name, ["C18"], "violated", time.time() - t0, "a path produced by relative_path does not parse back", cex,
                                  ex.queries - q0, len(outs))
            got = rv.payloads[0][0]
            gb = got.fields[0].elems if isinstance(got, VStruct) else []
            if len(gb) != 32:
                return Obligation(name, ["C18"], "violated", time.time() - t0, "parsed hash has the wrong length", None, ex.queries - q0, len(outs))
            post = z3.And([gb[i].t == bs[i] for i in range(32)])
            n += 1
            r, m = ex.model_of(f.pc, z3.Not(post))
            if r == z3.sat:
                cex = {"hash": [m.eval(b, model_completion=True).as_long() for b in bs],
                       "parsed": [m.eval(gb[i].t, model_completion=True).as_long() for i in range(32)]}
                return Obligation(name, ["C18"], "violated", time.time() - t0, "from_relative_path(relative_path(h)) != h", cex,
                                  ex.queries - q0, len(outs))
            if r != z3.unsat:
                return Obligation(name, ["C18"], "inconclusive", time.time() - t0, "solver unknown", None, ex.queries - q0, len(outs))
        if not outs:
            return Obligation(name, ["C18"], "inconclusive", time.time() - t0, "no path", None, ex.queries - q0, 0)
        return Obligation(name, ["C18"], "discharged", time.time() - t0, f"{len(outs)} paths, {n} queries over 32 symbolic bytes", None,
                          ex.queries - q0, len(outs))


# ---- C16: BlobHash::from_relative_path is TOTAL on arbitrary paths -------------------------------------------
# The path is abstract: 0..4 components (a prefix of arbitrary further components does not matter to a parser that
# looks at the last three), every component an arbitrary byte string of symbolic length; as UTF-8 text it has a
# symbolic length and its character boundaries are unknown (a multi-byte character may sit anywhere).  Decided: no
# path of the function panics.  String/slice operations that can panic are modelled with their panic condition:
# str::split_at / slicing at a position that is not provably a character boundary, or beyond the end.

def install_abstract(ex, st0):
    R = ex.models.reg
    cnt = [0]

    def absbytes(tag):
        cnt[0] += 1
        n = z3.Int(f"{tag}_len{cnt[0]}")
        st0.pc += [n >= 0, n <= (1 << 20)]
        return VOpaque("bytes", ("slice", (tag, cnt[0]), z3.IntVal(0), n))

    def m_components(ex2, st, fr, c, a, d, r):
        p = deref_all(st, a[0])
        if not (isinstance(p, VOpaque) and p.tag == "abspath"):
            raise Unsupported(f"components of {p}")
        outs = []
        k = p.data["ncomp"]
        for n in range(0, 5):
            cond = (k == n) if n < 4 else (k >= 4)
            if not ex2.feasible(st.pc, cond):
                continue
            s2 = st.clone()
            s2.pc.append(cond)
            comps = [VStruct("Component", [VOpaque("bytes", ("slice", ("comp", i), z3.IntVal(0), p.data["clen"][i]))]) for i in range(n)]
            outs += ex2.finish_call(s2, d, r, VIter([(None, x) for x in comps]))
        return outs

    def m_to_str(ex2, st, fr, c, a, d, r):
        p = deref_all(st, a[0])
        if not (isinstance(p, VOpaque) and p.tag == "abspath"):
            raise Unsupported(f"to_str of {p}")
        outs = []
        s2 = st.clone()
        s2.pc.append(z3.Not(p.data["utf8"]))
        outs += ex2.finish_call(s2, d, r, none())
        st.pc.append(p.data["utf8"])
        outs += ex2.finish_call(st, d, r, some(VRef(st.alloc(VOpaque("absstr", {"len": p.data["slen"], "id": "path"})))))
        return outs

    def strv(st, v):
        s = deref_all(st, v)
        if not (isinstance(s, VOpaque) and s.tag == "absstr"):
            raise Unsupported(f"string operation on {s}")
        return s

    def m_split_at(ex2, st, fr, c, a, d, r):
        s = strv(st, a[0])
        mid, ln = a[1].t, s.data["len"]
        # std: panics unless mid <= len and is_char_boundary(mid); only 0 and len are boundaries of EVERY string
        safe = z3.Or(mid == 0, mid == ln)
        outs = []
        if ex2.feasible(st.pc, z3.Not(safe)):
            s2 = st.clone()
            s2.pc.append(z3.Not(safe))
            s2.status, s2.note = "panic", "str::split_at at a byte index that is not a character boundary (or beyond the end)"
            s2.meta["split_at"] = (mid, ln)
            outs.append(s2)
        st.pc.append(safe)
        left = VRef(st.alloc(VOpaque("absstr", {"len": mid, "id": "left"})))
        right = VRef(st.alloc(VOpaque("absstr", {"len": ln - mid, "id": "right"})))
        outs += ex2.finish_call(st, d, r, VStruct("tuple", [left, right]))
        return outs

    R(["Path::components"], m_components)
    R(["Path::to_str", "OsStr::to_str"], m_to_str)
    R(["str::len"], lambda ex2, st, fr, c, a, d, r: VInt(strv(st, a[0]).data["len"], "usize"))
    R(["str::is_empty"], lambda ex2, st, fr, c, a, d, r: VBool(strv(st, a[0]).data["len"] == 0))
    R(["str::split_at", "str::split_at_mut"], m_split_at)
    R(["str::as_bytes"], lambda ex2, st, fr, c, a, d, r: VRef(st.alloc(VOpaque("bytes", ("slice", ("str", strv(st, a[0]).data["id"]), z3.IntVal(0), strv(st, a[0]).data["len"])))))
    R(["Component::as_os_str", "OsStr::as_encoded_bytes"], lambda ex2, st, fr, c, a, d, r: (
        VRef(st.alloc(deref_all(st, a[0]).fields[0])) if isinstance(deref_all(st, a[0]), VStruct) else a[0]))
    R(["hex::decode_to_slice", "decode_to_slice"], lambda ex2, st, fr, c, a, d, r: VEnum("Result", z3.If(ex2.fresh("hexok", "bool"), z3.IntVal(0), z3.IntVal(1)),
                                                                                     {0: [VUnit()], 1: [VEnum("FromHexError", 2, {2: []})]}))
    ex.si.enums.setdefault("FromHexError", [("InvalidHexCharacter", ["c", "index"]), ("OddLength", []), ("InvalidStringLength", [])])


def ob_path_total(ex):
    with scoped_models(ex):
        t0 = time.time()
        q0 = ex.queries
        st = State()
        ncomp = z3.Int("path_ncomp")
        clen = [z3.Int(f"path_clen{i}") for i in range(4)]
        slen = z3.Int("path_strlen")
        utf8 = z3.Bool("path_is_utf8")
        st.pc += [ncomp >= 0, ncomp <= 64, slen >= 0, slen <= (1 << 20)] + [z3.And(c >= 0, c <= (1 << 16)) for c in clen]
        install_abstract(ex, st)
        p = VOpaque("abspath", {"ncomp": ncomp, "clen": clen, "slen": slen, "utf8": utf8})
        fn = find_fn(ex, "::from_relative_path", "types::")
        old_lb = ex.loop_bound
        ex.loop_bound = 6
        try:
            ex.start(st, fn, [VRef(st.alloc(p))])
            finals = ex.run(st)
        finally:
            ex.loop_bound = old_lb
        name = ("BlobHash::from_relative_path is total: no panic on ANY path (0..4+ components of arbitrary bytes and lengths, valid UTF-8 or not, "
                "multi-byte characters anywhere)")
        # a feasible panic path is a finding by itself, whatever the other paths run into
        for f in finals:
            if f.status == "panic":
                r, m = ex.model_of(f.pc)
                cex = {"violation": "path-panic", "detail": f.note}
                if m is not None:
                    cex["path_strlen"] = m.eval(slen, model_completion=True).as_long()
                    if "split_at" in f.meta:
                        cex["split_mid"] = m.eval(f.meta["split_at"][0], model_completion=True).as_long()
                        cex["split_len"] = m.eval(f.meta["split_at"][1], model_completion=True).as_long()
                return Obligation(name, ["C16"], "violated", time.time() - t0, "from_relative_path can panic: " + f.note, cex, ex.queries - q0, len(finals))
        for f in finals:
            if f.status in ("unsupported", "cut"):
                return Obligation(name, ["C16"], "inconclusive", time.time() - t0, f"{f.status}: {f.note}", None, ex.queries - q0, len(finals))
        if not finals:
            return Obligation(name, ["C16"], "inconclusive", time.time() - t0, "no path", None, ex.queries - q0, 0)
        return Obligation(name, ["C16"], "discharged", time.time() - t0, f"{len(finals)} paths, none panics", None, ex.queries - q0, len(finals))
