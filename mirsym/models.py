"""Library models for mirsym: the only hand-written semantics.

Each model is a few lines and is listed (by callee family) in the evidence of every check that
used it.  Maps are SMT arrays over a bounded key universe; locks and I/O become effect events;
closures passed to combinators are executed from their MIR.
"""
import re

import z3

from exec import (VInt, VBool, VSym, VUnit, VUninit, VOpaque, VFn, VStruct, VEnum, VRef, VVec, VMap,
                  VGuard, VIter, Value, Unsupported, strip_generics, base_type, type_args, int_range,
                  INT_BITS, is_int_ty)
from parse import match_close, split_top


class VMapSlot(Value):
    """`&mut V` pointing at the value stored under `key` in a VMap located at `mapref`"""
    __slots__ = ("mapref", "key", "path")

    def __init__(self, mapref, key, path=()):
        self.mapref, self.key, self.path = mapref, key, tuple(path)

    def __repr__(self):
        return f"&slot[{self.key}]{list(self.path) if self.path else ''}"


def some(v):
    return VEnum("Option", 1, {1: [v]})


def none():
    return VEnum("Option", 0, {0: []})


def ok(v):
    return VEnum("Result", 0, {0: [v]})


def err(e):
    return VEnum("Result", 1, {1: [e]})


def sym_option(cond, v):
    c = z3.simplify(cond)
    if z3.is_true(c):
        return some(v)
    if z3.is_false(c):
        return none()
    return VEnum("Option", z3.If(cond, z3.IntVal(1), z3.IntVal(0)), {0: [], 1: [v]})


# ---- map value shapes ---------------------------------------------------------------------------
# shape: ('int', ty) | ('sym', sort) | ('struct', name, [(colname, shape)])

def shape_cols(shape, prefix="v"):
    if shape[0] in ("int", "sym"):
        return [(prefix, shape)]
    out = []
    for cname, sh in shape[2]:
        out += shape_cols(sh, cname)
    return out


def shape_select(m, key):
    def go(shape, prefix):
        if shape[0] == "int":
            return VInt(z3.Select(m.cols[prefix], key), shape[1])
        if shape[0] == "sym":
            return VSym(z3.Select(m.cols[prefix], key), shape[1])
        return VStruct(shape[1], [go(sh, cname) for cname, sh in shape[2]])
    return go(m.vshape, "v")


def shape_store(m, key, val):
    def go(shape, prefix, v):
        if shape[0] in ("int", "sym"):
            m.cols[prefix] = z3.Store(m.cols[prefix], key, v.t)
        else:
            for (cname, sh), fv in zip(shape[2], v.fields):
                go(sh, cname, fv)
    go(m.vshape, "v", val)


def new_map(kind, vshape, present=None, cols=None, tag="m", ex=None):
    K = z3.IntSort()
    if present is None:
        present = z3.K(K, z3.BoolVal(False))
    if cols is None:
        cols = {}
        for cname, sh in shape_cols(vshape):
            srt = z3.IntSort()
            cols[cname] = z3.K(K, z3.IntVal(0))
    return VMap(kind, "K", present, cols, vshape)


def key_term(ex, st, v):
    while isinstance(v, VRef):
        v = st.load(v)
    if isinstance(v, VMapSlot):
        v = ex.models.slot_load(st, v)
    if isinstance(v, (VSym, VInt)):
        return v.t
    if isinstance(v, VOpaque) and v.tag == "bytes":
        ids = st.meta.setdefault("slice_ids", {})
        k = str(v.data)
        if k not in ids:
            ids[k] = ex.fresh("bytes_key")
        return ids[k]
    raise Unsupported(f"map key of type {type(v).__name__}: {v}")


class Models:
    def __init__(self):
        self.used = set()
        self.table = {}
        self.prefix_table = []
        self.io_hook = None      # set by checks that model I/O effects
        self.universe = []       # ordered key universe terms
        self.huniverse = []      # hash universe terms
        self.register_defaults()

    # state load/store patch for map slots
    def slot_load(self, st, slot):
        m = st.load(slot.mapref)
        return shape_select(m, slot.key)

    def install(self, ex):
        """patch State.load/store to understand VMapSlot refs"""
        import exec as E
        if getattr(E.State, "_slot_patched", False):
            return
        orig_load, orig_store = E.State.load, E.State.store
        models = self

        def load(self_st, ref):
            if isinstance(ref, VMapSlot):
                v = models.slot_load(self_st, VMapSlot(ref.mapref, ref.key))
                for i in ref.path:      # a field of the stored value (`item.blob_hash` through `get_mut`)
                    v = v.fields[i]
                return v
            return orig_load(self_st, ref)

        def store(self_st, ref, val):
            if isinstance(ref, VMapSlot):
                m = orig_load(self_st, ref.mapref)
                if ref.path:
                    whole = models.slot_load(self_st, VMapSlot(ref.mapref, ref.key))
                    tgt = whole
                    for i in ref.path[:-1]:
                        tgt = tgt.fields[i]
                    tgt.fields[ref.path[-1]] = val
                    val = whole
                shape_store(m, ref.key, val)
                return
            return orig_store(self_st, ref, val)
        E.State.load, E.State.store = load, store
        E.State._slot_patched = True
        orig_place_ref = E.Executor.place_ref

        def place_ref(self_ex, st, fr, p):
            if p[0] == "deref":
                r = place_ref(self_ex, st, fr, p[1])
                if isinstance(r, VMapSlot):
                    raise Unsupported("deref through a field of a map slot")
                v = st.load(r)
                if isinstance(v, VMapSlot):
                    return v
            if p[0] == "field" and p[1][0] != "downcast":
                r = place_ref(self_ex, st, fr, p[1])
                if isinstance(r, VMapSlot):
                    return VMapSlot(r.mapref, r.key, r.path + (p[2],))
                return VRef(r.cell, r.path + (p[2],))
            return orig_place_ref(self_ex, st, fr, p)
        E.Executor.place_ref = place_ref

    # ---- dispatch ----
    def reg(self, names, fn):
        for n in ([names] if isinstance(names, str) else names):
            self.table[n] = fn

    def call(self, ex, st, fr, callee, args, dref, ret_bb):
        c = strip_generics(callee).strip()
        key = self.canon(c)
        fn = self.table.get(key)
        if fn is None:
            for pat, f in self.prefix_table:
                if pat.search(key):
                    fn = f
                    break
        if fn is None:
            return None
        self.used.add(key)
        r = fn(ex, st, fr, callee, args, dref, ret_bb)
        if r is NotImplemented:
            return None
        if isinstance(r, list):
            return r
        # a plain value: store and continue
        return ex.finish_call(st, dref, ret_bb, r)

    @staticmethod
    def canon(c):
        """'<Result<(), E> as Try>::branch' -> 'Result as Try::branch'; 'HashMap::entry' stays"""
        if c.startswith("<") and " as " in c:
            close = match_close(c, 0)
            inner = c[1:close]
            # split at top-level ' as '
            depth = 0
            pos = -1
            i = 0
            while i < len(inner):
                ch = inner[i]
                if ch in "<([":
                    depth += 1
                elif ch in ")]" or (ch == ">" and inner[i - 1] != "-"):
                    depth -= 1
                elif depth == 0 and inner.startswith(" as ", i):
                    pos = i
                    break
                i += 1
            ty, trait = inner[:pos], inner[pos + 4:]
            method = c[close + 1:].lstrip(":")
            return f"{base_type_keep_ref(ty)} as {base_type(trait)}::{method}"
        if c.startswith("<"):
            close = match_close(c, 0)
            return base_type(c[1:close]) + c[close + 1:]
        c = re.sub(r"::<impl [^>]*>", "", c)
        parts = c.split("::")
        if len(parts) >= 2:
            return parts[-2] + "::" + parts[-1]
        return c

    # ---- registration of default models ----
    def register_defaults(self):
        R = self.reg
        # -- Vec / slices
        R("Vec::new", lambda ex, st, fr, c, a, d, r: VVec([]))
        R("Vec::with_capacity", m_vec_with_capacity)
        R("Vec::push", m_vec_push)
        R(["Vec::len", "slice::len"], lambda ex, st, fr, c, a, d, r: VInt(len(seq(st, a[0]).elems), "usize"))
        R(["Vec::is_empty", "slice::is_empty"], lambda ex, st, fr, c, a, d, r: VBool(len(seq(st, a[0]).elems) == 0))
        R(["Vec as Deref::deref", "Vec as DerefMut::deref_mut", "Vec::as_slice", "slice::iter"],
          lambda ex, st, fr, c, a, d, r: m_iter_or_ref(ex, st, c, a))
        R(["&Vec as IntoIterator::into_iter", "&[] as IntoIterator::into_iter"], m_into_iter_ref)
        R(["Iter as Iterator::next", "IntoIter as Iterator::next", "Values as Iterator::next",
           "Range as Iterator::next"], m_iter_next)
        R("Vec::retain", m_vec_retain)
        R("Vec::dedup_by_key", m_vec_dedup_by_key)
        R("Vec::dedup", m_vec_dedup)
        R("Vec as Clone::clone", lambda ex, st, fr, c, a, d, r: st.load(a[0]).clone())
        R("slice::contains", m_slice_contains)
        R("vec::from_elem", NotImplementedModel("from_elem"))
        R("Box::new_uninit", m_box_new_uninit)
        R("mem::size_of", m_size_of)
        R("num::to_le_bytes", lambda ex, st, fr, c, a, d, r: VOpaque("le-bytes", a[0].t))
        R("boxed::box_assume_init_into_vec_unsafe", m_box_into_vec)
        # -- Clone / Copy-ish
        R(["K as Clone::clone", "BlobHash as Clone::clone", "NonZero as Clone::clone",
           "Option as Clone::clone", "Config as Clone::clone", "DbPaths as Clone::clone",
           "PathBuf as Clone::clone", "DbStats as Clone::clone", "SyncMode as Clone::clone",
           "R as Clone::clone"],
          lambda ex, st, fr, c, a, d, r: st.load(a[0]).clone())
        # -- comparisons
        R(["BlobHash as PartialEq::eq", "&BlobHash as PartialEq::eq", "K as PartialEq::eq", "&K as PartialEq::eq"],
          lambda ex, st, fr, c, a, d, r: m_eq(ex, st, a, False))
        R(["BlobHash as PartialEq::ne"], lambda ex, st, fr, c, a, d, r: m_eq(ex, st, a, True))
        R(["NonZero as PartialEq::eq", "&u64 as PartialEq::eq", "&usize as PartialEq::eq"],
          lambda ex, st, fr, c, a, d, r: m_eq(ex, st, a, False))
        R(["NonZero as PartialEq::ne"], lambda ex, st, fr, c, a, d, r: m_eq(ex, st, a, True))
        R("NonZero as PartialOrd::gt", lambda ex, st, fr, c, a, d, r: m_cmp(ex, st, a, ">"))
        R("NonZero as PartialOrd::le", lambda ex, st, fr, c, a, d, r: m_cmp(ex, st, a, "<="))
        R("NonZero as PartialOrd::lt", lambda ex, st, fr, c, a, d, r: m_cmp(ex, st, a, "<"))
        R("NonZero as PartialOrd::ge", lambda ex, st, fr, c, a, d, r: m_cmp(ex, st, a, ">="))
        R("NonZero as Ord::max", lambda ex, st, fr, c, a, d, r: m_minmax(a, True))
        R("cmp::min", lambda ex, st, fr, c, a, d, r: m_minmax(a, False))
        R("cmp::max", lambda ex, st, fr, c, a, d, r: m_minmax(a, True))
        # -- NonZero / integers
        R("NonZero::get", lambda ex, st, fr, c, a, d, r: nz_get(a[0]))
        R("NonZero::new", m_nonzero_new)
        R("NonZero::saturating_add", m_nz_sat_add)
        R("num::saturating_sub", m_sat_sub)
        R(["u64 as Default::default", "usize as Default::default"],
          lambda ex, st, fr, c, a, d, r: VInt(0, c.split(" ")[0].lstrip("<")))
        # -- Option / Result combinators
        R("Result as Try::branch", m_try_branch)
        R("Option as Try::branch", m_try_branch_opt)
        R("Result as FromResidual::from_residual", m_from_residual)
        R("Result::map_err", m_map_err)
        R("Result::map", m_result_map)
        R("Result::ok", m_result_ok)
        R("Result::expect", m_result_expect)
        R("Result::unwrap", m_result_expect)
        R("Result::map_or", m_result_map_or)
        R("Option::is_some", lambda ex, st, fr, c, a, d, r: VBool(optval(st, a[0]).disc == 1))
        R("Option::is_none", lambda ex, st, fr, c, a, d, r: VBool(optval(st, a[0]).disc == 0))
        R("Option::unwrap", m_opt_unwrap)
        R("Option::expect", m_opt_unwrap)
        R("Option::copied", m_opt_copied)
        R("Option::as_ref", m_opt_as_ref)
        R("Option::as_mut", m_opt_as_ref)
        R("Option::take", m_opt_take)
        R("Option::map_or", m_opt_map_or)
        R("Option::is_none_or", m_opt_is_none_or)
        R("Option::is_some_and", m_opt_is_some_and)
        R("Option::ok_or", m_opt_ok_or)
        R("Option::ok_or_else", m_opt_ok_or_else)
        R("Option::and_then", m_opt_and_then)
        R("Option as Default::default", lambda ex, st, fr, c, a, d, r: none())
        R("bool::then_some", m_then_some)
        R("bool::then", m_bool_then)
        R("Option::map", m_opt_map)
        R("Option::unwrap_or", lambda ex, st, fr, c, a, d, r: fork_enum(ex, st, a[0], {
            1: lambda s, f: ex.finish_call(s, d, r, f[0]), 0: lambda s, f: ex.finish_call(s, d, r, a[1])}))
        R("Option::unwrap_or_default", lambda ex, st, fr, c, a, d, r: fork_enum(ex, st, a[0], {
            1: lambda s, f: ex.finish_call(s, d, r, f[0]), 0: lambda s, f: ex.finish_call(s, d, r, VInt(0, "u64"))}))
        R("Option::or", lambda ex, st, fr, c, a, d, r: fork_enum(ex, st, a[0], {
            1: lambda s, f: ex.finish_call(s, d, r, some(f[0])), 0: lambda s, f: ex.finish_call(s, d, r, a[1])}))
        R("Option::cloned", m_opt_copied)
        R("Option::unwrap_or_else", lambda ex, st, fr, c, a, d, r: fork_enum(ex, st, a[0], {
            1: lambda s, f: ex.finish_call(s, d, r, f[0]), 0: lambda s, f: ex.call_closure(s, a[1], [], d, r)}))
        R("Result::is_ok_and", lambda ex, st, fr, c, a, d, r: fork_enum(ex, st, a[0], {
            0: lambda s, f: ex.call_closure(s, a[1], [f[0]], d, r), 1: lambda s, f: ex.finish_call(s, d, r, VBool(False))}))
        R("Result::is_err_and", lambda ex, st, fr, c, a, d, r: fork_enum(ex, st, a[0], {
            1: lambda s, f: ex.call_closure(s, a[1], [f[0]], d, r), 0: lambda s, f: ex.finish_call(s, d, r, VBool(False))}))
        R("Result::is_ok", lambda ex, st, fr, c, a, d, r: VBool(optval(st, a[0]).disc == 0))
        R("Result::is_err", lambda ex, st, fr, c, a, d, r: VBool(optval(st, a[0]).disc == 1))
        R("Result::err", lambda ex, st, fr, c, a, d, r: fork_enum(ex, st, a[0], {
            1: lambda s, f: ex.finish_call(s, d, r, some(f[0])), 0: lambda s, f: ex.finish_call(s, d, r, none())}))
        R("Result::unwrap_or", lambda ex, st, fr, c, a, d, r: fork_enum(ex, st, a[0], {
            0: lambda s, f: ex.finish_call(s, d, r, f[0]), 1: lambda s, f: ex.finish_call(s, d, r, a[1])}))
        R("Result::and_then", lambda ex, st, fr, c, a, d, r: fork_enum(ex, st, a[0], {
            0: lambda s, f: ex.call_closure(s, a[1], [f[0]], d, r), 1: lambda s, f: ex.finish_call(s, d, r, err(f[0]))}))
        R("Result::or_else", lambda ex, st, fr, c, a, d, r: fork_enum(ex, st, a[0], {
            1: lambda s, f: ex.call_closure(s, a[1], [f[0]], d, r), 0: lambda s, f: ex.finish_call(s, d, r, ok(f[0]))}))
        R(["num::saturating_add"], lambda ex, st, fr, c, a, d, r: VInt(z3.If(a[0].t + a[1].t > int_range(a[0].ty)[1], int_range(a[0].ty)[1], a[0].t + a[1].t), a[0].ty))
        R(["num::checked_add"], lambda ex, st, fr, c, a, d, r: sym_option(a[0].t + a[1].t <= int_range(a[0].ty)[1], VInt(a[0].t + a[1].t, a[0].ty)))
        R(["num::checked_sub"], lambda ex, st, fr, c, a, d, r: sym_option(a[0].t - a[1].t >= int_range(a[0].ty)[0], VInt(a[0].t - a[1].t, a[0].ty)))
        def m_is_multiple_of(ex, st, fr, c, a, d, r):
            x, y = a[0].t, a[1].t
            rem = ex.binop(st, "Rem", VInt(x, a[0].ty), VInt(z3.If(y == 0, 1, y), a[0].ty)).t
            return VBool(z3.If(y == 0, x == 0, rem == 0))
        R(["num::is_multiple_of"], m_is_multiple_of)
        R(["num::wrapping_add"], lambda ex, st, fr, c, a, d, r: VInt(ex.wrap(a[0].t + a[1].t, a[0].ty), a[0].ty))
        R(["num::wrapping_sub"], lambda ex, st, fr, c, a, d, r: VInt(ex.wrap(a[0].t - a[1].t, a[0].ty), a[0].ty))
        R(["mem::take"], m_mem_take)
        R(["mem::replace"], m_mem_replace)
        R(["Vec::clear"], lambda ex, st, fr, c, a, d, r: (seq(st, a[0]).elems.clear(), VUnit())[1])
        R(["Vec::pop"], lambda ex, st, fr, c, a, d, r: (some(seq(st, a[0]).elems.pop()) if seq(st, a[0]).elems else none()))
        R(["Vec::extend_from_slice", "Vec::append"], m_vec_extend)
        R(["Vec::contains"], m_slice_contains)
        R(["Vec::first", "slice::first"], lambda ex, st, fr, c, a, d, r: m_seq_at(st, a[0], 0))
        R(["Vec::last", "slice::last"], lambda ex, st, fr, c, a, d, r: m_seq_at(st, a[0], -1))
        # -- maps
        R(["BTreeMap::insert", "HashMap::insert"], m_map_insert)
        R(["BTreeMap::remove", "HashMap::remove"], m_map_remove)
        R(["BTreeMap::get", "HashMap::get"], m_map_get)
        R(["HashMap::get_mut", "BTreeMap::get_mut"], m_map_get_mut)
        R(["BTreeMap::contains_key", "HashMap::contains_key"], m_map_contains)
        R(["HashMap::entry", "BTreeMap::entry"], m_map_entry)
        R(["Entry::or_insert_with", "Entry::or_insert_with_key"], m_entry_or_insert_with)
        R("Entry::and_modify", m_entry_and_modify)
        R("Entry::key", lambda ex, st, fr, c, a, d, r: _entry_parts(st, a[0])[1])
        R(["OccupiedEntry::get", "OccupiedEntry::get_mut", "OccupiedEntry::into_mut"],
          lambda ex, st, fr, c, a, d, r: VMapSlot(deref_ref(st, _entry_parts(st, a[0])[0]), key_term(ex, st, _entry_parts(st, a[0])[1])))
        R("OccupiedEntry::key", lambda ex, st, fr, c, a, d, r: _entry_parts(st, a[0])[1])
        R("VacantEntry::key", lambda ex, st, fr, c, a, d, r: _entry_parts(st, a[0])[1])
        R("OccupiedEntry::insert", lambda ex, st, fr, c, a, d, r: m_occupied_update(ex, st, fr, c, a, d, r, True))
        R(["OccupiedEntry::remove"], lambda ex, st, fr, c, a, d, r: m_occupied_update(ex, st, fr, c, a, d, r, False))
        R("VacantEntry::insert", m_vacant_insert)
        R("Option::insert", m_opt_insert)
        R("Option::replace", m_opt_replace)
        R("Option::get_or_insert_with", m_opt_get_or_insert_with)
        R("Result::transpose", m_result_transpose)
        R("Option::transpose", m_option_transpose)
        R("Entry::or_default", m_entry_or_default)
        R("Entry::or_insert", m_entry_or_insert)
        R(["BTreeMap::values", "HashMap::values", "BTreeMap::iter", "HashMap::iter",
           "&BTreeMap as IntoIterator::into_iter"], m_map_iter)
        R(["BTreeMap::keys", "HashMap::keys", "BTreeMap::into_keys", "HashMap::into_keys", "BTreeMap::into_values", "HashMap::into_values"],
          m_map_keys_iter)
        R(["Vec as Extend::extend", "Vec::extend"], m_vec_extend_iter)
        R("Values as Iterator::any", m_iter_any)
        R(["BTreeMap::len", "HashMap::len"], m_map_len)
        R(["BTreeMap::is_empty"], lambda ex, st, fr, c, a, d, r: VBool(m_map_len(ex, st, fr, c, a, d, r).t == 0))
        R(["BTreeMap::new", "BTreeMap as Default::default", "HashMap as Default::default",
           "HashMap::with_capacity_and_hasher", "HashSet as Default::default"], m_map_new)
        # HashSet / BTreeSet of keys or hashes: a map to unit
        R(["HashSet::new", "BTreeSet::new", "BTreeSet as Default::default", "HashSet::with_capacity"], m_map_new)
        R(["HashSet::insert", "BTreeSet::insert"], m_set_insert_g)
        R(["HashSet::contains", "BTreeSet::contains"], lambda ex, st, fr, c, a, d, r: VBool(z3.Select(the_map(st, a[0]).present, key_term(ex, st, a[1]))))
        R(["HashSet::remove", "BTreeSet::remove"], m_set_remove_g)
        R(["HashSet::len", "BTreeSet::len"], m_map_len)
        R(["HashSet::is_empty", "BTreeSet::is_empty"], lambda ex, st, fr, c, a, d, r: VBool(m_map_len(ex, st, fr, c, a, d, r).t == 0))
        R(["HashSet::clear", "BTreeSet::clear"], m_map_clear)
        R(["Vec as Default::default"], lambda ex, st, fr, c, a, d, r: VVec([]))
        R(["RandomState as Default::default"], lambda ex, st, fr, c, a, d, r: VOpaque("hasher"))
        R(["Values as Iterator::copied"], lambda ex, st, fr, c, a, d, r: a[0])
        R(["Copied as Iterator::sum"], m_iter_sum)
        self.prefix_table.append((re.compile(r" as Iterator::(map|filter|copied|cloned|enumerate|inspect)$"), m_iter_adapt))
        self.prefix_table.append((re.compile(r" as Iterator::(sum|count|collect|all|fold|max|min|last)$"), m_iter_consume))
        R(["Iter as ExactSizeIterator::len"], m_iter_len)
        R(["HashMap::clear", "BTreeMap::clear"], m_map_clear)
        R("BTreeMap::range", m_map_range)
        R("BTreeMap as Clone::clone", lambda ex, st, fr, c, a, d, r: st.load(a[0]).clone())
        # -- smart pointers / locks
        R("Arc::new", lambda ex, st, fr, c, a, d, r: VStruct("Arc", [a[0]]))
        R(["Arc as Deref::deref", "Cas as Deref::deref"], m_arc_deref)
        R("Arc as Clone::clone", lambda ex, st, fr, c, a, d, r: st.load(a[0]).clone())
        R(["Mutex::lock", "RwLock::read", "RwLock::write"], m_lock)
        R(["Mutex::new", "RwLock::new"], m_lock_new)
        R(["MutexGuard as Deref::deref", "MutexGuard as DerefMut::deref_mut", "RwLockReadGuard as Deref::deref",
           "RwLockWriteGuard as DerefMut::deref_mut", "RwLockWriteGuard as Deref::deref"], m_guard_deref)
        R("mem::drop", m_mem_drop)
        # -- closures / dyn Fn
        R(["F as FnOnce::call_once", "impl FnMut(WalOp<K>) as FnMut::call_mut", "dyn for<'a> Fn(&'a [BlobHash]) -> Result<(), CasManagerError> as Fn::call"],
          m_call_fnlike)
        self.prefix_table.append((re.compile(r" as Iterator::partition$"), m_iter_partition))
        # Clone of std containers (maps, sets, deques): a deep copy of the modelled value
        self.prefix_table.append((re.compile(r"^(HashMap|HashSet|BTreeSet|BTreeMap|VecDeque) as Clone::clone$"),
                                  lambda ex, st, fr, c, a, d, r: deref_all(st, a[0]).clone()))
        self.prefix_table.append((re.compile(r" as Fn(Once|Mut)?::call(_once|_mut)?$"), m_call_fnlike))
        self.prefix_table.append((re.compile(r" as IntoIterator::into_iter$"), m_into_iter_any))
        self.prefix_table.append((re.compile(r" as AsRef::as_ref$"), lambda ex, st, fr, c, a, d, r: a[0]))
        # -- formatting / panics / opaque
        R(["Argument::new_display", "Argument::new_debug", "Arguments::new", "fmt::format", "format",
           "Path::display", "Path::to_path_buf", "Path::join", "PathBuf as Deref::deref", "must_use",
           "BlobHash as ToString::to_string", "str as ToString::to_string"],
          lambda ex, st, fr, c, a, d, r: VOpaque("fmt"))
        self.prefix_table.append((re.compile(r" as AsDynError::as_dyn_error$"), lambda ex, st, fr, c, a, d, r: VOpaque("dynerr")))
        # generic Option<scalar> comparisons (refactors like `a != b` on Options, `highest.max(Some(v))`)
        self.prefix_table.append((re.compile(r"^&*Option as PartialEq::eq$"), lambda ex, st, fr, c, a, d, r: m_opt_eq(ex, st, a, False)))
        self.prefix_table.append((re.compile(r"^&*Option as PartialEq::ne$"), lambda ex, st, fr, c, a, d, r: m_opt_eq(ex, st, a, True)))
        for _op in ("lt", "le", "gt", "ge"):
            self.prefix_table.append((re.compile(r"^&*Option as PartialOrd::%s$" % _op),
                                      (lambda o: lambda ex, st, fr, c, a, d, r: m_opt_cmp(ex, st, a, o))(_op)))
        self.prefix_table.append((re.compile(r"^(u8|u16|u32|u64|usize|i32|i64) as Ord::max$"), lambda ex, st, fr, c, a, d, r: m_minmax(a, True)))
        self.prefix_table.append((re.compile(r"^(u8|u16|u32|u64|usize|i32|i64) as Ord::min$"), lambda ex, st, fr, c, a, d, r: m_minmax(a, False)))
        self.prefix_table.append((re.compile(r"^Option as Ord::max$"), lambda ex, st, fr, c, a, d, r: m_opt_minmax(ex, st, a, True)))
        self.prefix_table.append((re.compile(r"^Option as Ord::min$"), lambda ex, st, fr, c, a, d, r: m_opt_minmax(ex, st, a, False)))
        R(["panicking::assert_failed", "panicking::panic", "panicking::panic_fmt", "option::unwrap_failed",
           "result::unwrap_failed", "option::expect_failed"], m_panic)

    # hooks used by the executor
    def tuple_struct(self, ex, st, name, vals):
        if name == "BlobHash" and len(vals) == 1 and isinstance(vals[0], VSym):
            return vals[0]
        return None

    def ptr_metadata(self, ex, st, tgt):
        if isinstance(tgt, VStruct) and tgt.name == "RawSlice":
            return VInt(tgt.fields[0].t, "usize")
        if isinstance(tgt, VOpaque) and isinstance(tgt.data, tuple) and tgt.data and tgt.data[0] == "slice":
            return VInt(tgt.data[3], "usize")
        if isinstance(tgt, VOpaque):
            key = ("len", str(tgt.data)[:120])
            lens = st.meta.setdefault("oplens", {})
            if key not in lens:
                lens[key] = ex.new_int(st, "usize", "len").t
                st.pc.append(lens[key] <= (1 << 63) - 1)   # slice lengths never exceed isize::MAX
            return VInt(lens[key], "usize")
        raise Unsupported("PtrMetadata of " + type(tgt).__name__)

    def on_drop(self, ex, st, v):
        if self.io_hook is not None:
            self.io_hook.on_drop(ex, st, v)


def base_type_keep_ref(ty):
    t = ty.strip()
    pre = ""
    if t.startswith("&"):
        pre = "&"
        if t.startswith("&["):
            return "&[]"
    return pre + base_type(t)


def NotImplementedModel(why):
    def f(ex, st, fr, c, a, d, r):
        raise Unsupported(f"model not available: {why} ({strip_generics(c)})")
    return f


# ---- helpers ------------------------------------------------------------------------------------

def deref_all(st, v):
    while isinstance(v, (VRef, VMapSlot)):
        v = st.load(v)
    return v


def seq(st, v):
    v = deref_all(st, v)
    if not isinstance(v, VVec):
        raise Unsupported(f"expected sequence, got {type(v).__name__}")
    return v


def optval(st, v):
    v = deref_all(st, v)
    if not isinstance(v, VEnum):
        raise Unsupported(f"expected enum, got {v}")
    return v


def nz_get(v):
    if isinstance(v, VInt):
        return VInt(v.t, "u64")
    if isinstance(v, VStruct) and v.fields:
        return nz_get(v.fields[0])
    raise Unsupported(f"NonZero::get of {v}")


def scalar(st, v):
    v = deref_all(st, v)
    if isinstance(v, VStruct) and len(v.fields) == 1:
        return scalar(st, v.fields[0])
    return v


def m_eq(ex, st, a, negate):
    x, y = scalar(st, a[0]), scalar(st, a[1])
    if isinstance(x, (VInt, VSym, VBool)) and isinstance(y, (VInt, VSym, VBool)):
        e = x.t == y.t
        return VBool(z3.Not(e) if negate else e)
    raise Unsupported(f"eq on {x} / {y}")


def m_cmp(ex, st, a, op):
    x, y = scalar(st, a[0]), scalar(st, a[1])
    t = {">": x.t > y.t, "<": x.t < y.t, ">=": x.t >= y.t, "<=": x.t <= y.t}[op]
    return VBool(t)


def m_minmax(a, is_max):
    x, y = a[0], a[1]
    if isinstance(x, VInt) and isinstance(y, VInt):
        return VInt(z3.If(x.t >= y.t, x.t, y.t) if is_max else z3.If(x.t <= y.t, x.t, y.t), x.ty)
    raise Unsupported("min/max on non-integers")


def _opt_parts(st, v):
    """Option<scalar> -> (disc term, payload scalar value or None)"""
    e = optval(st, v)
    pl = e.payloads.get(1) or []
    p = scalar(st, pl[0]) if pl else None
    if p is not None and not isinstance(p, (VInt, VSym, VBool)):
        raise Unsupported(f"comparison of Option<{type(p).__name__}>")
    return e.disc, p


def m_opt_eq(ex, st, a, negate):
    """<Option<T> as PartialEq>::eq / ne for scalar T (integers, keys, hashes, references to them)"""
    dx, px = _opt_parts(st, a[0])
    dy, py = _opt_parts(st, a[1])
    same = dx == dy
    if px is not None and py is not None:
        same = z3.And(same, z3.Implies(dx == 1, px.t == py.t))
    return VBool(z3.Not(same) if negate else same)


def m_opt_cmp(ex, st, a, op):
    """<Option<T> as PartialOrd>::lt/le/gt/ge: None < Some(_), Some by payload"""
    dx, px = _opt_parts(st, a[0])
    dy, py = _opt_parts(st, a[1])
    if (px is not None and not isinstance(px, VInt)) or (py is not None and not isinstance(py, VInt)):
        raise Unsupported("ordering of Option<non-integer>")
    x = px.t if px is not None else z3.IntVal(0)
    y = py.t if py is not None else z3.IntVal(0)
    lt = z3.Or(dx < dy, z3.And(dx == 1, dy == 1, x < y))
    eq = z3.And(dx == dy, z3.Implies(dx == 1, x == y))
    t = {"lt": lt, "le": z3.Or(lt, eq), "gt": z3.Not(z3.Or(lt, eq)), "ge": z3.Not(lt)}[op]
    return VBool(t)


def m_opt_minmax(ex, st, a, is_max):
    """<Option<T> as Ord>::max / min for integer T (arguments by value)"""
    dx, px = _opt_parts(st, a[0])
    dy, py = _opt_parts(st, a[1])
    if (px is not None and not isinstance(px, VInt)) or (py is not None and not isinstance(py, VInt)):
        raise Unsupported("min/max of Option<non-integer>")
    ty = (px or py).ty if (px or py) is not None else "u64"
    x = px.t if px is not None else z3.IntVal(0)
    y = py.t if py is not None else z3.IntVal(0)
    both = z3.And(dx == 1, dy == 1)
    if is_max:
        disc = z3.If(z3.Or(dx == 1, dy == 1), 1, 0)
        val = z3.If(both, z3.If(x >= y, x, y), z3.If(dx == 1, x, y))
    else:
        disc = z3.If(both, 1, 0)
        val = z3.If(x <= y, x, y)
    return sym_option(disc == 1, VInt(val, ty))


def m_nonzero_new(ex, st, fr, c, a, d, r):
    x = a[0]
    return sym_option(x.t != 0, VInt(x.t, "u64"))


def m_nz_sat_add(ex, st, fr, c, a, d, r):
    x, y = nz_get(a[0]), a[1]
    hi = (1 << 64) - 1
    s = x.t + y.t
    return VInt(z3.If(s > hi, z3.IntVal(hi), s), "u64")


def m_sat_sub(ex, st, fr, c, a, d, r):
    x, y = a[0], a[1]
    s = x.t - y.t
    return VInt(z3.If(s < 0, z3.IntVal(0), s), x.ty)


# ---- Vec -------------------------------------------------------------------------------------------

def m_vec_with_capacity(ex, st, fr, c, a, d, r):
    v = VVec([])
    v.cap_req = a[0].t
    m = re.search(r"Vec::<(.*)>::with_capacity", c)
    st.event("alloc", what="Vec::with_capacity", n=a[0].t, elem=(m.group(1) if m else "?"), where=fr.fn.name.split("::")[-1])
    return v


def m_vec_push(ex, st, fr, c, a, d, r):
    seq(st, a[0]).elems.append(a[1])
    return VUnit()


def m_size_of(ex, st, fr, c, a, d, r):
    m = re.search(r"size_of::<(.*)>$", c.strip())
    ty = m.group(1) if m else "?"
    if ty in INT_BITS:
        return VInt(INT_BITS[ty] // 8, "usize")
    raise Unsupported("size_of::<%s>" % ty)


def m_box_new_uninit(ex, st, fr, c, a, d, r):
    """the `vec![..]` lowering: Box<MaybeUninit<[T;N]>> whose payload slot is written through a raw ptr"""
    cell = st.alloc(VStruct("MaybeUninit", [VUninit(), VStruct("ManuallyDrop", [VStruct("MaybeDangling", [VUninit()])])]))
    return VStruct("Box", [VStruct("Unique", [VRef(cell)])])


def m_box_into_vec(ex, st, fr, c, a, d, r):
    b = a[0]
    ref = b.fields[0].fields[0]
    arr = st.load(VRef(ref.cell, ref.path + (1, 0, 0)))
    if not isinstance(arr, VVec):
        raise Unsupported("box_assume_init_into_vec_unsafe on uninitialised box")
    return arr.clone()


def m_iter_or_ref(ex, st, c, a):
    if strip_generics(c).endswith("::iter"):
        v = deref_all(st, a[0])
        base = a[0]
        while isinstance(st.load(base), VRef):
            base = st.load(base)
        return VIter([(None, VRef(base.cell, base.path + (i,))) for i in range(len(v.elems))])
    return a[0]  # deref to slice: same sequence


def m_into_iter_ref(ex, st, fr, c, a, d, r):
    base = a[0]
    v = st.load(base)
    while isinstance(v, VRef):
        base = v
        v = st.load(base)
    if isinstance(v, VMap):
        return m_map_iter(ex, st, fr, c, [base], d, r)
    if isinstance(v, VIter) or (isinstance(v, VStruct) and v.name in ("Range", "ChunksExact", "Chunks", "SegmentReader")):
        return a[0]   # `&mut I` is itself an iterator
    return VIter([(None, VRef(base.cell, base.path + (i,))) for i in range(len(v.elems))])


def m_into_iter_any(ex, st, fr, c, a, d, r):
    v = a[0]
    if isinstance(v, VIter) or (isinstance(v, VStruct) and v.name in ("Range", "SegmentReader")):
        return v
    if isinstance(v, VRef):
        return m_into_iter_ref(ex, st, fr, c, a, d, r)
    if isinstance(v, VVec):
        return VIter([(None, e) for e in v.elems])
    if isinstance(v, VMap):
        # consuming iteration: (K, V) pairs BY VALUE, in key order
        items = []
        for u in map_domain(ex, v):
            ksym = VSym(u, v.ksort) if v.ksort in ("K", "H") else VInt(u, "u64")
            val = shape_select(v, u)
            item = ksym if v.vshape in (("int", "u8"), None) else VStruct("tuple", [ksym, val])
            items.append((z3.Select(v.present, u), item))
        return VIter(items, "map")
    raise Unsupported(f"into_iter on {v}")


def m_iter_next(ex, st, fr, c, a, d, r):
    it = st.load(a[0])
    if isinstance(it, VStruct) and it.name == "Range":
        return m_range_next(ex, st, fr, c, a, d, r)
    if not isinstance(it, VIter):
        raise Unsupported(f"next() on {it}")
    outs = []
    cur = st
    pos = it.pos
    while True:
        if pos >= len(it.items):
            cur.load(a[0]).pos = pos
            outs += ex.finish_call(cur, d, r, none())
            return outs
        cond, val = it.items[pos]
        if cond is None or z3.is_true(z3.simplify(cond)):
            cur.load(a[0]).pos = pos + 1
            outs += ex.finish_call(cur, d, r, some(val.clone()))
            return outs
        if ex.feasible(cur.pc, cond):
            s2 = cur.clone()
            s2.pc.append(cond)
            s2.load(a[0]).pos = pos + 1
            outs += ex.finish_call(s2, d, r, some(val.clone()))
        nc = z3.Not(cond)
        if not ex.feasible(cur.pc, nc):
            return outs
        cur.pc.append(nc)
        pos += 1


def m_range_next(ex, st, fr, c, a, d, r):
    rg = st.load(a[0])
    cur, end = rg.fields[0], rg.fields[1]
    cnt = st.meta.get("range_iters", 0)
    outs = []
    more = cur.t < end.t
    if ex.feasible(st.pc, more):
        if cnt >= ex.loop_bound:
            s3 = st.clone()
            s3.pc.append(more)
            s3.status, s3.note = "cut", f"loop bound {ex.loop_bound} reached in {fr.fn.name.split('::')[-1]}"
            outs.append(s3)
        else:
            s2 = st.clone()
            s2.pc.append(more)
            s2.meta["range_iters"] = cnt + 1
            s2.load(a[0]).fields[0] = VInt(cur.t + 1, cur.ty)
            outs += ex.finish_call(s2, d, r, some(VInt(cur.t, cur.ty)))
    if ex.feasible(st.pc, z3.Not(more)):
        st.pc.append(z3.Not(more))
        outs += ex.finish_call(st, d, r, none())
    return outs


def m_vec_retain(ex, st, fr, c, a, d, r):
    """Vec::retain(&mut v, f): run f's MIR on every element in order, fork on the verdict"""
    vref, clos = a[0], a[1]
    v = seq(st, vref)
    n = len(v.elems)
    closref = VRef(st.alloc(clos))
    keepcell = st.alloc(VVec([]))

    def step(ex, s, i):
        if i == n:
            kept = s.cells[keepcell]
            seq(s, vref).elems[:] = kept.elems
            return ex.finish_call(s, d, r, VUnit())
        elem_ref = VRef(deref_ref(s, vref).cell, deref_ref(s, vref).path + (i,))
        tmp = VRef(s.alloc(VUninit()))

        def after(ex2, s2, rv, i=i):
            outs = []
            keep = rv.t
            for cond, k in ((keep, True), (z3.Not(keep), False)):
                cs = z3.simplify(cond)
                if z3.is_false(cs):
                    continue
                if not z3.is_true(cs) and not ex2.feasible(s2.pc, cond):
                    continue
                s3 = s2.clone()
                if not z3.is_true(cs):
                    s3.pc.append(cond)
                if k:
                    s3.cells[keepcell].elems.append(seq(s3, vref).elems[i].clone())
                outs += step(ex2, s3, i + 1)
            return outs
        return ex.call_closure(s, closref, [elem_ref], tmp, s.frames[-1].bb, tag=after)
    return step(ex, st, 0)


def _dedup_with_keys(ex, s, vref, keys, d, r):
    """remove CONSECUTIVE elements whose key equals the key of the last kept element (std Vec::dedup*); the
    comparisons are symbolic: fork on every adjacent pair"""
    v = seq(s, vref)
    n = len(v.elems)
    outs = []

    def go(s2, i, kept):
        if i == n:
            vv = seq(s2, vref)
            vv.elems[:] = [vv.elems[j] for j in kept]
            return ex.finish_call(s2, d, r, VUnit())
        if not kept:
            return go(s2, i + 1, [i])
        same = keys[i].t == keys[kept[-1]].t
        res = []
        for cond, drop in ((same, True), (z3.Not(same), False)):
            if not ex.feasible(s2.pc, cond):
                continue
            s3 = s2.clone()
            s3.pc.append(cond)
            res += go(s3, i + 1, kept if drop else kept + [i])
        return res
    return go(s, 0, [])


def m_vec_dedup_by_key(ex, st, fr, c, a, d, r):
    vref, clos = a[0], a[1]
    n = len(seq(st, vref).elems)
    closref = VRef(st.alloc(clos))
    keycell = st.alloc(VVec([]))

    def step(ex, s, i):
        if i == n:
            keys = [scalar(s, k) for k in s.cells[keycell].elems]
            if not all(isinstance(k, (VInt, VSym, VBool)) for k in keys):
                raise Unsupported("dedup_by_key with a non-scalar key")
            return _dedup_with_keys(ex, s, vref, keys, d, r)
        base = deref_ref(s, vref)
        elem_ref = VRef(base.cell, base.path + (i,))
        tmp = VRef(s.alloc(VUninit()))

        def after(ex2, s2, rv, i=i):
            s2.cells[keycell].elems.append(rv)
            return step(ex2, s2, i + 1)
        return ex.call_closure(s, closref, [elem_ref], tmp, s.frames[-1].bb, tag=after)
    return step(ex, st, 0)


def m_vec_dedup(ex, st, fr, c, a, d, r):
    keys = [scalar(st, e) for e in seq(st, a[0]).elems]
    if not all(isinstance(k, (VInt, VSym, VBool)) for k in keys):
        raise Unsupported("Vec::dedup on non-scalar elements")
    return _dedup_with_keys(ex, st, a[0], keys, d, r)


def deref_ref(st, ref):
    while isinstance(st.load(ref), VRef):
        ref = st.load(ref)
    return ref


def m_slice_contains(ex, st, fr, c, a, d, r):
    v = seq(st, a[0])
    x = scalar(st, a[1])
    return VBool(z3.Or([e.t == x.t for e in v.elems]) if v.elems else z3.BoolVal(False))


# ---- Option / Result ---------------------------------------------------------------------------------

def fork_enum(ex, st, e, handlers):
    """handlers: {variant_idx: fn(state, fields)->[states]}; forks on a symbolic discriminant"""
    cidx = e.concrete()
    if cidx is not None:
        return handlers[cidx](st, e.payloads.get(cidx, []))
    outs = []
    idxs = list(handlers)
    for n, i in enumerate(idxs):
        cond = e.disc == i
        if not ex.feasible(st.pc, cond):
            continue
        s2 = st.clone()
        s2.pc.append(cond)
        outs += handlers[i](s2, [f.clone() for f in e.payloads.get(i, [])])
    return outs


def m_try_branch(ex, st, fr, c, a, d, r):
    e = a[0]
    return fork_enum(ex, st, e, {
        0: lambda s, f: ex.finish_call(s, d, r, VEnum("ControlFlow", 0, {0: [f[0]]})),
        1: lambda s, f: ex.finish_call(s, d, r, VEnum("ControlFlow", 1, {1: [err(f[0])]})),
    })


def m_try_branch_opt(ex, st, fr, c, a, d, r):
    e = a[0]
    return fork_enum(ex, st, e, {
        1: lambda s, f: ex.finish_call(s, d, r, VEnum("ControlFlow", 0, {0: [f[0]]})),
        0: lambda s, f: ex.finish_call(s, d, r, VEnum("ControlFlow", 1, {1: [none()]})),
    })


def m_from_residual(ex, st, fr, c, a, d, r):
    """<Result<T,E2> as FromResidual<Result<Infallible,E1>>>::from_residual(Err(e)) = Err(E2::from(e))"""
    cc = strip_generics(c)
    e = a[0]
    payload = e.payloads[1][0]
    m = re.match(r"<Result<(.*)> as FromResidual<Result<Infallible, (.*)>>>::from_residual", cc)
    if m:
        tys = split_top(m.group(1))
        e2, e1 = base_type(tys[-1]), base_type(m.group(2))
        if e1 != e2:
            f = ex.from_impls.get((e1, e2))
            if f is None:
                return ex.finish_call(st, d, r, err(VOpaque("converted-error", (e1, e2))))
            tmp = VRef(st.alloc(VUninit()))

            def after(ex2, s2, rv):
                return ex2.finish_call(s2, d, r, err(rv))
            return ex.push_call(st, f, [payload], tmp, fr.bb, tag=after)
    return ex.finish_call(st, d, r, err(payload))


def m_map_err(ex, st, fr, c, a, d, r):
    e, f = a[0], a[1]

    def on_err(s, flds):
        tmp = VRef(s.alloc(VUninit()))

        def after(ex2, s2, rv):
            return ex2.finish_call(s2, d, r, err(rv))
        return ex.call_closure(s, f, [flds[0]], tmp, s.frames[-1].bb, tag=after)
    return fork_enum(ex, st, e, {0: lambda s, flds: ex.finish_call(s, d, r, ok(flds[0])), 1: on_err})


def m_result_map(ex, st, fr, c, a, d, r):
    e, f = a[0], a[1]

    def on_ok(s, flds):
        tmp = VRef(s.alloc(VUninit()))

        def after(ex2, s2, rv):
            return ex2.finish_call(s2, d, r, ok(rv))
        return ex.call_closure(s, f, [flds[0]], tmp, s.frames[-1].bb, tag=after)
    return fork_enum(ex, st, e, {0: on_ok, 1: lambda s, flds: ex.finish_call(s, d, r, err(flds[0]))})


def m_result_ok(ex, st, fr, c, a, d, r):
    e = a[0]
    return fork_enum(ex, st, e, {0: lambda s, f: ex.finish_call(s, d, r, some(f[0])),
                                 1: lambda s, f: ex.finish_call(s, d, r, none())})


def m_result_expect(ex, st, fr, c, a, d, r):
    e = a[0]

    def bad(s, f):
        s.status, s.note = "panic", f"{strip_generics(c).split('::')[-1]}() on Err in {fr.fn.name.split('::')[-1]}: {a[1] if len(a) > 1 else ''}"
        return [s]
    return fork_enum(ex, st, e, {0: lambda s, f: ex.finish_call(s, d, r, f[0]), 1: bad})


def m_result_map_or(ex, st, fr, c, a, d, r):
    e, default, f = a[0], a[1], a[2]

    def on_ok(s, flds):
        return ex.call_closure(s, f, [flds[0]], d, r)
    return fork_enum(ex, st, e, {0: on_ok, 1: lambda s, flds: ex.finish_call(s, d, r, default)})


def m_then_some(ex, st, fr, c, a, d, r):
    """b.then_some(v): v is dropped (guards released, ...) when b is false"""
    from exec import _has_droppable
    if not _has_droppable(a[1]):
        return sym_option(a[0].t, a[1])
    outs = []
    b = a[0].t
    if ex.feasible(st.pc, b):
        s2 = st.clone()
        s2.pc.append(b)
        outs += ex.finish_call(s2, d, r, some(a[1].clone()))
    if ex.feasible(st.pc, z3.Not(b)):
        st.pc.append(z3.Not(b))
        for s3 in ex.drop_value(st, a[1], None):
            outs += ex.finish_call(s3, d, r, none())
    return outs


def m_bool_then(ex, st, fr, c, a, d, r):
    outs = []
    b = a[0].t
    if ex.feasible(st.pc, b):
        s2 = st.clone()
        s2.pc.append(b)
        tmp = VRef(s2.alloc(VUninit()))
        outs += ex.call_closure(s2, a[1], [], tmp, s2.frames[-1].bb,
                                tag=lambda ex2, s3, rv: ex2.finish_call(s3, d, r, some(rv)))
    if ex.feasible(st.pc, z3.Not(b)):
        st.pc.append(z3.Not(b))
        outs += ex.finish_call(st, d, r, none())
    return outs


def m_opt_map(ex, st, fr, c, a, d, r):
    e, f = a[0], a[1]

    def on_some(s, flds):
        tmp = VRef(s.alloc(VUninit()))
        return ex.call_closure(s, f, [flds[0]], tmp, s.frames[-1].bb,
                               tag=lambda ex2, s2, rv: ex2.finish_call(s2, d, r, some(rv)))
    return fork_enum(ex, st, e, {1: on_some, 0: lambda s, flds: ex.finish_call(s, d, r, none())})


def m_mem_take(ex, st, fr, c, a, d, r):
    old = st.load(a[0])
    if isinstance(old, VVec):
        new = VVec([])
    elif isinstance(old, VEnum) and old.name == "Option":
        new = none()
    elif isinstance(old, VInt):
        new = VInt(0, old.ty)
    elif isinstance(old, VBool):
        new = VBool(False)
    else:
        raise Unsupported(f"mem::take of {type(old).__name__}")
    st.store(a[0], new)
    return old


def m_mem_replace(ex, st, fr, c, a, d, r):
    old = st.load(a[0])
    st.store(a[0], a[1])
    return old


def m_vec_extend(ex, st, fr, c, a, d, r):
    dst = deref_all(st, a[0])
    src = deref_all(st, a[1])
    if isinstance(dst, VVec) and isinstance(src, VVec):
        dst.elems.extend(e.clone() for e in src.elems)
        return VUnit()
    if isinstance(dst, VVec) and isinstance(src, VOpaque):
        dst.elems.append(VOpaque("chunk", (src.tag, src.data)))   # an opaque run of bytes
        return VUnit()
    raise Unsupported("extend on non-sequence values")


def m_seq_at(st, ref, i):
    v = seq(st, ref)
    if not v.elems:
        return none()
    base = deref_ref(st, ref) if isinstance(ref, VRef) else None
    idx = i if i >= 0 else len(v.elems) - 1
    return some(VRef(base.cell, base.path + (idx,))) if base is not None else some(v.elems[idx])


def m_opt_unwrap(ex, st, fr, c, a, d, r):
    e = a[0]

    def bad(s, f):
        s.status, s.note = "panic", f"unwrap/expect on None in {fr.fn.name.split('::')[-1]}"
        return [s]
    return fork_enum(ex, st, e, {1: lambda s, f: ex.finish_call(s, d, r, f[0]), 0: bad})


def m_opt_copied(ex, st, fr, c, a, d, r):
    e = a[0]
    if 1 in e.payloads and e.payloads[1]:
        inner = e.payloads[1][0]
        val = deref_all(st, inner).clone()
        return VEnum("Option", e.disc, {0: [], 1: [val]})
    return e


def m_opt_as_ref(ex, st, fr, c, a, d, r):
    ref = a[0]
    e = st.load(ref)
    if 1 in e.payloads and e.payloads[1]:
        return VEnum("Option", e.disc, {0: [], 1: [VRef(ref.cell, ref.path + (("v", 1, 0),))]})
    return none()


def m_opt_take(ex, st, fr, c, a, d, r):
    ref = a[0]
    e = st.load(ref)
    st.store(ref, none())
    return e


def m_opt_map_or(ex, st, fr, c, a, d, r):
    e, default, f = a[0], a[1], a[2]
    return fork_enum(ex, st, e, {1: lambda s, flds: ex.call_closure(s, f, [flds[0]], d, r),
                                 0: lambda s, flds: ex.finish_call(s, d, r, default)})


def m_opt_is_none_or(ex, st, fr, c, a, d, r):
    e, f = a[0], a[1]
    return fork_enum(ex, st, e, {1: lambda s, flds: ex.call_closure(s, f, [flds[0]], d, r),
                                 0: lambda s, flds: ex.finish_call(s, d, r, VBool(True))})


def m_opt_is_some_and(ex, st, fr, c, a, d, r):
    e, f = a[0], a[1]
    return fork_enum(ex, st, e, {1: lambda s, flds: ex.call_closure(s, f, [flds[0]], d, r),
                                 0: lambda s, flds: ex.finish_call(s, d, r, VBool(False))})


def m_opt_ok_or(ex, st, fr, c, a, d, r):
    e, dflt = a[0], a[1]
    return fork_enum(ex, st, e, {1: lambda s, flds: ex.finish_call(s, d, r, ok(flds[0])),
                                 0: lambda s, flds: ex.finish_call(s, d, r, err(dflt))})


def m_opt_ok_or_else(ex, st, fr, c, a, d, r):
    e, f = a[0], a[1]

    def on_none(s, flds):
        tmp = VRef(s.alloc(VUninit()))

        def after(ex2, s2, rv):
            return ex2.finish_call(s2, d, r, err(rv))
        return ex.call_closure(s, f, [], tmp, s.frames[-1].bb, tag=after)
    return fork_enum(ex, st, e, {1: lambda s, flds: ex.finish_call(s, d, r, ok(flds[0])), 0: on_none})


def m_opt_and_then(ex, st, fr, c, a, d, r):
    e, f = a[0], a[1]
    return fork_enum(ex, st, e, {1: lambda s, flds: ex.call_closure(s, f, [flds[0]], d, r),
                                 0: lambda s, flds: ex.finish_call(s, d, r, none())})


# ---- maps ----------------------------------------------------------------------------------------------

def the_map(st, ref):
    m = deref_all(st, ref)
    if not isinstance(m, VMap):
        raise Unsupported(f"expected map, got {m}")
    return m


def m_map_insert(ex, st, fr, c, a, d, r):
    m = the_map(st, a[0])
    k = key_term(ex, st, a[1])
    old = sym_option(z3.Select(m.present, k), shape_select(m, k))
    m.present = z3.Store(m.present, k, z3.BoolVal(True))
    shape_store(m, k, a[2])
    if m.vshape == ("sym", "H") and m.ksort == "K":
        st.event("intent", op="insert", key=k, hash=a[2].t)
    elif m.ksort == "K" and m.kind == "btree":
        st.event("index-mutation", op="insert", key=k)
    return old


def m_map_remove(ex, st, fr, c, a, d, r):
    m = the_map(st, a[0])
    k = key_term(ex, st, a[1])
    old = sym_option(z3.Select(m.present, k), shape_select(m, k))
    m.present = z3.Store(m.present, k, z3.BoolVal(False))
    if m.vshape == ("sym", "H") and m.ksort == "K":
        st.event("intent", op="remove", key=k)
    elif m.ksort == "K" and m.kind == "btree":
        st.event("index-mutation", op="remove", key=k)
    return old


def m_map_get(ex, st, fr, c, a, d, r):
    m = the_map(st, a[0])
    k = key_term(ex, st, a[1])
    # a shared reference to the stored value: materialise the value in a fresh cell
    cell = st.alloc(shape_select(m, k))
    return sym_option(z3.Select(m.present, k), VRef(cell))


def m_map_get_mut(ex, st, fr, c, a, d, r):
    m = the_map(st, a[0])
    k = key_term(ex, st, a[1])
    return sym_option(z3.Select(m.present, k), VMapSlot(deref_ref(st, a[0]), k))


def m_map_contains(ex, st, fr, c, a, d, r):
    m = the_map(st, a[0])
    k = key_term(ex, st, a[1])
    return VBool(z3.Select(m.present, k))


def _entry_parts(st, e):
    """(map reference, key) of an Entry / OccupiedEntry / VacantEntry value in either representation"""
    e = deref_all(st, e)
    if isinstance(e, VEnum):
        for pl in e.payloads.values():
            if pl:
                e = pl[0]
                break
    if isinstance(e, VStruct) and len(e.fields) >= 2:
        return e.fields[0], e.fields[1]
    raise Unsupported(f"map entry {e}")


def m_map_entry(ex, st, fr, c, a, d, r):
    """HashMap/BTreeMap::entry(k) -> Entry::Occupied(..) | Entry::Vacant(..) with a symbolic discriminant"""
    m = the_map(st, a[0])
    k = key_term(ex, st, a[1])
    pres = z3.Select(m.present, k)
    return VEnum("Entry", z3.If(pres, z3.IntVal(0), z3.IntVal(1)),
                 {0: [VStruct("OccupiedEntry", [a[0], a[1]])], 1: [VStruct("VacantEntry", [a[0], a[1]])]})


def m_occupied_update(ex, st, fr, c, a, d, r, insert):
    """OccupiedEntry::insert(v) / remove(): returns the value that was stored"""
    mapref, key = _entry_parts(st, a[0])
    m = the_map(st, mapref)
    k = key_term(ex, st, key)
    old = shape_select(m, k)
    if insert:
        m_map_insert(ex, st, fr, c, [mapref, key, a[1]], d, r)
    else:
        m_map_remove(ex, st, fr, c, [mapref, key], d, r)
    return old


def m_vacant_insert(ex, st, fr, c, a, d, r):
    mapref, key = _entry_parts(st, a[0])
    m = the_map(st, mapref)
    k = key_term(ex, st, key)
    m_map_insert(ex, st, fr, c, [mapref, key, a[1]], d, r)
    return VMapSlot(deref_ref(st, mapref), k)


def m_entry_or_insert_with(ex, st, fr, c, a, d, r):
    mapref, key = _entry_parts(st, a[0])
    m = the_map(st, mapref)
    k = key_term(ex, st, key)
    outs = []
    pres = z3.Select(m.present, k)
    if ex.feasible(st.pc, z3.Not(pres)):
        s2 = st.clone() if ex.feasible(st.pc, pres) else st
        s2.pc.append(z3.Not(pres))

        def after(s3, v):
            m_map_insert(ex, s3, fr, c, [mapref, key, v], d, r)
            return ex.finish_call(s3, d, r, VMapSlot(deref_ref(s3, mapref), k))
        outs += ex.call_closure_then(s2, a[1], [], after) if hasattr(ex, "call_closure_then") else _unsupported("or_insert_with on an absent key")
        if s2 is st:
            return outs
    st.pc.append(pres)
    outs += ex.finish_call(st, d, r, VMapSlot(deref_ref(st, mapref), k))
    return outs


def _unsupported(msg):
    raise Unsupported(msg)


def m_entry_and_modify(ex, st, fr, c, a, d, r):
    raise Unsupported("Entry::and_modify")


def m_opt_insert(ex, st, fr, c, a, d, r):
    ref = a[0]
    st.store(ref, some(a[1]))
    return VRef(ref.cell, ref.path + (("v", 1, 0),))


def m_opt_replace(ex, st, fr, c, a, d, r):
    ref = a[0]
    old = st.load(ref)
    st.store(ref, some(a[1]))
    return old


def m_opt_get_or_insert_with(ex, st, fr, c, a, d, r):
    raise Unsupported("Option::get_or_insert_with")


def m_result_transpose(ex, st, fr, c, a, d, r):
    """Result<Option<T>, E> -> Option<Result<T, E>>"""
    def on_ok(s, f):
        inner = f[0]
        return fork_enum(ex, s, inner, {0: lambda s2, g: ex.finish_call(s2, d, r, none()),
                                        1: lambda s2, g: ex.finish_call(s2, d, r, some(ok(g[0])))})
    return fork_enum(ex, st, a[0], {0: on_ok, 1: lambda s, f: ex.finish_call(s, d, r, some(err(f[0])))})


def m_option_transpose(ex, st, fr, c, a, d, r):
    """Option<Result<T, E>> -> Result<Option<T>, E>"""
    def on_some(s, f):
        inner = f[0]
        return fork_enum(ex, s, inner, {0: lambda s2, g: ex.finish_call(s2, d, r, ok(some(g[0]))),
                                        1: lambda s2, g: ex.finish_call(s2, d, r, err(g[0]))})
    return fork_enum(ex, st, a[0], {0: lambda s, f: ex.finish_call(s, d, r, ok(none())), 1: on_some})


def m_entry_or_default(ex, st, fr, c, a, d, r):
    e = a[0]
    mapref, key = _entry_parts(st, e)
    m = the_map(st, mapref)
    k = key_term(ex, st, key)
    # absent -> insert Default (0); present -> keep
    for cname, sh in shape_cols(m.vshape):
        cur = z3.Select(m.cols[cname], k)
        m.cols[cname] = z3.Store(m.cols[cname], k, z3.If(z3.Select(m.present, k), cur, z3.IntVal(0)))
    m.present = z3.Store(m.present, k, z3.BoolVal(True))
    return VMapSlot(deref_ref(st, mapref), k)


def m_entry_or_insert(ex, st, fr, c, a, d, r):
    e = a[0]
    mapref, key = _entry_parts(st, e)
    m = the_map(st, mapref)
    k = key_term(ex, st, key)
    was = z3.Select(m.present, k)
    oldv = shape_select(m, k)
    # store If(was, old, new) leaf-wise
    newm_cols = dict(m.cols)
    shape_store(m, k, a[1])
    for cname, sh in shape_cols(m.vshape):
        m.cols[cname] = z3.Store(newm_cols[cname], k,
                                 z3.If(was, z3.Select(newm_cols[cname], k), z3.Select(m.cols[cname], k)))
    m.present = z3.Store(m.present, k, z3.BoolVal(True))
    return VMapSlot(deref_ref(st, mapref), k)


def map_domain(ex, m):
    return ex.models.universe if m.ksort == "K" else ex.models.huniverse


def m_map_iter(ex, st, fr, c, a, d, r):
    m = the_map(st, a[0])
    cc = strip_generics(c)
    dom = map_domain(ex, m)
    items = []
    for u in dom:
        val = shape_select(m, u)
        if cc.endswith("::values"):
            item = VRef(st.alloc(val))
        else:
            ksym = VSym(u, m.ksort) if m.ksort in ("K", "H") else VInt(u, "u64")
            item = VStruct("tuple", [VRef(st.alloc(ksym)), VRef(st.alloc(val))])
        items.append((z3.Select(m.present, u), item))
    return VIter(items, "map")


def m_map_keys_iter(ex, st, fr, c, a, d, r):
    """keys() / into_keys() / into_values(): the universe elements that are present, in key order"""
    m = the_map(st, a[0])
    cc = strip_generics(c)
    by_ref = cc.endswith("::keys")
    items = []
    for u in map_domain(ex, m):
        if cc.endswith("into_values"):
            item = shape_select(m, u)
        else:
            ksym = VSym(u, m.ksort) if m.ksort in ("K", "H") else VInt(u, "u64")
            item = VRef(st.alloc(ksym)) if by_ref else ksym
        items.append((z3.Select(m.present, u), item))
    return VIter(items, "map")


def m_vec_extend_iter(ex, st, fr, c, a, d, r):
    """Vec::extend(iterator): append every item the iterator yields"""
    src = deref_all(st, a[1])
    if isinstance(src, VVec) or isinstance(src, VOpaque):
        return m_vec_extend(ex, st, fr, c, a, d, r)

    def fin(s, items):
        seq(s, a[0]).elems.extend(deref_all(s, x).clone() if isinstance(x, VRef) and False else x for x in items)
        return ex.finish_call(s, d, r, VUnit())
    return iter_collect(ex, st, a[1], fin)


def in_range(rg, k):
    """rg = SymRange[lo, hi, lo_kind, hi_kind]; kinds: 0 included, 1 excluded, 2 unbounded"""
    lo, hi = rg.fields[0].t, rg.fields[1].t
    # over an integer-represented key order every RangeBounds is an inclusive interval
    # (exclusive = shifted by one, unbounded = beyond every universe key)
    return z3.And(k >= lo, k <= hi)


def m_map_range(ex, st, fr, c, a, d, r):
    m = the_map(st, a[0])
    rg = deref_all(st, a[1])
    if not (isinstance(rg, VStruct) and rg.name == "SymRange"):
        raise Unsupported("BTreeMap::range over a non-symbolic range value")
    items = []
    for u in map_domain(ex, m):
        item = VStruct("tuple", [VRef(st.alloc(VSym(u, m.ksort))), VRef(st.alloc(shape_select(m, u)))])
        items.append((z3.And(z3.Select(m.present, u), in_range(rg, u)), item))
    return VIter(items, "map")


def m_iter_any(ex, st, fr, c, a, d, r):
    """Iterator::any(&mut it, f) over a map iterator: expand over the domain, calling f's MIR"""
    it = st.load(a[0])
    clos = a[1]
    closref = VRef(st.alloc(clos))
    items = it.items[it.pos:]

    def step(ex, s, i):
        if i == len(items):
            return ex.finish_call(s, d, r, VBool(False))
        cond, val = items[i]
        outs = []
        if not z3.is_true(z3.simplify(cond)):
            nc = z3.Not(cond)
            if ex.feasible(s.pc, nc):
                s2 = s.clone()
                s2.pc.append(nc)
                outs += step(ex, s2, i + 1)
            if not ex.feasible(s.pc, cond):
                return outs
            s.pc.append(cond)
        tmp = VRef(s.alloc(VUninit()))

        def after(ex2, s2, rv, i=i):
            o = []
            for cnd, hit in ((rv.t, True), (z3.Not(rv.t), False)):
                cs = z3.simplify(cnd)
                if z3.is_false(cs) or (not z3.is_true(cs) and not ex2.feasible(s2.pc, cnd)):
                    continue
                s3 = s2.clone()
                if not z3.is_true(cs):
                    s3.pc.append(cnd)
                if hit:
                    o += ex2.finish_call(s3, d, r, VBool(True))
                else:
                    o += step(ex2, s3, i + 1)
            return o
        outs += ex.call_closure(s, closref, [val], tmp, s.frames[-1].bb, tag=after)
        return outs
    return step(ex, st, 0)


SHAPES = {
    "BlobHash": ("sym", "H"), "K": ("sym", "K"), "u32": ("int", "u32"), "u64": ("int", "u64"),
    "usize": ("int", "usize"),
    "IndexStateItem": ("struct", "IndexStateItem", [("blob_hash", ("sym", "H")), ("blob_size", ("int", "u64"))]),
    "ExpectedMeta": ("struct", "ExpectedMeta", [("blob_size", ("int", "u64"))]),
    "()": ("int", "u8"),
}


def m_map_new(ex, st, fr, c, a, d, r):
    """the key/value types come from the call's generic arguments or the destination's type"""
    ty = None
    m = re.search(r"(BTreeMap|HashMap|HashSet|BTreeSet)::<(.*)>::", c) or re.search(r"<(BTreeMap|HashMap|HashSet|BTreeSet)<(.*)> as ", c)
    if m:
        targs = split_top(m.group(2))
        kind = m.group(1)
    else:
        raise Unsupported("map constructor without type arguments: " + c)
    kt = base_type(targs[0])
    vt = base_type(targs[1]) if kind not in ("HashSet", "BTreeSet") and len(targs) > 1 else "()"
    if kt == "Vec":
        kt = "K"   # byte-string keys: identified by an integer id per distinct slice (see key_term)
    if kt not in ("BlobHash", "K") or vt not in SHAPES:
        raise Unsupported(f"map of {kt} -> {vt} is not modelled")
    mm = new_map("btree" if kind in ("BTreeMap", "BTreeSet") else "hash", SHAPES[vt])
    mm.ksort = "H" if kt == "BlobHash" else "K"
    return mm


def m_set_insert_g(ex, st, fr, c, a, d, r):
    m = the_map(st, a[0])
    k = key_term(ex, st, a[1])
    was = z3.Select(m.present, k)
    m.present = z3.Store(m.present, k, z3.BoolVal(True))
    return VBool(z3.Not(was))


def m_set_remove_g(ex, st, fr, c, a, d, r):
    m = the_map(st, a[0])
    k = key_term(ex, st, a[1])
    was = z3.Select(m.present, k)
    m.present = z3.Store(m.present, k, z3.BoolVal(False))
    return VBool(was)


def m_map_clear(ex, st, fr, c, a, d, r):
    m = the_map(st, a[0])
    m.present = z3.K(z3.IntSort(), z3.BoolVal(False))
    return VUnit()


def m_iter_sum(ex, st, fr, c, a, d, r):
    it = a[0]
    terms = []
    for cond, item in it.items[it.pos:]:
        v = deref_all(st, item)
        terms.append(z3.If(cond, v.t, 0) if cond is not None else v.t)
    total = z3.Sum(terms) if terms else z3.IntVal(0)
    ty = "u64"
    lo, hi = int_range(ty)
    outs = []
    over = total > hi
    if ex.feasible(st.pc, over):
        s2 = st.clone()
        s2.pc.append(over)
        s2.status, s2.note = "panic", "attempt to add with overflow in Iterator::sum"
        outs.append(s2)
    if ex.feasible(st.pc, z3.Not(over)):
        st.pc.append(z3.Not(over))
        outs += ex.finish_call(st, d, r, VInt(total, ty))
    return outs


def m_iter_len(ex, st, fr, c, a, d, r):
    it = deref_all(st, a[0])
    terms = [z3.If(cond, 1, 0) if cond is not None else z3.IntVal(1) for cond, _ in it.items[it.pos:]]
    return VInt(z3.Sum(terms) if terms else z3.IntVal(0), "usize")


def m_map_len(ex, st, fr, c, a, d, r):
    m = the_map(st, a[0])
    dom = map_domain(ex, m)
    t = z3.Sum([z3.If(z3.Select(m.present, u), 1, 0) for u in dom]) if dom else z3.IntVal(0)
    return VInt(t, "usize")


# ---- locks ------------------------------------------------------------------------------------------------

def m_arc_deref(ex, st, fr, c, a, d, r):
    v = st.load(a[0])
    if isinstance(v, VStruct) and v.name == "ArcAlias":
        return v.fields[0]          # an Arc that shares its pointee with another value
    return VRef(a[0].cell, a[0].path + (0,))


def m_lock_new(ex, st, fr, c, a, d, r):
    kind = "Mutex" if "Mutex" in c else "RwLock"
    v = a[0]
    # locks constructed by the code under test get the name of what they protect (the crate's three locks)
    name = "anon"
    if isinstance(v, VStruct) and v.name == "IndexState":
        name = "state"
    elif isinstance(v, VStruct) and v.name == "WalManager":
        name = "wal"
    elif isinstance(v, VMap):
        name = "pending_intents"
    return VStruct(kind, [v, VOpaque("lockname", name)])


def m_lock(ex, st, fr, c, a, d, r):
    ref = deref_ref(st, a[0]) if isinstance(st.load(a[0]), VRef) else a[0]
    lk = st.load(ref)
    if not (isinstance(lk, VStruct) and lk.name in ("Mutex", "RwLock")):
        raise Unsupported(f"lock() on {lk}")
    name = lk.fields[1].data
    cc = strip_generics(c)
    mode = "read" if cc.endswith("::read") else ("write" if cc.endswith("::write") else "lock")
    if not ex.acquire(st, name, mode):
        return [st]
    return VGuard(name, mode, VRef(ref.cell, ref.path + (0,)))


def m_guard_deref(ex, st, fr, c, a, d, r):
    g = deref_all(st, a[0])
    if not isinstance(g, VGuard):
        raise Unsupported(f"guard deref on {g}")
    return g.data


def m_mem_drop(ex, st, fr, c, a, d, r):
    outs = ex.drop_value(st, a[0], None)
    res = []
    for s in outs:
        res += ex.finish_call(s, d, r, VUnit())
    return res


# ---- closures ----------------------------------------------------------------------------------------------

def m_call_fnlike(ex, st, fr, c, a, d, r):
    f = a[0]
    argt = a[1]
    args = argt.fields if isinstance(argt, VStruct) and argt.name == "tuple" else ([] if isinstance(argt, VUnit) else [argt])
    return ex.call_closure(st, f, list(args), d, r)


def m_panic(ex, st, fr, c, a, d, r):
    st.status = "panic"
    st.note = f"{strip_generics(c).split('::')[-1]} in {fr.fn.name.split('::')[-1]}"
    return [st]


# ---- generic iterator adaptors -------------------------------------------------------------------------

def m_iter_adapt(ex, st, fr, c, a, d, r):
    kind = strip_generics(c).split("::")[-1]
    return VStruct("Adapt:" + kind, list(a))


def iter_collect(ex, st, itv, cont):
    """resolve an iterator value to a concrete list of item values (forking on map-entry presence
    and on closure verdicts) and call cont(state, items) on every resulting state"""
    if isinstance(itv, VRef):
        itv = st.load(itv)
    if isinstance(itv, VIter):
        items = itv.items[itv.pos:]

        def go(s, i, acc):
            if i == len(items):
                return cont(s, acc)
            cond, val = items[i]
            if cond is None or z3.is_true(z3.simplify(cond)):
                return go(s, i + 1, acc + [val])
            outs = []
            if ex.feasible(s.pc, cond):
                s2 = s.clone()
                s2.pc.append(cond)
                outs += go(s2, i + 1, acc + [val])
            if ex.feasible(s.pc, z3.Not(cond)):
                s.pc.append(z3.Not(cond))
                outs += go(s, i + 1, acc)
            return outs
        return go(st, 0, [])
    if isinstance(itv, VStruct) and itv.name.startswith("Adapt:"):
        kind = itv.name[6:]
        base = itv.fields[0]
        if kind in ("copied", "cloned"):
            return iter_collect(ex, st, base, lambda s, items: cont(s, [deref_all(s, x).clone() for x in items]))
        if kind == "enumerate":
            return iter_collect(ex, st, base, lambda s, items: cont(
                s, [VStruct("tuple", [VInt(i, "usize"), x]) for i, x in enumerate(items)]))
        f = itv.fields[1]

        def apply_all(s, items):
            fref = VRef(s.alloc(f))

            def step(s2, i, acc):
                if i == len(items):
                    return cont(s2, acc)
                tmp = VRef(s2.alloc(VUninit()))

                def after(ex2, s3, rv, i=i, acc=acc):
                    if kind == "map":
                        return step(s3, i + 1, acc + [rv])
                    if kind == "inspect":
                        return step(s3, i + 1, acc + [items[i]])
                    outs = []  # filter
                    for cnd, keep in ((rv.t, True), (z3.Not(rv.t), False)):
                        cs = z3.simplify(cnd)
                        if z3.is_false(cs) or (not z3.is_true(cs) and not ex2.feasible(s3.pc, cnd)):
                            continue
                        s4 = s3.clone()
                        if not z3.is_true(cs):
                            s4.pc.append(cnd)
                        outs += step(s4, i + 1, acc + ([items[i]] if keep else []))
                    return outs
                arg = items[i] if kind == "map" else VRef(s2.alloc(items[i]))
                return ex.call_closure(s2, fref, [arg], tmp, s2.frames[-1].bb, tag=after)
            return step(s, 0, [])
        return iter_collect(ex, st, base, apply_all)
    if isinstance(itv, VVec):
        return cont(st, list(itv.elems))
    raise Unsupported(f"iteration over {itv}")


def m_iter_partition(ex, st, fr, c, a, d, r):
    """Iterator::partition(self, f) -> (Vec, Vec): f's MIR runs on every item, fork on the verdict"""
    f = a[1]

    def run(s, items):
        fref = VRef(s.alloc(f))

        def step(s2, i, yes, no):
            if i == len(items):
                return ex.finish_call(s2, d, r, VStruct("tuple", [VVec(list(yes)), VVec(list(no))]))
            tmp = VRef(s2.alloc(VUninit()))

            def after(ex2, s3, rv, i=i, yes=yes, no=no):
                outs = []
                for cnd, keep in ((rv.t, True), (z3.Not(rv.t), False)):
                    cs = z3.simplify(cnd)
                    if z3.is_false(cs) or (not z3.is_true(cs) and not ex2.feasible(s3.pc, cnd)):
                        continue
                    s4 = s3.clone()
                    if not z3.is_true(cs):
                        s4.pc.append(cnd)
                    outs += step(s4, i + 1, yes + ([items[i]] if keep else []), no + ([] if keep else [items[i]]))
                return outs
            return ex.call_closure(s2, fref, [VRef(s2.alloc(items[i]))], tmp, s2.frames[-1].bb, tag=after)
        return step(s, 0, [], [])
    return iter_collect(ex, st, a[0], run)


def m_iter_consume(ex, st, fr, c, a, d, r):
    kind = strip_generics(c).split("::")[-1]
    cc = strip_generics(c)

    def fin(s, items):
        if kind == "count":
            return ex.finish_call(s, d, r, VInt(len(items), "usize"))
        if kind == "collect":
            ms = re.search(r"collect::<\s*(?:[\w]+::)*(HashSet|BTreeSet)<", c)
            if ms:
                # collecting into a set: a set map over the items' key terms
                mm = new_map("btree" if ms.group(1) == "BTreeSet" else "hash", SHAPES["()"])
                srt = None
                for x in items:
                    xv = deref_all(s, x)
                    if isinstance(xv, VSym):
                        srt = xv.sort if hasattr(xv, "sort") else srt
                    mm.present = z3.Store(mm.present, key_term(ex, s, x), z3.BoolVal(True))
                mm.ksort = "H" if "BlobHash" in c[ms.start():ms.start() + 80] else "K"
                return ex.finish_call(s, d, r, mm)
            return ex.finish_call(s, d, r, VVec(list(items)))
        if kind == "last":
            return ex.finish_call(s, d, r, some(items[-1]) if items else none())
        if kind == "sum":
            vals = [deref_all(s, x) for x in items]
            ty = vals[0].ty if vals else "u64"
            total = z3.Sum([v.t for v in vals]) if vals else z3.IntVal(0)
            lo, hi = int_range(ty)
            outs = []
            over = total > hi
            if ex.feasible(s.pc, over):
                s2 = s.clone()
                s2.pc.append(over)
                s2.status, s2.note = "panic", "attempt to add with overflow in Iterator::sum"
                outs.append(s2)
            if ex.feasible(s.pc, z3.Not(over)):
                s.pc.append(z3.Not(over))
                outs += ex.finish_call(s, d, r, VInt(total, ty))
            return outs
        raise Unsupported("iterator consumer " + kind)
    return iter_collect(ex, st, a[0], fin)
