"""C03 / C09 / C20 at the level of the DISK IMAGE (DESIGN 4.3, built in round 2).

One real operation (full MIR) runs from an arbitrary store whose durable image is abstract:
    snapshot  (version lpv0)  +  base records with versions (lpv0, next0-1], each in segment (v-1) div N,
    whose replay yields the in-memory map M0; blob set = referenced hashes + arbitrary orphans.
Along every feasible path the filesystem effects update an abstract image:
    WAL segments  : appended records (version, op, segment), end markers; a segment that is unlinked or
                    opened with truncate loses everything in it - base records included;
    index.tmp/index: the serialised (version, map) that was written; rename installs it;
    cas/           : rename adds a blob, unlink removes it.
After EVERY image-changing effect (= every crash cut the process-kill model can distinguish) one solver
query decides, for all values of the symbolic world:
    base-intact   no destroyed segment held a base record above the snapshot version of that moment;
    well-formed   every appended record has the next unused version and lies in its version's segment,
                  nothing is appended after an end marker, an installed snapshot is complete;
    atomic        recovered map (snapshot map + textbook replay of the surviving records above the
                  snapshot version)  is  M0  or  M0+op;
    no-dangling   every key of the recovered map has its blob;
and at the end of a path that returned Ok:  recovered map = M0+op  (acknowledged operations survive).
mode='power' (C09, Sync mode): every file independently may lose the bytes not covered by a sync of that
file (one free Boolean per file, so the solver explores every choice); renames/unlinks persist in issue
order; a blob or snapshot installed by rename is intact only if its bytes were synced (or not lost).
That the REAL replay loop computes exactly the textbook replay of a well-formed log is C02's obligation."""
import time

import z3

from exec import (VInt, VBool, VSym, VUnit, VStruct, VEnum, VRef, VVec, VMap, VOpaque, State)
from world import SystemWorld, U64
from obl_index import Obligation, model_values
from obl_replay import scoped_models
from iomodel import IoModel, BlobDisk
import entry as E
import obl_trace as T


def crash_world(ex, st, U, HU, N, sync_mode="sync"):
    sw = SystemWorld(ex, st, U=U, HU=HU, intents="empty", N=N, sync_mode=sync_mode)
    nx, ws = sw.next, sw.writer_seg
    in_seg = lambda v, s: z3.And(s * N < v, v <= (s + 1) * N)
    # the active writer (if any) sits on the segment of the last written or of the next version
    st.pc.append(z3.Implies(sw.has_writer, z3.Or(in_seg(nx, ws), z3.And(nx > 1, in_seg(nx - 1, ws)))))
    st.pc.append(nx <= U64 - 16)
    w = sw.iw
    blobs = z3.K(z3.IntSort(), z3.BoolVal(False))
    sw.orphan_bits = []
    for j, g in enumerate(w.hashes):
        ob = z3.Bool(f"w_orphan{j}")
        sw.orphan_bits.append(ob)
        refd = z3.Or([z3.And(w.pk[i], w.hk[i] == g) for i in range(w.U)])
        blobs = z3.Store(blobs, g, z3.Or(refd, ob))
    st.meta["blobs"] = blobs
    sw.blobs0 = blobs
    sw.io.disk = BlobDisk()
    sw.N_int = N
    return sw


def explore(ex, name, U, HU, N, sync_mode="sync"):
    st = State()
    st.faults_left = 0
    saved = dict(ex.models.table)
    try:
        sw = crash_world(ex, st, U, HU, N, sync_mode)
        sw2, finals = E._explore(ex, name, sw, st)
        return sw, finals
    finally:
        sw.io.disk = None
        ex.models.table.clear()
        ex.models.table.update(saved)


def target_map(sw, name):
    """M0+op as per-universe-key (present, hash) terms"""
    w = sw.iw
    pk, hk = list(w.pk), list(w.hk)
    if name == "put.finish":
        for i in range(w.U):
            hit = w.keys[i] == sw.op_key
            pk[i] = z3.Or(hit, pk[i])
            hk[i] = z3.If(hit, sw.op_hash, hk[i])
    elif name == "remove":
        for i in range(w.U):
            pk[i] = z3.And(pk[i], w.keys[i] != sw.op_key)
    elif name == "remove_range":
        lo, hi = sw.op_range
        for i in range(w.U):
            pk[i] = z3.And(pk[i], z3.Not(z3.And(w.keys[i] >= lo, w.keys[i] <= hi)))
    return pk, hk


def apply_op(w, pk, hk, op, cond):
    """textbook replay of one record (applied iff cond)"""
    pk, hk = list(pk), list(hk)
    ci = op.concrete() if isinstance(op, VEnum) else None
    if ci == 0:
        k, h = op.payloads[0][0].t, op.payloads[0][1].t
        for i in range(w.U):
            hit = z3.And(cond, w.keys[i] == k)
            pk[i] = z3.Or(hit, pk[i])
            hk[i] = z3.If(hit, h, hk[i])
    elif ci == 1:
        for kv in op.payloads[1][0].elems:
            for i in range(w.U):
                pk[i] = z3.And(pk[i], z3.Not(z3.And(cond, w.keys[i] == kv.t)))
    else:
        raise ValueError("record with a symbolic operation kind")
    return pk, hk


class Image:
    """abstract durable image, updated event by event"""

    def __init__(self, sw, mode):
        self.sw, self.mode = sw, mode
        self.w = sw.iw
        self.snap = None            # None = base snapshot, else dict(ver, map, intact)
        self.tmp = None             # content of index.tmp: dict(ver, map, synced) / 'garbage'
        self.recs = []              # dict(ver, op, seg, idx, synced, alive-cond)
        self.sentinels = []         # (seg term, position in recs)
        self.destroyed = []         # seg terms
        self.blobs = sw.blobs0
        self.blob_intact = {}       # hash term str -> (hash term, intact cond) for blobs installed by this op
        self.staging = {}           # n -> dict(synced)
        self.lose = {}              # file key -> Bool (power mode)
        self.wf = []                # (label, cond) obligations accumulated

    def lose_bit(self, key):
        if self.mode != "power":
            return z3.BoolVal(False)
        if key not in self.lose:
            self.lose[key] = z3.Bool(f"lose_{len(self.lose)}")
        return self.lose[key]

    def on_event(self, e):
        """-> True if the image changed"""
        op, p = e["op"], e.get("path") or ("",)
        okc = isinstance(e["outcome"], str) and e["outcome"] == "ok"
        N = self.sw.N_int
        if p[0] == "wal":
            seg = p[1]
            if op == "write" and okc:
                r = T._record_parts(e.get("data", []))
                if r is None:
                    self.sentinels.append((seg, len(self.recs)))
                    return False
                ver, opv = r
                j = len(self.recs)
                for (s2, pos) in self.sentinels:
                    self.wf.append(("nothing is appended to a segment after its end marker", seg != s2))
                self.wf.append((f"appended record #{j} has the next unused version", ver == self.sw.next + j))
                self.wf.append((f"appended record #{j} lies in the segment of its version", z3.And(seg * N < ver, ver <= (seg + 1) * N)))
                self.recs.append(dict(ver=ver, op=opv, seg=seg, synced=False, killed=[]))
                return True
            if op == "sync" and okc:
                for r in self.recs:
                    r.setdefault("synced_if", []).append(r["seg"] == seg)
                return self.mode == "power"
            if (op == "unlink" and okc) or (op == "open" and okc and e.get("flags", {}).get("truncate")):
                self.destroyed.append(seg)
                for r in self.recs:
                    r["killed"].append(r["seg"] == seg)
                return True
            return False
        if p[0] == "index.tmp":
            if op == "open" and okc and e.get("flags", {}).get("truncate"):
                self.tmp = dict(kind="empty", synced=True)
                return False
            if op == "write" and okc:
                snap = None
                for d in e.get("data", []):
                    if isinstance(d, tuple) and len(d) == 2 and isinstance(d[1], tuple) and d[1] and d[1][0] == "snapshot":
                        snap = d[1]
                if snap is None or (self.tmp and self.tmp.get("kind") == "snapshot"):
                    self.tmp = dict(kind="garbage", synced=False)
                else:
                    m, lpv = snap[1], snap[2]
                    vt = lpv.payloads[1][0].t if (isinstance(lpv, VEnum) and 1 in lpv.payloads and lpv.payloads[1]) else z3.IntVal(0)
                    vt = z3.If(lpv.disc == 1, vt, 0) if isinstance(lpv, VEnum) else vt
                    self.tmp = dict(kind="snapshot", ver=vt, map=m, synced=False)
                return False
            if op == "sync" and okc and self.tmp:
                self.tmp["synced"] = True
                return False
            if op == "rename" and okc and (e.get("dst") or ("",))[0] == "index":
                t = self.tmp or dict(kind="garbage", synced=False)
                intact = z3.BoolVal(t["kind"] == "snapshot")
                if t["kind"] == "snapshot" and not t["synced"]:
                    intact = z3.Not(self.lose_bit("index.tmp"))
                self.snap = dict(ver=t.get("ver", z3.IntVal(0)), map=t.get("map"), intact=intact, kind=t["kind"])
                self.tmp = None
                return True
            return False
        if p[0] == "index" and op in ("unlink", "open") and okc and (op == "unlink" or e.get("flags", {}).get("truncate")):
            self.snap = dict(ver=z3.IntVal(0), map=None, intact=z3.BoolVal(False), kind="destroyed")
            return True
        if p[0] == "staging":
            n = p[1]
            s = self.staging.setdefault(str(n), dict(synced=True, written=False))
            if op == "write" and okc:
                s["synced"], s["written"] = False, True
            if op == "sync" and okc:
                s["synced"] = True
                for k, (h, intact, n2) in list(self.blob_intact.items()):
                    if n2 == str(n):   # the handle still refers to the renamed file: its bytes are covered now
                        self.blob_intact[k] = (h, z3.BoolVal(True), n2)
                return self.mode == "power" and bool(self.blob_intact)
            if op == "rename" and okc and (e.get("dst") or ("",))[0] == "cas":
                h = e["dst"][1]
                self.blobs = z3.Store(self.blobs, h, z3.BoolVal(True))
                intact = z3.BoolVal(True) if s["synced"] else z3.Not(self.lose_bit(("staging", str(n))))
                self.blob_intact[str(h)] = (h, intact, str(n))
                return True
            return False
        if p[0] == "cas":
            if op == "unlink" and okc:
                self.blobs = z3.Store(self.blobs, p[1], z3.BoolVal(False))
                return True
            if op == "rename" and okc:
                self.blobs = z3.Store(self.blobs, p[1], z3.BoolVal(False))
                return True
            if op == "sync" and okc:
                # a sync of the blob through its new name covers its bytes
                k = str(p[1])
                if k in self.blob_intact:
                    h, _, n = self.blob_intact[k]
                    self.blob_intact[k] = (h, z3.BoolVal(True), n)
                return self.mode == "power"
            if op in ("write",) and okc:
                k = str(p[1])
                self.blob_intact[k] = (p[1], z3.BoolVal(False), "?")
                return True
        return False

    def recovered(self):
        """-> (pk, hk, conditions dict) of the image as it is now"""
        w, sw = self.w, self.sw
        N = sw.N_int
        conds = {}
        if self.snap is None:
            pk, hk, sv = list(w.pk), list(w.hk), w.lpv
        else:
            conds["the installed snapshot is complete (written, and synced in the power-loss model, before its rename)"] = self.snap["intact"]
            m = self.snap["map"]
            sv = self.snap["ver"]
            if m is None:
                pk, hk = [z3.BoolVal(False)] * w.U, list(w.hk)
            else:
                pk = [z3.Select(m.present, k) for k in w.keys]
                hk = [z3.Select(m.cols["blob_hash"], k) for k in w.keys]
            # a snapshot labelled above everything written would hide future records
            conds["the snapshot is not labelled above the highest written version"] = sv <= sw.next - 1 + len(self.recs)
        # base records above the snapshot version must still be there
        for s in self.destroyed:
            lo = z3.If(sv + 1 > s * N + 1, sv + 1, s * N + 1)
            hi = z3.If(sw.next - 1 < (s + 1) * N, sw.next - 1, (s + 1) * N)
            conds.setdefault("no destroyed (unlinked/truncated) segment held a record above the snapshot version", [])
            conds["no destroyed (unlinked/truncated) segment held a record above the snapshot version"].append(lo > hi)
        for r in self.recs:
            alive = z3.Not(z3.Or(r["killed"])) if r["killed"] else z3.BoolVal(True)
            if self.mode == "power":
                synced = z3.Or(r.get("synced_if", [])) if r.get("synced_if") else z3.BoolVal(False)
                alive = z3.And(alive, z3.Or(synced, z3.Not(self.lose_bit(("wal", str(r["seg"]))))))
            r["alive_now"] = alive
            pk, hk = apply_op(w, pk, hk, r["op"], z3.And(alive, r["ver"] > sv))
        # a killed appended record above the snapshot version is a lost record too
        for r in self.recs:
            if r["killed"]:
                conds.setdefault("no destroyed (unlinked/truncated) segment held a record above the snapshot version", []).append(
                    z3.Or(z3.Not(z3.Or(r["killed"])), r["ver"] <= sv))
        flat = {}
        for k, v in conds.items():
            flat[k] = z3.And(v) if isinstance(v, list) else v
        return pk, hk, flat


def ob_crash_image(ex, name, U=2, HU=2, N=2, mode="kill", sync_mode="sync"):
    """every crash cut of one operation; mode 'kill' (C03/C20) or 'power' (C09)"""
    with scoped_models(ex):
        if ex.models.io_hook is None:
            IoModel(ex.models)
        t0 = time.time()
        q0 = ex.queries
        sw, finals = explore(ex, name, U, HU, N, sync_mode)
        w = sw.iw
        oname = (f"disk image at every crash cut of {name} ({'process kill' if mode == 'kill' else 'power loss, per-file loss of unsynced bytes'}; "
                 f"{sync_mode} mode, U={U}, HU={HU}, N={N}): base intact, well-formed, recovered map is M0 or M0+op, no dangling key; "
                 f"acknowledged => M0+op")
        tags = ["C03", "C20"] if mode == "kill" else ["C09"]
        for f in finals:
            if f.status in ("unsupported", "cut"):
                return Obligation(oname, tags, "inconclusive", time.time() - t0, f"{f.status}: {f.note}", None, ex.queries - q0, len(finals))
        terms = dict(keys=w.keys, hashes=w.hashes, pk=w.pk, hk=w.hk, N=sw.N, next=sw.next, lpv=w.lpv, has_writer=sw.has_writer,
                     writer_seg=sw.writer_seg, orphans=sw.orphan_bits)
        for nm in ("op_key", "op_hash"):
            if hasattr(sw, nm):
                terms[nm] = getattr(sw, nm)
        if hasattr(sw, "op_range"):
            terms["range"] = list(sw.op_range)
        tpk, thk = target_map(sw, name)
        nq = ncuts = 0
        seen_prefix = set()
        for f in finals:
            if f.status in ("panic", "deadlock"):
                r, m = ex.model_of(f.pc)
                cex = model_values(m, terms) if m else {}
                cex.update(entry=name, violation="panic", detail=f.note, mode=mode, cut=-1)
                return Obligation(oname, tags, "violated", time.time() - t0, f"{name} ends in {f.status}: {f.note}", cex, ex.queries - q0, len(finals))
            img = Image(sw, mode)
            ios = [e for e in f.trace if e["kind"] == "io"]
            acked = isinstance(f.retval, VEnum) and f.retval.concrete() == 0
            for ci, e in enumerate(ios):
                try:
                    changed = img.on_event(e)
                except ValueError as ve:
                    return Obligation(oname, tags, "inconclusive", time.time() - t0, str(ve), None, ex.queries - q0, len(finals))
                last = ci == len(ios) - 1
                if not changed and not last:
                    continue
                pk, hk, conds = img.recovered()
                posts = dict(conds)
                for lab, c in img.wf:
                    posts[lab] = z3.And(posts[lab], c) if lab in posts else c
                eq0 = z3.And([z3.And(pk[i] == w.pk[i], z3.Implies(pk[i], hk[i] == w.hk[i])) for i in range(w.U)])
                eq1 = z3.And([z3.And(pk[i] == tpk[i], z3.Implies(pk[i], hk[i] == thk[i])) for i in range(w.U)])
                posts["the recovered map is the old map or the old map plus the operation (nothing else)"] = z3.Or(eq0, eq1)
                dang = []
                for i in range(w.U):
                    has = z3.Select(img.blobs, hk[i])
                    for (h, intact, n) in img.blob_intact.values():
                        has = z3.And(has, z3.Implies(hk[i] == h, intact))
                    dang.append(z3.Implies(pk[i], has))
                posts["every key of the recovered map has its (intact) blob"] = z3.And(dang)
                # the start image assumes EVERY file under cas/ (orphans included) to hold its complete content - a later
                # put of the same content may rely on it - so every cut must re-establish that (inductive invariant)
                if img.blob_intact:
                    posts["every file under cas/ holds its complete content (orphans included)"] = z3.And(
                        [z3.Implies(z3.Select(img.blobs, h), intact) for (h, intact, n) in img.blob_intact.values()])
                if last and acked:
                    posts["an acknowledged operation is in the recovered map"] = eq1
                if last and f.status == "returned":
                    # the image the operation leaves behind must again be a legal start image (inductive step):
                    # the in-memory map is what a recovery would produce, the version counter moved past every
                    # appended record, the active writer sits on the segment of the last or of the next version
                    post = w.snapshot_of(f, sw.state_ref)
                    posts["at return the in-memory map equals what recovery of the image yields"] = z3.And(
                        [z3.And(pk[i] == post["pk"][i], z3.Implies(pk[i], hk[i] == post["hk"][i])) for i in range(w.U)])
                    wal = f.load(sw.wal_ref)
                    from structs import fget
                    nx1 = fget(ex, wal, "WalManager", "next_op_version").t
                    posts["at return the next version is past every appended record"] = nx1 == sw.next + len(img.recs)
                    wopt = fget(ex, wal, "WalManager", "active_writer")
                    if isinstance(wopt, VEnum) and 1 in wopt.payloads and wopt.payloads[1]:
                        ws1 = fget(ex, wopt.payloads[1][0], "SegmentWriter", "segment_id").t
                        Nn = sw.N_int
                        inseg = lambda v: z3.And(ws1 * Nn < v, v <= (ws1 + 1) * Nn)
                        posts["at return the active writer sits on the segment of the last or of the next version"] = z3.Implies(
                            wopt.disc == 1, z3.Or(inseg(nx1), z3.And(nx1 > 1, inseg(nx1 - 1))))
                ncuts += 1
                bad = z3.Not(z3.And(list(posts.values())))
                nq += 1
                r, m = ex.model_of(f.pc, bad)
                if r == z3.unsat:
                    continue
                if r != z3.sat:
                    return Obligation(oname, tags, "inconclusive", time.time() - t0, "solver unknown at a cut", None, ex.queries - q0, len(finals))
                # which clause fails
                which = "?"
                for lab, c in posts.items():
                    if z3.is_false(m.eval(c, model_completion=True)):
                        which = lab
                        break
                cex = model_values(m, terms)
                lost = {str(k): bool(z3.is_true(m.eval(b, model_completion=True))) for k, b in img.lose.items()}
                cex.update(entry=name, violation="crash-image", detail=which, mode=mode, sync_mode=sync_mode, cut=ci + 1, acked_at_cut=bool(last and acked),
                           lost_files=lost, steps=[T.short(x) for x in ios[:ci + 1]][-40:], rest=[T.short(x) for x in ios[ci + 1:]][:20],
                           pred="crash_image:" + which[:40])
                ob = Obligation(oname, tags, "violated", time.time() - t0,
                                f"after {ci + 1} of {len(ios)} filesystem effects the image violates: {which}", cex, ex.queries - q0, len(finals))
                return ob
        if not finals:
            return Obligation(oname, tags, "inconclusive", time.time() - t0, "no feasible path", None, ex.queries - q0, 0)
        return Obligation(oname, tags, "discharged", time.time() - t0, f"{len(finals)} paths, {ncuts} crash cuts, {nq} image queries", None,
                          ex.queries - q0, len(finals))
