"""C17 (Engine M) — the read loop of CasManager::read_blob_range for ALL lengths.

The Kani harness decides the loop byte-exactly on blobs of <= 4 bytes; a length-dependent mistake (a capped
pre-allocation, a chunk limit) lives beyond any byte-level bound.  Here the function's MIR runs with the
buffer abstracted to (len, capacity), the file to its length L, and `pread` to its contract:
    read_at(buf of n bytes, off) = k  with  0 <= k <= n,  k <= max(L - off, 0),  k = 0  iff  n = 0 or off >= L
(short reads allowed; the bound is the NUMBER of short reads, not any length).  start, end, L are symbolic
over all of u64.  Decided on every path: no panic/overflow, set_len never exceeds the capacity, and an Ok
result holds exactly  min(end, L) - min(start, L)  bytes (0 if that is negative); start > end is an error."""
import time

import z3

from exec import (VInt, VBool, VSym, VUnit, VStruct, VEnum, VRef, VVec, VOpaque, State, Unsupported)
from models import ok, err, deref_all
from world import find_fn, U64
from obl_index import Obligation, model_values
from obl_replay import scoped_models
from iomodel import IoModel, ioerr


def _buf(st, v):
    b = deref_all(st, v)
    if not (isinstance(b, VStruct) and b.name == "ByteBuf"):
        raise Unsupported(f"expected the abstract byte buffer, got {b}")
    return b


def ob_read_loop(ex, short_reads=2):
    with scoped_models(ex):
        if ex.models.io_hook is None:
            IoModel(ex.models)
        R = ex.models.reg
        t0 = time.time()
        q0 = ex.queries
        st = State()
        L = z3.Int("blob_len")
        start, end = z3.Int("range_start"), z3.Int("range_end")
        for t in (L, start, end):
            st.pc += [t >= 0, t <= U64]
        st.pc.append(L <= (1 << 63) - 1)           # a file length is an off_t
        st.meta["short_left"] = short_reads
        viol = []

        def m_with_capacity(ex2, s, fr, c, a, d, r):
            n = a[0]
            s.pc.append(n.t <= (1 << 63) - 1)      # larger requests abort with capacity overflow (not the subject here)
            s.event("alloc", what="with_capacity", n=n.t, where=fr.fn.name, elem="u8")
            return VStruct("ByteBuf", [VInt(z3.IntVal(0), "usize"), VInt(n.t, "usize")])

        def m_spare(ex2, s, fr, c, a, d, r):
            b = _buf(s, a[0])
            return VRef(s.alloc(VStruct("RawSlice", [VInt(b.fields[1].t - b.fields[0].t, "usize")])))

        def m_from_raw(ex2, s, fr, c, a, d, r):
            return VRef(s.alloc(VStruct("RawSlice", [VInt(a[1].t, "usize")])))

        def m_read_at(ex2, s, fr, c, a, d, r):
            sl = deref_all(s, a[1])
            if not (isinstance(sl, VStruct) and sl.name == "RawSlice"):
                raise Unsupported(f"read_at into {sl}")
            n, off = sl.fields[0].t, a[2].t
            k = ex2.new_int(s, "usize", "pread")
            avail = z3.If(L - off > 0, L - off, 0)
            s.pc += [k.t <= n, k.t <= avail, (k.t == 0) == z3.Or(n == 0, avail == 0)]
            s.event("io", op="pread", outcome="ok", path=("cas",), n=n, off=off, k=k.t)
            outs = []
            full = k.t == z3.If(n <= avail, n, avail)
            if s.meta.get("short_left", 0) > 0 and ex2.feasible(s.pc, z3.Not(full)):
                s2 = s.clone()
                s2.pc.append(z3.Not(full))
                s2.meta["short_left"] = s.meta["short_left"] - 1
                outs += ex2.finish_call(s2, d, r, ok(VInt(k.t, "usize")))
            s.pc.append(full)
            outs += ex2.finish_call(s, d, r, ok(VInt(k.t, "usize")))
            return outs

        def m_set_len(ex2, s, fr, c, a, d, r):
            b = _buf(s, a[0])
            over = a[1].t > b.fields[1].t
            if ex2.feasible(s.pc, over):
                s2 = s.clone()
                s2.pc.append(over)
                viol.append((s2, "Vec::set_len beyond the capacity (uninitialised / out-of-bounds bytes become visible)"))
            s.pc.append(z3.Not(over))
            b.fields[0] = VInt(a[1].t, "usize")
            return VUnit()

        R("Vec::with_capacity", m_with_capacity)
        R("Vec::spare_capacity_mut", m_spare)
        R(["slice::as_mut_ptr", "mut_ptr::cast", "ptr::cast", "slice::as_ptr"], lambda ex2, s, fr, c, a, d, r: a[0])
        R(["slice::from_raw_parts_mut", "slice::from_raw_parts"], m_from_raw)
        R(["File as FileExt::read_at", "FileExt::read_at"], m_read_at)
        R("Vec::len", lambda ex2, s, fr, c, a, d, r: VInt(_buf(s, a[0]).fields[0].t, "usize"))
        R("Vec::capacity", lambda ex2, s, fr, c, a, d, r: VInt(_buf(s, a[0]).fields[1].t, "usize"))
        R("Vec::set_len", m_set_len)
        R("Vec::reserve", lambda ex2, s, fr, c, a, d, r: (_buf(s, a[0]).fields.__setitem__(
            1, VInt(z3.If(_buf(s, a[0]).fields[1].t - _buf(s, a[0]).fields[0].t >= a[1].t, _buf(s, a[0]).fields[1].t,
                          _buf(s, a[0]).fields[0].t + a[1].t), "usize")), VUnit())[1])
        R("Bytes as From::from", lambda ex2, s, fr, c, a, d, r: deref_all(s, a[0]))
        R("Bytes::new", lambda ex2, s, fr, c, a, d, r: VStruct("ByteBuf", [VInt(z3.IntVal(0), "usize"), VInt(z3.IntVal(0), "usize")]))
        R("File::open", lambda ex2, s, fr, c, a, d, r: ok(VOpaque("file", 0)))
        fn = find_fn(ex, "::read_blob_range", "cas_manager")
        from structs import mk
        mgr = mk(ex, st, "CasManager", paths=VStruct("DbPaths", [VOpaque("dbpaths")]), dir_tree_is_pre_created=VBool(True))
        old_lb = ex.loop_bound
        ex.loop_bound = short_reads + 3
        try:
            ex.start(st, fn, [VRef(st.alloc(mgr)), VRef(st.alloc(VSym(z3.Int("blob_hash"), "H"))), VInt(start, "u64"), VInt(end, "u64")])
            finals = ex.run(st)
        finally:
            ex.loop_bound = old_lb
        name = (f"read_blob_range's read loop for all lengths: Ok holds min(end,L)-min(start,L) bytes, start>end is an error, no overflow, "
                f"set_len within capacity (start, end, blob length over all u64; at most {short_reads} short reads)")
        terms = dict(blob_len=L, range_start=start, range_end=end)
        for f in finals:
            if f.status in ("unsupported", "cut"):
                return Obligation(name, ["C17"], "inconclusive", time.time() - t0, f"{f.status}: {f.note}", None, ex.queries - q0, len(finals))
        for (s2, what) in viol:
            r, m = ex.model_of(s2.pc)
            if r == z3.sat:
                cex = model_values(m, terms)
                cex.update(violation="set-len", detail=what)
                return Obligation(name, ["C17"], "violated", time.time() - t0, what, cex, ex.queries - q0, len(finals))
        nq = 0
        want = z3.If(end < L, end, L) - z3.If(start < L, start, L)
        want = z3.If(want > 0, want, 0)
        for f in finals:
            if f.status == "panic":
                r, m = ex.model_of(f.pc)
                cex = model_values(m, terms) if m else {}
                cex.update(violation="panic", detail=f.note)
                return Obligation(name, ["C17"], "violated", time.time() - t0, f"read_blob_range can panic: {f.note}", cex, ex.queries - q0, len(finals))
            if f.status != "returned":
                continue
            rv = f.retval
            isok = isinstance(rv, VEnum) and rv.concrete() == 0
            nq += 1
            if isok:
                b = rv.payloads[0][0]
                if not (isinstance(b, VStruct) and b.name == "ByteBuf"):
                    return Obligation(name, ["C17"], "inconclusive", time.time() - t0, f"unexpected result value {b}", None, ex.queries - q0, len(finals))
                bad = z3.Or(start > end, b.fields[0].t != want)
            else:
                bad = start <= end     # the only error without an I/O failure is the inverted range
            r, m = ex.model_of(f.pc, bad)
            if r == z3.sat:
                # prefer a witness small enough to materialise in the native replay
                for kk in (12, 16, 20, 25, 28, 30):
                    r2, m2 = ex.model_of(f.pc, z3.And(bad, L <= (1 << kk)))
                    if r2 == z3.sat:
                        m = m2
                        break
                cex = model_values(m, terms)
                got = m.eval(rv.payloads[0][0].fields[0].t, model_completion=True) if isok else None
                cex.update(violation="range-length", returned_len=(got.as_long() if got is not None else None),
                           detail="the range read returns a different number of bytes than the slice of the content has" if isok
                           else "a valid range is answered with an error",
                           reads=[(str(m.eval(e["n"], model_completion=True)), str(m.eval(e["k"], model_completion=True)))
                                  for e in f.trace if e["kind"] == "io" and e["op"] == "pread"])
                return Obligation(name, ["C17"], "violated", time.time() - t0, cex["detail"], cex, ex.queries - q0, len(finals))
            if r != z3.unsat:
                return Obligation(name, ["C17"], "inconclusive", time.time() - t0, "solver unknown", None, ex.queries - q0, len(finals))
        if not any(f.status == "returned" and isinstance(f.retval, VEnum) and f.retval.concrete() == 0 for f in finals):
            return Obligation(name, ["C17"], "inconclusive", time.time() - t0, "no successful path", None, ex.queries - q0, len(finals))
        return Obligation(name, ["C17"], "discharged", time.time() - t0, f"{len(finals)} paths, {nq} result queries", None, ex.queries - q0, len(finals))
