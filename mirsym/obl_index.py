"""Inductive obligations on the real `IndexState` code (C01 index step, C07 exact reclamation
list, C12 exact refcounts/stats): arbitrary invariant-satisfying pre-state, one real
`apply_logical_op` / `recompute_stats` / `increment_ref`-based load, post-state must satisfy
the specification again.  One step covers histories of any length; what is bounded is the
size of the symbolic state (key universe U, hash universe HU, keys per Remove)."""
import time

import z3

from exec import (VInt, VBool, VSym, VUnit, VStruct, VEnum, VRef, VVec, VMap, State, Unsupported)
from world import IndexWorld, find_fn, U64, U32


class Obligation:
    def __init__(self, name, prop_tags, status, time_s, detail="", cex=None, queries=0, paths=0):
        self.name, self.tags, self.status = name, prop_tags, status
        self.time_s, self.detail, self.cex, self.queries, self.paths = time_s, detail, cex, queries, paths

    def to_json(self):
        return dict(obligation=self.name, properties=self.tags, status=self.status,
                    solver_time_s=round(self.time_s, 3), detail=self.detail[:400], queries=self.queries,
                    paths=self.paths)


def model_values(m, terms):
    out = {}
    for name, t in terms.items():
        if isinstance(t, list):
            out[name] = [val(m, x) for x in t]
        else:
            out[name] = val(m, t)
    return out


def val(m, t):
    if not isinstance(t, z3.ExprRef):
        return t
    v = m.eval(t, model_completion=True)
    if z3.is_int_value(v):
        return v.as_long()
    if z3.is_true(v):
        return True
    if z3.is_false(v):
        return False
    return str(v)


def check_posts(ex, finals, posts, pre_terms, name, tags, allow_status=("returned",)):
    """posts(final_state) -> {label: z3 Bool}.  Every label on every final path is one query:
    pc ∧ ¬post must be unsat.  Panics / unsupported paths are failures / inconclusive."""
    t0 = time.time()
    q0 = ex.queries
    for f in finals:
        if f.status == "unsupported" or f.status == "cut":
            return Obligation(name, tags, "inconclusive", time.time() - t0, f"{f.status}: {f.note}", None,
                              ex.queries - q0, len(finals))
    for f in finals:
        if f.status not in allow_status:
            r, m = ex.model_of(f.pc)
            cex = model_values(m, pre_terms) if m is not None else None
            return Obligation(name, tags, "violated", time.time() - t0,
                              f"path ends in {f.status}: {f.note}", cex, ex.queries - q0, len(finals))
    n = 0
    for f in finals:
        for label, post in posts(f).items():
            n += 1
            r, m = ex.model_of(f.pc, z3.Not(post))
            if r == z3.sat:
                cex = model_values(m, pre_terms)
                return Obligation(name, tags, "violated", time.time() - t0, f"post-condition fails: {label}",
                                  cex, ex.queries - q0, len(finals))
            if r != z3.unsat:
                return Obligation(name, tags, "inconclusive", time.time() - t0, f"solver: {r} on {label}", None,
                                  ex.queries - q0, len(finals))
    if not finals:
        return Obligation(name, tags, "inconclusive", time.time() - t0, "no feasible path (vacuous)", None,
                          ex.queries - q0, 0)
    return Obligation(name, tags, "discharged", time.time() - t0, f"{len(finals)} paths, {n} post-condition queries",
                      None, ex.queries - q0, len(finals))


def pre_terms_of(w, extra):
    d = dict(keys=w.keys, hashes=w.hashes, pk=w.pk, hk=w.hk, sk=w.sk, rp=w.rp, rc=w.rc,
             unique=w.unique, total=w.total)
    d.update(extra)
    return d


def fits(w, s):
    """environment assumption: the sum of sizes of all distinct stored contents fits in u64"""
    return s["total"] <= U64


def run_apply(ex, U, HU, op_kind, nkeys=1, tags=None):
    """-> Obligation for apply_logical_op with a symbolic op of the given kind"""
    st = State()
    w = IndexWorld(ex, st, U=U, HU=HU)
    stref = VRef(st.alloc(w.value))
    pre = w.snapshot_pre()
    cnt = w.counts(pre)
    extra = {}
    if op_kind == "put":
        k, h, sz = z3.Int("op_key"), z3.Int("op_hash"), z3.Int("op_size")
        st.pc += [z3.Or([k == u for u in w.keys]), z3.Or([h == g for g in w.hashes]), sz >= 0, sz <= U64]
        # content addressing (C18): a hash determines the content, hence its length
        for i in range(U):
            st.pc.append(z3.Implies(z3.And(w.pk[i], w.hk[i] == h), w.sk[i] == sz))
        # environment: all distinct contents incl. the new one fit in u64 bytes
        st.pc.append(w.total + sz <= U64)
        op = VEnum("WalOp", 0, {0: [VSym(k, "K"), VSym(h, "H"), VInt(sz, "u64")]})
        extra = dict(op="put", op_key=k, op_hash=h, op_size=sz)
    else:
        ks = [z3.Int(f"op_key{i}") for i in range(nkeys)]
        for k in ks:
            st.pc.append(z3.Or([k == u for u in w.keys]))
        op = VEnum("WalOp", 1, {1: [VVec([VSym(k, "K") for k in ks])]})
        extra = dict(op="remove", op_keys=ks)
    opref = VRef(st.alloc(op))
    fn = find_fn(ex, "::apply_logical_op")
    ex.start(st, fn, [stref, opref])
    finals = ex.run(st)

    def posts(f):
        post = w.snapshot_of(f, stref)
        out = {}
        inv = w.invariant(post, parts=True)
        for label, t in inv.items():
            out["C12 " + label] = t
        # C01: textbook map update
        for i in range(U):
            u = w.keys[i]
            if op_kind == "put":
                exp_p = z3.Or(u == k, pre["pk"][i])
                exp_h = z3.If(u == k, h, pre["hk"][i])
                exp_s = z3.If(u == k, sz, pre["sk"][i])
            else:
                hit = z3.Or([u == kk for kk in ks])
                exp_p = z3.And(pre["pk"][i], z3.Not(hit))
                exp_h, exp_s = pre["hk"][i], pre["sk"][i]
            out[f"C01 key u{i}: presence is the textbook map update"] = post["pk"][i] == exp_p
            out[f"C01 key u{i}: value is the textbook map update"] = z3.Implies(
                exp_p, z3.And(post["hk"][i] == exp_h, post["sk"][i] == exp_s))
        # result must be Ok(list) with list == exactly the hashes whose count dropped to zero
        rv = f.retval
        if not (isinstance(rv, VEnum) and rv.concrete() == 0):
            out["returns Ok"] = z3.BoolVal(False)
            return out
        lst = rv.payloads[0][0]
        elems = [e.t for e in lst.elems]
        cnt2 = w.counts(post)
        for j in range(HU):
            g = w.hashes[j]
            dropped = z3.And(cnt[j] > 0, cnt2[j] == 0)
            inlist = z3.Or([e == g for e in elems]) if elems else z3.BoolVal(False)
            out[f"C07 hash g{j}: in the unreferenced list iff its last reference went away"] = inlist == dropped
        if len(elems) > 1:
            out["C07 unreferenced list has no duplicates"] = z3.Distinct(*elems)
        for n, e in enumerate(elems):
            out[f"C07 list element {n} is a known hash"] = z3.Or([e == g for g in w.hashes])
        if tags:
            out = {k: v for k, v in out.items() if k.split(" ")[0] in tags or not k.startswith("C")}
        return out

    name = f"apply_logical_op[{op_kind}{'' if op_kind == 'put' else nkeys}] U={U} HU={HU}"
    ob = check_posts(ex, finals, posts, pre_terms_of(w, extra), name, ["C01", "C07", "C12"])
    ob.kind = ("apply", op_kind, nkeys)
    return ob


def run_recompute(ex, U, HU):
    """recompute_stats on an arbitrary map must give the same unique/total as the spec"""
    st = State()
    w = IndexWorld(ex, st, U=U, HU=HU)
    # stats before the call are arbitrary: drop the stats clauses by re-randomising the stats fields
    a, b = z3.Int("junk_unique"), z3.Int("junk_total")
    st.pc += [a >= 0, a <= U64, b >= 0, b <= U64]
    from structs import fget, fset
    cas_stats = fget(ex, fget(ex, w.value, "IndexState", "stats"), "DbStats", "cas")
    fset(ex, cas_stats, "CasStats", "unique_blobs", VInt(a, "u64"))
    fset(ex, cas_stats, "CasStats", "total_bytes", VInt(b, "u64"))
    stref = VRef(st.alloc(w.value))
    sz = z3.Int("file_size")
    st.pc += [sz >= 0, sz <= U64]
    fn = find_fn(ex, "::recompute_stats")
    ex.start(st, fn, [stref, VInt(sz, "u64")])
    finals = ex.run(st)
    pre = w.snapshot_pre()

    def posts(f):
        post = w.snapshot_of(f, stref)
        inv = w.invariant(post, parts=True)
        out = {"C12 recompute: " + k: v for k, v in inv.items() if "unique" in k or "total" in k}
        out["C12 recompute: unique_blobs equals incremental value"] = post["unique"] == pre["unique"]
        out["C12 recompute: total_bytes equals incremental value"] = post["total"] == pre["total"]
        v = f.load(stref)
        out["index size recorded"] = fget(ex, fget(ex, fget(ex, v, "IndexState", "stats"), "DbStats", "index"), "IndexStats", "serialized_size_bytes").t == sz
        return out
    ob = check_posts(ex, finals, posts, pre_terms_of(w, dict(op="recompute")), f"recompute_stats U={U} HU={HU}", ["C12", "C02"])
    ob.kind = ("recompute",)
    return ob


def run_load_refcounts(ex, U, HU):
    """the loop body of IndexStatePersister::load: insert + increment_ref per decoded entry, from
    an empty state, for an arbitrary decoded map of <= U entries -> refcounts = key counts.
    (The decoded map is fed entry by entry through the real increment_ref MIR.)"""
    import time as _t
    t0 = _t.time()
    st = State()
    w = IndexWorld(ex, st, U=U, HU=HU)
    # target state: empty maps; source: the world's key map
    from models import new_map
    empty_k = new_map("btree", w.kmap.vshape)
    empty_r = new_map("hash", ("int", "u32"))
    empty_r.ksort = "H"
    from structs import mk
    tgt = mk(ex, st, "IndexState", key_to_hash=empty_k, hash_to_ref_count=empty_r, last_persisted_version=VEnum("Option", 0, {0: []}),
             stats=mk(ex, st, "DbStats", cas=mk(ex, st, "CasStats", unique_blobs=VInt(0, "u64"), total_bytes=VInt(0, "u64")),
                      index=mk(ex, st, "IndexStats", serialized_size_bytes=VInt(0, "u64"))))
    tref = VRef(st.alloc(tgt))
    inc = find_fn(ex, "::increment_ref")
    states = [st]
    q0 = ex.queries
    for i in range(U):
        nxt = []
        for s in states:
            for present in (True, False):
                cond = w.pk[i] if present else z3.Not(w.pk[i])
                if not ex.feasible(s.pc, cond):
                    continue
                s2 = s.clone()
                s2.pc.append(cond)
                if present:
                    t = s2.load(tref)
                    from structs import fget as _fg
                    km = _fg(ex, t, "IndexState", "key_to_hash")
                    km.present = z3.Store(km.present, w.keys[i], z3.BoolVal(True))
                    km.cols["blob_hash"] = z3.Store(km.cols["blob_hash"], w.keys[i], w.hk[i])
                    km.cols["blob_size"] = z3.Store(km.cols["blob_size"], w.keys[i], w.sk[i])
                    href = VRef(s2.alloc(VSym(w.hk[i], "H")))
                    ex.start(s2, inc, [tref, href])
                    for f in ex.run(s2):
                        if f.status != "returned":
                            return Obligation("persister load refcounts", ["C12", "C02"], "violated" if f.status == "panic" else "inconclusive",
                                              _t.time() - t0, f"{f.status}: {f.note}", None, ex.queries - q0, 0)
                        f.status = "running"
                        nxt.append(f)
                else:
                    nxt.append(s2)
        states = nxt
    pre = w.snapshot_pre()

    def posts(f):
        post = w.snapshot_of(f, tref)
        out = {}
        for j in range(HU):
            out[f"C12 load: refcount of g{j} = number of loaded keys"] = z3.And(post["rp"][j] == pre["rp"][j],
                                                                                z3.Implies(pre["rp"][j], post["rc"][j] == pre["rc"][j]))
        return out
    for f in states:
        f.status = "returned"
    ob = check_posts(ex, states, posts, pre_terms_of(w, dict(op="load")), f"persister-load refcount rebuild U={U} HU={HU}", ["C12", "C02"])
    ob.kind = ("load",)
    return ob
