"""Crate structs built and addressed BY FIELD NAME, in the order of the CURRENT source (srcinfo).

A field the framework does not know (added by a later commit - a poison flag, a counter) gets an ARBITRARY value of
its declared type (fresh symbolic bool / integer / Option of those): the checks are inductive steps from arbitrary
states, so "any value" is the sound reading.  A field of a type without such a default, or a known field that no
longer exists, makes the construction Unsupported (the check ends INCONCLUSIVE, never silently wrong)."""
import re

import z3

from exec import VInt, VBool, VStruct, VEnum, VOpaque, VVec, Unsupported

INT_TYPES = {"u8": "u8", "u16": "u16", "u32": "u32", "u64": "u64", "usize": "usize", "i32": "i32", "i64": "i64",
             "NonZeroU64": "u64", "NonZeroU32": "u32", "NonZeroUsize": "usize", "NonZero<u64>": "u64", "NonZero<u32>": "u32"}
OPAQUE_TYPES = ("Instant", "Duration", "PathBuf", "String", "SystemTime")


def fresh_field(ex, st, ty, label):
    ty = ty.strip().rstrip(",")
    ty = re.sub(r"^(std|core)::\w+::", "", ty)
    if ty == "bool":
        return VBool(ex.fresh(label, "bool"))
    if ty in INT_TYPES:
        v = ex.new_int(st, INT_TYPES[ty], label)
        if ty.startswith("NonZero"):
            st.pc.append(v.t >= 1)
        return v
    m = re.match(r"Option<(.*)>$", ty)
    if m:
        inner = fresh_field(ex, st, m.group(1), label + "_v")
        return VEnum("Option", z3.If(ex.fresh(label + "_some", "bool"), z3.IntVal(1), z3.IntVal(0)), {0: [], 1: [inner]})
    if ty.split("::")[-1] in OPAQUE_TYPES:
        return VOpaque("field", label)
    if re.match(r"Vec<.*>$", ty):
        return VVec([])
    m = re.match(r"(?:parking_lot::)?(Mutex|RwLock)<(.*)>$", ty)
    if m:
        return VStruct(m.group(1), [fresh_field(ex, st, m.group(2), label + "_inner"), VOpaque("lockname", label)])
    m = re.match(r"Arc<(.*)>$", ty)
    if m:
        return VStruct("Arc", [fresh_field(ex, st, m.group(1), label)])
    base = re.sub(r"<.*>$", "", ty).split("::")[-1]
    if base in ex.si.structs and ex.si.structs[base] and base not in ("Index", "CasInner", "IndexState", "WalManager"):
        # a crate struct this framework has never heard of: every field arbitrary (containers start empty)
        return mk(ex, st, base)
    raise Unsupported(f"no arbitrary value for a new field `{label}` of type `{ty}`")


def mk(ex, st, name, **known):
    """VStruct `name` with the given fields by name, ordered as in the current source"""
    order = ex.si.structs.get(name)
    if not order:
        return VStruct(name, list(known.values()))
    gone = [f for f in known if f not in order]
    if gone:
        raise Unsupported(f"struct {name} no longer has the field(s) {gone} this model relies on")
    types = getattr(ex.si, "struct_types", {}).get(name, {})
    fields = []
    for f in order:
        if f in known:
            fields.append(known[f])
        else:
            fields.append(fresh_field(ex, st, types.get(f, "?"), f"{name}_{f}"))
    return VStruct(name, fields)


def fidx(ex, name, field):
    order = ex.si.structs.get(name)
    if not order or field not in order:
        raise Unsupported(f"struct {name} has no field `{field}` in the current source")
    return order.index(field)


def fget(ex, v, name, field):
    return v.fields[fidx(ex, name, field)]


def fset(ex, v, name, field, val):
    v.fields[fidx(ex, name, field)] = val
