"""C03 (crash during start-up recovery) / C02 (restart is transparent) at the level of the disk image.

The real `Index::load` (full MIR: WalManager::new, the replay loop, the apply closure with the real
index step, replay_and_prepare incl. ensure_segment_file_exists, the after-replay checkpoint with
snapshot write / rename / prune) runs on an abstract but fully explicit durable image:
    snapshot  = (version c, map Ms)                    - an arbitrary invariant-satisfying IndexState
    log       = nrec records (version, segment, op)    - versions strictly increasing, each in the segment
                of its version, op = Put(key,hash,size) | Remove(key) with symbolic content, grouped into
                segments in every possible way; records at or below c may still be around
    blobs     = every hash the recovered map R0 references + arbitrary orphans
R0 = Ms + textbook replay of the records above c  is what a correct recovery must produce.
Obligations, one solver query after every image-changing filesystem effect of every path:
    the image still recovers to R0 (so a crash INSIDE recovery, followed by another recovery, loses or
    invents nothing), no record above the current snapshot version was destroyed (unlink / truncate),
    recovery appends no record, an installed snapshot is complete and not labelled above the highest
    version, every key of R0 keeps its blob;
and at the end of a successful load: the in-memory map equals R0, next_op_version = highest version + 1,
the segment of the next version exists."""
import time

import z3

from exec import (VInt, VBool, VSym, VUnit, VStruct, VEnum, VRef, VVec, VMap, VOpaque, State)
from world import IndexWorld, find_fn, U64
from obl_index import Obligation, model_values
from obl_replay import scoped_models, LogDisk, install_models
from models import ok, err, some, none, deref_all, sym_option
from iomodel import IoModel, BlobDisk, P
import obl_trace as T


def created_segs(st):
    """segments created (open with create) so far on this path"""
    out = []
    for e in st.trace:
        if e["kind"] == "io" and e["op"] == "open" and (e.get("path") or ("",))[0] == "wal" and e.get("flags", {}).get("create") \
                and isinstance(e["outcome"], str) and e["outcome"] == "ok":
            out.append(e["path"][1])
    return out


class RecDisk(BlobDisk):
    """cas/ as a symbolic set (BlobDisk) + existence of WAL segment files tied to the abstract log"""

    def __init__(self, disk):
        self.logdisk = disk

    def exists(self, ex, st, path):
        if path and path[0] == "wal":
            segs = [self.logdisk.segs[g[0]] for g in st.meta.get("groups", [])]
            created = created_segs(st)
            return z3.Or([path[1] == s for s in segs + created]) if (segs or created) else z3.BoolVal(False)
        return BlobDisk.exists(self, ex, st, path)


def textbook(w, pk, hk, recs, sv, alive=None):
    pk, hk = list(pk), list(hk)
    for i, r in enumerate(recs):
        cond = r["ver"] > sv
        if alive is not None:
            cond = z3.And(cond, alive[i])
        for u in range(w.U):
            hit = z3.And(cond, w.keys[u] == r["key"])
            pk[u] = z3.If(hit, r["put"], pk[u])
            hk[u] = z3.If(z3.And(hit, r["put"]), r["hash"], hk[u])
    return pk, hk


def ob_recovery_image(ex, nrec, U=2, HU=2, N=2):
    with scoped_models(ex):
        if ex.models.io_hook is None:
            IoModel(ex.models)
        io = ex.models.io_hook
        t0 = time.time()
        q0 = ex.queries
        st0 = State()
        st0.faults_left = 0
        w = IndexWorld(ex, st0, U=U, HU=HU)
        disk = LogDisk(ex, st0, nrec)
        st0.pc.append(disk.c == w.lpv)
        recs = []
        for i in range(nrec):
            st0.pc += [disk.segs[i] * N < disk.vers[i], disk.vers[i] <= (disk.segs[i] + 1) * N]
            put = z3.Bool(f"rec_put{i}")
            k = z3.Int(f"rec_key{i}")
            h = z3.Int(f"rec_hash{i}")
            sz = z3.Int(f"rec_size{i}")
            st0.pc += [z3.Or([k == u for u in w.keys]), z3.Or([h == g for g in w.hashes]), sz >= 0, sz <= U64]
            for u in range(w.U):
                st0.pc.append(z3.Implies(z3.And(w.pk[u], w.hk[u] == h), w.sk[u] == sz))
            for r in recs:
                st0.pc.append(z3.Implies(r["hash"] == h, r["size"] == sz))
            recs.append(dict(ver=disk.vers[i], seg=disk.segs[i], put=put, key=k, hash=h, size=sz))
        st0.pc.append(w.total + z3.Sum([r["size"] for r in recs] + [z3.IntVal(0)]) <= U64)
        ops = [VEnum("WalOp", z3.If(r["put"], 0, 1), {0: [VSym(r["key"], "K"), VSym(r["hash"], "H"), VInt(r["size"], "u64")],
                                                       1: [VVec([VSym(r["key"], "K")])]}) for r in recs]
        install_models(ex, disk)
        M = ex.models
        M.reg("deserialize_wal_op_raw", lambda ex2, st, fr, c, a, d, r: ok(VOpaque("raw-op", deref_all(st, a[0]).data)))
        M.reg("WalOp::from_raw", lambda ex2, st, fr, c, a, d, r: ok(ops[a[0].data[1]].clone()))

        def m_persister_load(ex2, st, fr, c, a, d, r):
            st.event("io", op="read", outcome="ok", path=("index",))
            return ok(w.value.clone())
        M.reg("IndexStatePersister::load", m_persister_load)

        def m_discover(ex2, st, fr, c, a, d, r):
            segs = [disk.segs[grp[0]] for grp in st.meta["groups"]]
            gone = [e["path"][1] for e in st.trace if e["kind"] == "io" and e["op"] == "unlink" and (e.get("path") or ("",))[0] == "wal"
                    and isinstance(e["outcome"], str) and e["outcome"] == "ok"]
            if gone:
                raise ValueError("directory listing after a prune is not modelled")
            infos = [VStruct("SegmentInfo", [VInt(s_, "u64"), P("wal", s_)]) for s_ in segs]
            extra = [s_ for s_ in created_segs(st)]
            st.event("io", op="read_dir", outcome="ok", path=("root",))
            outs = []
            # a created segment is listed unless it is one of the existing ones (then it was not created) - it sorts last
            for s_ in extra[:1]:
                infos = infos + [VStruct("SegmentInfo", [VInt(s_, "u64"), P("wal", s_)])]
            return ok(VVec(infos))
        M.reg("SegmentStorage::discover_segments", m_discover)
        # R0 and the blob set
        r0pk, r0hk = textbook(w, w.pk, w.hk, recs, disk.c)
        blobs = z3.K(z3.IntSort(), z3.BoolVal(False))
        orphan_bits = []
        for j, g in enumerate(w.hashes):
            ob = z3.Bool(f"w_orphan{j}")
            orphan_bits.append(ob)
            refd = z3.Or([z3.And(r0pk[u], r0hk[u] == g) for u in range(w.U)])
            blobs = z3.Store(blobs, g, z3.Or(refd, ob))
        st0.meta["blobs"] = blobs
        io.disk = RecDisk(disk)
        fn = find_fn(ex, "::load", "index::manager")
        from structs import mk
        cfgv = mk(ex, st0, "Config", sync_mode=VEnum("SyncMode", 0, {0: [], 1: []}), num_ops_per_wal=VInt(N, "u64"),
                  pre_create_cas_dirs=VBool(False), scan_orphans_on_startup=VBool(False), verify_blob_integrity=VBool(False),
                  fail_on_integrity_errors=VBool(False))
        finals = []
        try:
            for st, groups in (disk.groups(ex, st0) if nrec else [(st0, [])]):
                st.meta["groups"] = groups
                st.meta["tail"] = False
                ex.start(st, fn, [VOpaque("path", ("root",)), cfgv.clone()])
                finals += ex.run(st)
        finally:
            io.disk = None
        name = (f"disk image at every crash cut of start-up recovery (Index::load) on a snapshot + log of {nrec} records "
                f"(U={U}, HU={HU}, N={N}): the image keeps recovering to the same map; at return memory = that map, next = highest + 1")
        tags = ["C03", "C02", "C20"]
        for f in finals:
            if f.status in ("unsupported", "cut"):
                return Obligation(name, tags, "inconclusive", time.time() - t0, f"{f.status}: {f.note}", None, ex.queries - q0, len(finals))
        terms = dict(keys=w.keys, hashes=w.hashes, pk=w.pk, hk=w.hk, snap_ver=disk.c, versions=disk.vers, segments=disk.segs,
                     rec_put=[r["put"] for r in recs], rec_key=[r["key"] for r in recs], rec_hash=[r["hash"] for r in recs], orphans=orphan_bits)
        nq = ncuts = 0
        hi = disk.c
        for v_ in disk.vers:
            hi = z3.If(v_ > hi, v_, hi)
        for f in finals:
            def viol(msg, m, extra=None):
                cex = model_values(m, terms) if m is not None else {}
                cex.update(entry="recover", N=N, violation="recovery-image", detail=msg, mode="kill", sync_mode="sync",
                           groups=str(f.meta.get("groups")), steps=[T.short(x) for x in f.trace if x["kind"] == "io"][:60])
                if extra:
                    cex.update(extra)
                return Obligation(name, tags, "violated", time.time() - t0, msg, cex, ex.queries - q0, len(finals))
            if f.status in ("panic", "deadlock"):
                r, m = ex.model_of(f.pc)
                return viol(f"recovery of a well-formed image ends in {f.status}: {f.note}", m)
            ios = [e for e in f.trace if e["kind"] == "io"]
            snap = None      # (ver, map, intact)
            tmp = None
            killed = [[] for _ in recs]
            cur_blobs = blobs
            wrote_record = False
            isok = isinstance(f.retval, VEnum) and f.retval.concrete() == 0
            for ci, e in enumerate(ios):
                op, p_ = e["op"], e.get("path") or ("",)
                okc = isinstance(e["outcome"], str) and e["outcome"] == "ok"
                changed = False
                if p_[0] == "wal":
                    if op == "write" and okc and T._record_parts(e.get("data", [])) is not None:
                        wrote_record = True
                        changed = True
                    if (op == "unlink" and okc) or (op == "open" and okc and e.get("flags", {}).get("truncate")):
                        for i, r in enumerate(recs):
                            killed[i].append(r["seg"] == p_[1])
                        changed = True
                elif p_[0] == "index.tmp":
                    if op == "write" and okc:
                        sn = None
                        for d in e.get("data", []):
                            if isinstance(d, tuple) and len(d) == 2 and isinstance(d[1], tuple) and d[1] and d[1][0] == "snapshot":
                                sn = d[1]
                        if sn is None or (tmp is not None and tmp[0] == "snapshot"):
                            tmp = ("garbage",)
                        else:
                            lpv = sn[2]
                            vt = lpv.payloads[1][0].t if (isinstance(lpv, VEnum) and 1 in lpv.payloads and lpv.payloads[1]) else z3.IntVal(0)
                            vt = z3.If(lpv.disc == 1, vt, 0) if isinstance(lpv, VEnum) else vt
                            tmp = ("snapshot", vt, sn[1])
                    if op == "open" and okc and e.get("flags", {}).get("truncate"):
                        tmp = None
                    if op == "rename" and okc and (e.get("dst") or ("",))[0] == "index":
                        snap = tmp if tmp is not None else ("garbage",)
                        tmp = None
                        changed = True
                elif p_[0] == "index" and okc and (op == "unlink" or (op == "open" and e.get("flags", {}).get("truncate"))):
                    snap = ("garbage",)
                    changed = True
                elif p_[0] == "cas" and okc and op in ("unlink", "rename"):
                    cur_blobs = z3.Store(cur_blobs, p_[1], z3.BoolVal(False))
                    changed = True
                last = ci == len(ios) - 1
                if not changed and not last:
                    continue
                posts = {}
                posts["recovery appends no record to the log"] = z3.BoolVal(not wrote_record)
                if snap is None:
                    spk, shk, sv = list(w.pk), list(w.hk), disk.c
                elif snap[0] == "snapshot":
                    m_ = snap[2]
                    spk = [z3.Select(m_.present, k) for k in w.keys]
                    shk = [z3.Select(m_.cols["blob_hash"], k) for k in w.keys]
                    sv = snap[1]
                    posts["the installed snapshot is not labelled above the highest version on disk"] = sv <= hi
                else:
                    posts["the installed snapshot is complete"] = z3.BoolVal(False)
                    spk, shk, sv = list(w.pk), list(w.hk), disk.c
                alive = [z3.Not(z3.Or(kl)) if kl else z3.BoolVal(True) for kl in killed]
                posts["no destroyed (unlinked/truncated) segment held a record above the snapshot version"] = z3.And(
                    [z3.Or(alive[i], recs[i]["ver"] <= sv) for i in range(nrec)] or [z3.BoolVal(True)])
                rpk, rhk = textbook(w, spk, shk, recs, sv, alive)
                posts["the image still recovers to the same map (recovery neither loses nor invents anything)"] = z3.And(
                    [z3.And(rpk[u] == r0pk[u], z3.Implies(rpk[u], rhk[u] == r0hk[u])) for u in range(w.U)])
                posts["every key of the recovered map has its blob"] = z3.And([z3.Implies(r0pk[u], z3.Select(cur_blobs, r0hk[u])) for u in range(w.U)])
                if last and isok and f.status == "returned":
                    idx = f.retval.payloads[0][0]
                    from structs import fget
                    stv = fget(ex, idx, "Index", "state").fields[0].fields[0]          # Arc<RwLock<IndexState>>
                    post = w.snapshot_of(f, stv)
                    posts["at return the in-memory map is the recovered map"] = z3.And(
                        [z3.And(post["pk"][u] == r0pk[u], z3.Implies(r0pk[u], post["hk"][u] == r0hk[u])) for u in range(w.U)])
                    # sizes: the size recorded for a key is the size its last record / the snapshot gave it
                    r0sk = list(w.sk)
                    for r_ in recs:
                        for u in range(w.U):
                            r0sk[u] = z3.If(z3.And(r_["ver"] > disk.c, w.keys[u] == r_["key"], r_["put"]), r_["size"], r0sk[u])
                    posts["at return every key has the size its last record gave it"] = z3.And(
                        [z3.Implies(r0pk[u], post["sk"][u] == r0sk[u]) for u in range(w.U)])
                    posts["at return reference counts and statistics are exact for the recovered map (C12 invariant)"] = w.invariant(post)
                    walv = fget(ex, idx, "Index", "wal").fields[0]
                    posts["at return next_op_version = highest version on disk + 1"] = fget(ex, walv, "WalManager", "next_op_version").t == hi + 1
                    nseg_ok = z3.Or([z3.And(s * N < hi + 1, hi + 1 <= (s + 1) * N) for s in
                                     [disk.segs[g[0]] for g in f.meta.get("groups", [])] + created_segs(f)] or [z3.BoolVal(False)])
                    # a segment pruned by the after-replay checkpoint cannot be the one of `next`
                    posts["at return the segment of the next version exists"] = nseg_ok
                ncuts += 1
                nq += 1
                bad = z3.Not(z3.And(list(posts.values())))
                r, m = ex.model_of(f.pc, bad)
                if r == z3.unsat:
                    continue
                if r != z3.sat:
                    return Obligation(name, tags, "inconclusive", time.time() - t0, "solver unknown at a cut", None, ex.queries - q0, len(finals))
                which = "?"
                for lab, c in posts.items():
                    if z3.is_false(m.eval(c, model_completion=True)):
                        which = lab
                        break
                return viol(f"after {ci + 1} of {len(ios)} filesystem effects of recovery: {which}", m, dict(cut=ci + 1, pred="recovery_image:" + which[:40]))
        if not finals:
            return Obligation(name, tags, "inconclusive", time.time() - t0, "no feasible path", None, ex.queries - q0, 0)
        return Obligation(name, tags, "discharged", time.time() - t0, f"{len(finals)} paths, {ncuts} crash cuts, {nq} image queries", None,
                          ex.queries - q0, len(finals))
