"""File-system, path, hashing and threading models for mirsym.

Every std::fs / File / BufWriter / tempfile call becomes an *effect event* appended to the path's
trace (with the lock-set held at that moment) and returns a symbolic outcome: Ok, or — while the
path still has fault budget — Err (one fresh branch per call: this is how fault schedules become
symbolic).  Disk-state dependent outcomes (NotFound on read/unlink, exists()) are delegated to a
`disk` hook supplied by the check; without a hook they are unconstrained choices.
Paths are descriptors, e.g. ('cas', <hash term>), ('wal', <segment id term>), ('index.tmp',).
"""
import re

import z3

from exec import (VInt, VBool, VSym, VUnit, VUninit, VOpaque, VFn, VStruct, VEnum, VRef, VVec, VMap,
                  VGuard, VIter, Unsupported, strip_generics, base_type)
from models import ok, err, some, none, sym_option, deref_all, seq, fork_enum

ERRKINDS = ["NotFound", "AlreadyExists", "UnexpectedEof", "InvalidData", "InvalidInput", "Other"]


def errkind(name):
    return VEnum("ErrorKind", ERRKINDS.index(name), {ERRKINDS.index(name): []})


def ioerr(kind="Other", injected=False):
    return VOpaque("ioerr", {"kind": kind, "injected": injected})


def path_desc(st, v):
    v = deref_all(st, v)
    if isinstance(v, VOpaque) and v.tag == "path":
        return v.data
    if isinstance(v, VOpaque):
        return ("opaque", v.tag)
    if isinstance(v, VStruct) and v.name == "NamedTempFile":
        return ("staging", v.fields[0].data)
    return ("unknown", str(type(v).__name__))


def P(*desc):
    return VOpaque("path", tuple(desc))


class IoModel:
    def __init__(self, models):
        self.models = models
        self.disk = None          # optional hook object (see DiskHook)
        self.spill = False        # BufWriter may flush early (record larger than its buffer)
        self.fault_filter = None  # optional (op, info) -> bool: which calls of `call` may fail (default: all)
        models.io_hook = self
        self.register(models)

    # -- core: one fallible call
    def call(self, ex, st, d, r, op, okval, fallible=True, **info):
        outs = []
        if fallible and st.faults_left > 0 and (self.fault_filter is None or self.fault_filter(op, info)):
            s2 = st.clone()
            s2.faults_left -= 1
            s2.event("io", op=op, outcome="err", **info)
            s2.meta["fault"] = (op, info.get("path"), len(s2.trace) - 1)
            outs += ex.finish_call(s2, d, r, err(ioerr("Other", True)))
        st.event("io", op=op, outcome="ok", **info)
        if self.disk is not None:
            self.disk.apply(ex, st, op, info)
        outs += ex.finish_call(st, d, r, ok(okval) if fallible else okval)
        return outs

    def new_file(self, st, path, **flags):
        n = st.meta.get("nfid", 0) + 1
        st.meta["nfid"] = n
        files = dict(st.meta.get("files", {}))
        files[n] = dict(path=path, **flags)
        st.meta["files"] = files
        return VOpaque("file", n)

    def file_path(self, st, f):
        f = deref_all(st, f)
        if isinstance(f, VOpaque) and f.tag == "file":
            return st.meta.get("files", {}).get(f.data, {}).get("path", ("?",))
        return ("?",)

    def on_drop(self, ex, st, v):
        if isinstance(v, VStruct) and v.name in ("NamedTempFile", "TempPath"):
            st.event("io", op="unlink", outcome="ok", path=("staging", v.fields[0].data), why=v.name + " drop")
        elif isinstance(v, VStruct) and v.name == "BufWriter":
            pend = v.fields[1]
            if isinstance(pend, VVec) and pend.elems:
                st.event("io", op="write", outcome="ok", path=self.file_path(st, v.fields[0]),
                         data=[e.data for e in pend.elems], why="BufWriter drop flush")

    # -- disk dependent outcomes
    def exists(self, ex, st, path):
        if self.disk is not None:
            r = self.disk.exists(ex, st, path)
            if r is not None:
                return r
        b = ex.fresh("exists", "bool")
        st.event("io", op="exists?", outcome=b, path=path)
        return b

    def register(self, M):
        R = M.reg
        io = self
        # ---- paths (crate DbPaths methods are overridden: no string building needed)
        for name, desc in (("db_root_path", ("root",)), ("lockfile_path", ("lock",)), ("index_file_path", ("index",)),
                           ("index_tmp_path", ("index.tmp",)), ("cas_root_path", ("cas",)),
                           ("staging_root_path", ("staging",)), ("settings_path", ("settings",))):
            R("DbPaths::" + name, (lambda dsc: lambda ex, st, fr, c, a, d, r: VRef(st.alloc(P(*dsc))))(desc))
        R("DbPaths::wal_path_for_segment", lambda ex, st, fr, c, a, d, r: P("wal", a[1].t))
        R("DbPaths::cas_file_path", lambda ex, st, fr, c, a, d, r: P("cas", deref_all(st, a[1]).t))
        R("DbPaths::new", lambda ex, st, fr, c, a, d, r: VStruct("DbPaths", [VOpaque("dbpaths")]))
        R("DbPaths::verify_all_paths_same_fs", lambda ex, st, fr, c, a, d, r: ok(VBool(True)))
        R(["Path::to_path_buf", "PathBuf as Deref::deref", "PathBuf as Clone::clone", "impl AsRef as AsRef::as_ref",
           "Path::as_os_str"],
          lambda ex, st, fr, c, a, d, r: m_path_passthrough(st, a[0], strip_generics(c)))
        R(["String::as_bytes", "Vec as AsRef::as_ref"], lambda ex, st, fr, c, a, d, r: a[0])
        R("Path::join", lambda ex, st, fr, c, a, d, r: P(*(path_desc(st, a[0]) + ("/", str(deref_all(st, a[1]))))))
        R("Path::with_extension", lambda ex, st, fr, c, a, d, r: P(*(path_desc(st, a[0]) + (".tmp",))))
        R("Path::parent", lambda ex, st, fr, c, a, d, r: some(VRef(st.alloc(P("parent-of",) ))))
        R("Path::exists", lambda ex, st, fr, c, a, d, r: VBool(io.exists(ex, st, path_desc(st, a[0]))))
        R(["Path::is_dir", "Path::is_file"], lambda ex, st, fr, c, a, d, r: VBool(ex.fresh("isdir", "bool")))
        R("Path::display", lambda ex, st, fr, c, a, d, r: VOpaque("fmt"))
        # ---- std::fs free functions
        R(["create_dir_all", "fs::create_dir_all"], lambda ex, st, fr, c, a, d, r: io.call(ex, st, d, r, "mkdir", VUnit(), path=path_desc(st, a[0])))
        R(["rename", "fs::rename"], lambda ex, st, fr, c, a, d, r: io.call(ex, st, d, r, "rename", VUnit(),
                                                       path=path_desc(st, a[0]), dst=path_desc(st, a[1])))
        R(["remove_file", "fs::remove_file"], m_remove_file(io))
        R(["Bytes as From::from"], lambda ex, st, fr, c, a, d, r: a[0])
        R(["Bytes::new"], lambda ex, st, fr, c, a, d, r: VOpaque("filebytes", ("empty",)))
        R("fs::read", m_fs_read(io))
        R("fs::read_to_string", m_fs_read(io))
        R(["fs::metadata", "metadata", "Path::metadata", "fs::symlink_metadata"], m_metadata(io))
        R(["Metadata::is_file"], lambda ex, st, fr, c, a, d, r: VBool(True))
        R(["Metadata::is_dir"], lambda ex, st, fr, c, a, d, r: VBool(False))
        R("Metadata::len", lambda ex, st, fr, c, a, d, r: ex.new_int(st, "u64", "flen"))
        # ---- OpenOptions / File
        R("OpenOptions::new", lambda ex, st, fr, c, a, d, r: VOpaque("oo", {}))
        for flag in ("create", "append", "truncate", "write", "read"):
            R("OpenOptions::" + flag, (lambda fl: lambda ex, st, fr, c, a, d, r: m_oo_flag(st, a, fl))(flag))
        R("OpenOptions::open", lambda ex, st, fr, c, a, d, r: m_open(io, ex, st, d, r, path_desc(st, a[1]),
                                                                     dict(deref_all(st, a[0]).data)))
        R("File::create", lambda ex, st, fr, c, a, d, r: m_open(io, ex, st, d, r, path_desc(st, a[0]),
                                                                dict(create=True, truncate=True, write=True)))
        R("File::open", lambda ex, st, fr, c, a, d, r: m_open(io, ex, st, d, r, path_desc(st, a[0]), dict(read=True)))
        R("File::sync_data", lambda ex, st, fr, c, a, d, r: io.call(ex, st, d, r, "sync", VUnit(), path=io.file_path(st, a[0])))
        R("File::sync_all", lambda ex, st, fr, c, a, d, r: io.call(ex, st, d, r, "sync", VUnit(), path=io.file_path(st, a[0]), all=True))
        R("File::try_lock", m_try_lock(io))
        R("File::try_clone", lambda ex, st, fr, c, a, d, r: io.call(ex, st, d, r, "dup", deref_all(st, a[0]), path=io.file_path(st, a[0])))
        R("File::set_len", lambda ex, st, fr, c, a, d, r: io.call(ex, st, d, r, "write", VUnit(), path=io.file_path(st, a[0]), data=["truncate"]))
        R("fs::write", lambda ex, st, fr, c, a, d, r: io.call(ex, st, d, r, "write", VUnit(), path=path_desc(st, a[0]), data=["whole-file"], create=True))
        R("fs::copy", lambda ex, st, fr, c, a, d, r: io.call(ex, st, d, r, "write", VInt(0, "u64"), path=path_desc(st, a[1]), data=["copy"], create=True))
        R("fs::hard_link", lambda ex, st, fr, c, a, d, r: io.call(ex, st, d, r, "rename", VUnit(), path=path_desc(st, a[0]), dst=path_desc(st, a[1]), link=True))
        R(["File as Write::write_all", "&File as Write::write_all"], lambda ex, st, fr, c, a, d, r: io.call(
            ex, st, d, r, "write", VUnit(), path=io.file_path(st, a[0]), data=[data_desc(st, a[1])], fd=fd_of(st, a[0])))
        R(["Hasher::update_rayon"], m_hasher_update)
        # ---- BufWriter
        R("BufWriter::new", lambda ex, st, fr, c, a, d, r: VStruct("BufWriter", [a[0], VVec([])]))
        R("BufWriter::with_capacity", lambda ex, st, fr, c, a, d, r: VStruct("BufWriter", [a[1], VVec([])]))
        R("BufWriter as Write::write_all", m_bw_write(io))
        R("BufWriter as Write::flush", m_bw_flush(io))
        R("BufWriter::get_mut", lambda ex, st, fr, c, a, d, r: VRef(deref_ref2(st, a[0]).cell, deref_ref2(st, a[0]).path + (0,)))
        R("BufWriter::capacity", lambda ex, st, fr, c, a, d, r: VInt(8192, "usize"))
        R("BufWriter::buffer", lambda ex, st, fr, c, a, d, r: VRef(st.alloc(VOpaque("bytes", ("slice", "bufwriter-buffer", z3.IntVal(0), ex.new_int(st, "usize", "buffered").t)))))
        R("BufWriter::get_ref", lambda ex, st, fr, c, a, d, r: VRef(deref_ref2(st, a[0]).cell, deref_ref2(st, a[0]).path + (0,)))
        R("BufWriter::into_inner", m_bw_into_inner(io))
        R("IntoInnerError::into_error", lambda ex, st, fr, c, a, d, r: a[0] if isinstance(a[0], VOpaque) else ioerr())
        R("BufReader::new", lambda ex, st, fr, c, a, d, r: VStruct("BufReader", [a[0]]))
        # ---- io::Error
        R("Error::kind", m_err_kind)
        R("Error::new", lambda ex, st, fr, c, a, d, r: VOpaque("ioerr", {"kind": a[0], "injected": False}))
        R(["ErrorKind as PartialEq::eq"], m_errkind_eq)
        R(["ErrorKind as PartialEq::ne"], lambda ex, st, fr, c, a, d, r: VBool(z3.Not(m_errkind_eq(ex, st, fr, c, a, d, r).t)))
        R(["dyn StdError as StdError::source", "CasManagerError as StdError::source"], m_err_source)
        R("(dyn StdError + 'static)::downcast_ref", lambda ex, st, fr, c, a, d, r: m_downcast(ex, st, a))
        # ---- tempfile
        R("NamedTempFile::new_in", m_tmp_new(io))
        R("NamedTempFile::reopen", lambda ex, st, fr, c, a, d, r: m_open(
            io, ex, st, d, r, ("staging", deref_all(st, a[0]).fields[0].data), dict(write=True, reopen=True)))
        R(["NamedTempFile::as_file", "NamedTempFile::as_file_mut"], m_tmp_as_file)
        # into_temp_path closes the handle and keeps the delete-on-drop obligation in the returned TempPath
        R("NamedTempFile::into_temp_path", lambda ex, st, fr, c, a, d, r: VStruct("TempPath", [a[0].fields[0]]))
        R("NamedTempFile::path", lambda ex, st, fr, c, a, d, r: VRef(st.alloc(P("staging", deref_all(st, a[0]).fields[0].data))))
        R("Builder::new", lambda ex, st, fr, c, a, d, r: VOpaque("tmpbuilder", {"rand": True}))
        R(["Builder::prefix", "Builder::suffix", "Builder::permissions", "Builder::append", "Builder::disable_cleanup", "Builder::keep"],
          lambda ex, st, fr, c, a, d, r: a[0])
        R("Builder::rand_bytes", m_builder_rand)
        R(["Builder::make_in", "Builder::tempfile_in", "Builder::make", "Builder::tempfile"], m_builder_make(io))
        R(["K as KeyBytes::to_key_bytes", "K as KeyBytes::to_key_bytes_owned", "Self as KeyBytes::to_key_bytes"],
          lambda ex, st, fr, c, a, d, r: VOpaque("bytes", ("key", deref_all(st, a[0]))))
        R(["<K as KeyBytes>::Bytes as AsRef::as_ref", "<Self as KeyBytes>::Bytes as AsRef::as_ref"], lambda ex, st, fr, c, a, d, r: a[0])
        R(["blake3::hash"], lambda ex, st, fr, c, a, d, r: VOpaque("digest", (data_desc(st, a[0]),)))
        R(["Hash::to_hex", "ArrayString as ToString::to_string", "ArrayString::as_str", "String as Deref::deref",
           "String::as_str", "str::as_bytes"], lambda ex, st, fr, c, a, d, r: VOpaque("str", "derived"))
        # ---- hashing
        R("blake3::Hasher::new", lambda ex, st, fr, c, a, d, r: VOpaque("hasher", ()))
        R("Hasher::new", lambda ex, st, fr, c, a, d, r: VOpaque("hasher", ()))
        R("Hasher::update", m_hasher_update)
        R("Hasher::finalize", lambda ex, st, fr, c, a, d, r: VOpaque("digest", deref_all(st, a[0]).data))
        R("Hash::as_bytes", lambda ex, st, fr, c, a, d, r: VRef(st.alloc(VOpaque("digest-bytes", deref_all(st, a[0]).data))))
        R("BlobHash::from_bytes", m_hash_from_bytes)
        R("BlobHash::as_bytes", lambda ex, st, fr, c, a, d, r: VRef(st.alloc(VOpaque("hash-bytes", deref_all(st, a[0])))))
        R("calculate_blob_hash", lambda ex, st, fr, c, a, d, r: VSym(ex.fresh("ophash"), "H"))
        # ---- byte-level leaves replaced by abstract ones at protocol level (bytes are Engine K's subject)
        R("WalOp::to_raw", lambda ex, st, fr, c, a, d, r: VOpaque("raw-op", deref_all(st, a[0]).clone()))
        R("serialize_wal_op_raw", lambda ex, st, fr, c, a, d, r: ok(VOpaque("bytes", ("op", deref_all(st, a[0]).data))))
        R("serialize_index_state", m_serialize_index)
        R(["Vec as Deref::deref"], m_vec_deref_or_bytes)
        R(["Vec::len", "slice::len"], m_len_or_bytes)
        R("SegmentStorage::discover_segments", m_discover_segments(io))
        R("CasManager::read_blob_range", m_read_blob_range(io))
        # ---- settings (serde_json) and recovery entry, abstracted for the open-gate properties
        R("serde_json::from_str", m_settings_from_str)
        R("serde_json::to_string", lambda ex, st, fr, c, a, d, r: ok(VOpaque("bytes", ("settings-json", deref_all(st, a[0])))))
        R(["serde_json::to_vec", "to_vec", "serde_json::to_string_pretty", "serde_json::to_vec_pretty"],
          lambda ex, st, fr, c, a, d, r: ok(VOpaque("bytes", ("settings-json", deref_all(st, a[0])))) if not isinstance(deref_all(st, a[0]), VVec) else NotImplemented)
        R(["Error::other", "io::Error::other", "Error::from_raw_os_error"],
          lambda ex, st, fr, c, a, d, r: ioerr("Other"))
        R("pre_create_all_cas_directories", lambda ex, st, fr, c, a, d, r: io.call(ex, st, d, r, "mkdir", VUnit(), path=("cas", "65536 dirs")))
        # ---- byte-slice algebra on opaque byte strings: ("slice", base, offset, length)
        R(["slice::chunks_exact", "slice::chunks"], m_chunks)
        R(["ChunksExact as Iterator::by_ref", "Chunks as Iterator::by_ref"], lambda ex, st, fr, c, a, d, r: a[0])
        R(["ChunksExact as Iterator::next", "Chunks as Iterator::next", "&ChunksExact as Iterator::next", "&Chunks as Iterator::next"], m_chunks_next)
        R(["ChunksExact::remainder"], m_chunks_remainder)
        R(["slice::split_at"], m_split_at)
        R(["slice::split_at_checked"], m_split_at_checked)
        R(["slice::split_first"], m_split_first)
        R(["slice::copy_from_slice"], m_copy_from_slice)
        R(["slice::to_vec"], m_to_vec)
        R(["num::from_le_bytes"], m_from_le_bytes)
        # ---- threads / channels
        R("mpsc::channel", lambda ex, st, fr, c, a, d, r: VStruct("tuple", [VOpaque("sender"), VOpaque("receiver")]))
        R("thread::spawn", lambda ex, st, fr, c, a, d, r: (st.event("spawn"), VOpaque("joinhandle"))[1])
        R("spawn", lambda ex, st, fr, c, a, d, r: (st.event("spawn"), VOpaque("joinhandle"))[1])
        R("Sender::send", lambda ex, st, fr, c, a, d, r: (st.event("io", op="async-sync-request", outcome="ok",
                                                                  path=io.file_path(st, a[1])), ok(VUnit()))[1])
        R(["Instant::now", "Instant::elapsed"], lambda ex, st, fr, c, a, d, r: VOpaque("time"))


def deref_ref2(st, ref):
    while isinstance(st.load(ref), VRef):
        ref = st.load(ref)
    return ref


def data_desc(st, v):
    v = deref_all(st, v)
    if isinstance(v, VOpaque):
        return (v.tag, v.data)
    if isinstance(v, VVec):
        if v.elems and all(isinstance(e, VOpaque) for e in v.elems):
            return ("record", tuple(e.data for e in v.elems))
        return ("bytes", len(v.elems))
    return ("data", str(type(v).__name__))


def m_path_passthrough(st, v, c):
    if c.endswith("to_path_buf") or c.endswith("clone"):
        return deref_all(st, v)
    if isinstance(v, VRef) and isinstance(st.load(v), VOpaque):
        return v
    if isinstance(v, VOpaque):
        return VRef(st.alloc(v))
    return v


def m_oo_flag(st, a, flag):
    oo = deref_all(st, a[0])
    on = a[1]
    val = z3.simplify(on.t)
    oo.data[flag] = bool(z3.is_true(val))
    return a[0]


def m_open(io, ex, st, d, r, path, flags):
    # an open that creates the file is a mutating effect; the handle records its mode
    outs = []
    if st.faults_left > 0:
        s2 = st.clone()
        s2.faults_left -= 1
        s2.event("io", op="open", outcome="err", path=path, flags=flags)
        s2.meta["fault"] = ("open", path, len(s2.trace) - 1)
        outs += ex.finish_call(s2, d, r, err(ioerr("Other", True)))
    if io.disk is not None and not flags.get("create"):
        alt = io.disk.open_outcomes(ex, st, path, flags)
        if alt is not None:
            for cond, kind in alt:
                if not ex.feasible(st.pc, cond):
                    continue
                s3 = st.clone()
                s3.pc.append(cond)
                if kind == "ok":
                    f = io.new_file(s3, path, **flags)
                    s3.event("io", op="open", outcome="ok", path=path, flags=flags)
                    outs += ex.finish_call(s3, d, r, ok(f))
                else:
                    s3.event("io", op="open", outcome=kind, path=path, flags=flags)
                    outs += ex.finish_call(s3, d, r, err(ioerr(kind)))
            return outs
    f = io.new_file(st, path, **flags)
    st.event("io", op="open", outcome="ok", path=path, flags=flags)
    outs += ex.finish_call(st, d, r, ok(f))
    return outs


def m_remove_file(io):
    def f(ex, st, fr, c, a, d, r):
        path = path_desc(st, a[0])
        outs = []
        if st.faults_left > 0:
            s2 = st.clone()
            s2.faults_left -= 1
            s2.event("io", op="unlink", outcome="err", path=path)
            s2.meta["fault"] = ("unlink", path, len(s2.trace) - 1)
            outs += ex.finish_call(s2, d, r, err(ioerr("Other", True)))
        # NotFound is a legitimate disk-dependent outcome
        nf = None
        if io.disk is not None:
            nf = io.disk.missing(ex, st, path)
        if nf is None:
            nf = ex.fresh("enoent", "bool")
        if ex.feasible(st.pc, nf):
            s3 = st.clone()
            s3.pc.append(nf)
            s3.event("io", op="unlink", outcome="NotFound", path=path)
            outs += ex.finish_call(s3, d, r, err(ioerr("NotFound")))
        if ex.feasible(st.pc, z3.Not(nf)):
            st.pc.append(z3.Not(nf))
            st.event("io", op="unlink", outcome="ok", path=path)
            if io.disk is not None:
                io.disk.apply(ex, st, "unlink", dict(path=path))
            outs += ex.finish_call(st, d, r, ok(VUnit()))
        return outs
    return f


def m_fs_read(io):
    def f(ex, st, fr, c, a, d, r):
        path = path_desc(st, a[0])
        if io.disk is not None:
            res = io.disk.read(ex, st, path, d, r)
            if res is not None:
                return res
        outs = []
        nf = ex.fresh("enoent", "bool")
        if ex.feasible(st.pc, nf):
            s3 = st.clone()
            s3.pc.append(nf)
            s3.event("io", op="read", outcome="NotFound", path=path)
            outs += ex.finish_call(s3, d, r, err(ioerr("NotFound")))
        st.pc.append(z3.Not(nf))
        outs += io.call(ex, st, d, r, "read", VOpaque("filebytes", path), path=path)
        return outs
    return f


def m_try_lock(io):
    def f(ex, st, fr, c, a, d, r):
        path = io.file_path(st, a[0])
        outs = []
        held = ex.fresh("lock_held_by_other", "bool")
        if ex.feasible(st.pc, held):
            s2 = st.clone()
            s2.pc.append(held)
            s2.event("io", op="trylock", outcome="WouldBlock", path=path)
            outs += ex.finish_call(s2, d, r, err(VOpaque("trylockerr")))
        st.pc.append(z3.Not(held))
        st.event("io", op="trylock", outcome="ok", path=path)
        outs += ex.finish_call(st, d, r, ok(VUnit()))
        return outs
    return f


def m_bw_write(io):
    def f(ex, st, fr, c, a, d, r):
        bwref = deref_ref2(st, a[0])
        bw = st.load(bwref)
        data = data_desc(st, a[1])
        outs = []
        # a BufWriter flushes what it holds when the new chunk does not fit: with `spill` on, that
        # is a symbolic choice whenever something is pending (sizes are not tracked at this level)
        if io.spill and bw.fields[1].elems:
            sp = ex.fresh("bufwriter_spills", "bool")
            if ex.feasible(st.pc, sp):
                s2 = st.clone()
                s2.pc.append(sp)
                bw2 = s2.load(bwref)
                pend = [e.data for e in bw2.fields[1].elems]
                bw2.fields[1].elems[:] = [VOpaque("chunk", data)]
                path = io.file_path(s2, bw2.fields[0])
                # the early flush is itself a fallible write
                if s2.faults_left > 0:
                    s3 = s2.clone()
                    s3.faults_left -= 1
                    s3.event("io", op="write", outcome="err", path=path, data=pend, why="BufWriter spill")
                    s3.meta["fault"] = ("write", path, len(s3.trace) - 1)
                    outs += ex.finish_call(s3, d, r, err(ioerr("Other", True)))
                s2.event("io", op="write", outcome="ok", path=path, data=pend, why="BufWriter spill", fd=fd_of(s2, bw2.fields[0]))
                outs += ex.finish_call(s2, d, r, ok(VUnit()))
            st.pc.append(z3.Not(sp))
        bw.fields[1].elems.append(VOpaque("chunk", data))
        outs += ex.finish_call(st, d, r, ok(VUnit()))
        return outs
    return f


def flush_bw(io, ex, st, bwref, d, r, okval_fn, errval_fn, why):
    bw = st.load(bwref)
    pend = [e.data for e in bw.fields[1].elems]
    path = io.file_path(st, bw.fields[0])
    outs = []
    if not pend:
        return ex.finish_call(st, d, r, okval_fn(st))
    if st.faults_left > 0:
        s2 = st.clone()
        s2.faults_left -= 1
        s2.event("io", op="write", outcome="err", path=path, data=pend, why=why, fd=fd_of(s2, bw.fields[0]))
        s2.meta["fault"] = ("write", path, len(s2.trace) - 1)
        outs += ex.finish_call(s2, d, r, errval_fn(s2))
    bw.fields[1].elems[:] = []
    st.event("io", op="write", outcome="ok", path=path, data=pend, why=why, fd=fd_of(st, bw.fields[0]))
    outs += ex.finish_call(st, d, r, okval_fn(st))
    return outs


def m_bw_flush(io):
    def f(ex, st, fr, c, a, d, r):
        bwref = deref_ref2(st, a[0])
        return flush_bw(io, ex, st, bwref, d, r, lambda s: ok(VUnit()), lambda s: err(ioerr("Other", True)), "flush")
    return f


def m_bw_into_inner(io):
    def f(ex, st, fr, c, a, d, r):
        bwref = VRef(st.alloc(a[0]))
        return flush_bw(io, ex, st, bwref, d, r, lambda s: ok(s.load(bwref).fields[0]),
                        lambda s: err(ioerr("Other", True)), "into_inner")
    return f


def m_err_kind(ex, st, fr, c, a, d, r):
    e = deref_all(st, a[0])
    if isinstance(e, VOpaque) and e.tag == "ioerr":
        k = e.data["kind"]
        if isinstance(k, str):
            return errkind(k)
        return k
    return errkind("Other")


def m_errkind_eq(ex, st, fr, c, a, d, r):
    x, y = deref_all(st, a[0]), deref_all(st, a[1])
    if isinstance(x, VEnum) and isinstance(y, VEnum):
        return VBool(x.disc == y.disc)
    raise Unsupported(f"ErrorKind eq on {x},{y}")


def m_err_source(ex, st, fr, c, a, d, r):
    e = deref_all(st, a[0])
    # CasManagerError::FileOperation { operation, path, source } -> Some(&source); InvalidRange -> None
    if isinstance(e, VEnum) and e.name == "CasManagerError":
        ci = e.concrete()
        if ci == 0:
            return some(VRef(st.alloc(e.payloads[0][2])))
        return none()
    if isinstance(e, VEnum):
        ci = e.concrete()
        for fld in e.payloads.get(ci, []):
            if isinstance(fld, VOpaque) and fld.tag == "ioerr":
                return some(VRef(st.alloc(fld)))
        return none()
    return none()


def m_downcast(ex, st, a):
    e = deref_all(st, a[0])
    if isinstance(e, VOpaque) and e.tag == "ioerr":
        return some(VRef(st.alloc(e)))
    return none()


def m_tmp_new(io):
    def f(ex, st, fr, c, a, d, r):
        n = st.meta.get("ntmp", 0) + 1
        st.meta["ntmp"] = n
        tmp = VStruct("NamedTempFile", [VOpaque("tmpid", n), io.new_file(st, ("staging", n), write=True, own=True)])
        return io.call(ex, st, d, r, "create-temp", tmp, path=("staging", n))
    return f


def m_metadata(io):
    """stat of a path: for a blob path the answer depends on the (shared) blob set - NotFound if it is not there"""
    def f(ex, st, fr, c, a, d, r):
        path = path_desc(st, a[0])
        here = io.disk.exists(ex, st, path) if io.disk is not None else None
        if here is None:
            return io.call(ex, st, d, r, "metadata", VOpaque("metadata", path), path=path)
        outs = []
        if ex.feasible(st.pc, z3.Not(here)):
            s2 = st.clone()
            s2.pc.append(z3.Not(here))
            s2.event("io", op="metadata", outcome="NotFound", path=path)
            outs += ex.finish_call(s2, d, r, err(ioerr("NotFound")))
        if ex.feasible(st.pc, here):
            st.pc.append(here)
            st.event("io", op="metadata", outcome="ok", path=path)
            outs += ex.finish_call(st, d, r, ok(VOpaque("metadata", path)))
        return outs
    return f


def m_tmp_as_file(ex, st, fr, c, a, d, r):
    """NamedTempFile::as_file / as_file_mut: the temp file's OWN open file description (not the one reopen() returns)"""
    ref = a[0]
    while isinstance(st.load(ref), VRef):
        ref = st.load(ref)
    t = st.load(ref)
    if not (isinstance(t, VStruct) and t.name == "NamedTempFile" and len(t.fields) > 1):
        raise Unsupported("as_file on a temp file without a modelled handle")
    return VRef(ref.cell, ref.path + (1,))


def fd_of(st, f):
    f = deref_all(st, f)
    return f.data if isinstance(f, VOpaque) and f.tag == "file" else None


def m_hasher_update(ex, st, fr, c, a, d, r):
    # never mutate in place: VOpaque values are shared between forked states
    ref = a[0]
    while isinstance(st.load(ref), VRef):
        ref = st.load(ref)
    h = st.load(ref)
    st.store(ref, VOpaque(h.tag, tuple(h.data) + (data_desc(st, a[1]),)))
    return a[0]


def m_hash_from_bytes(ex, st, fr, c, a, d, r):
    v = a[0]
    if isinstance(v, VOpaque) and v.tag in ("digest-bytes", "digest"):
        key = "content-hash"
        hashed = v.data
        st.meta["finalized-over"] = hashed
        if "hashed-content" in st.meta and hashed != st.meta["hashed-content"]:
            # the hasher saw something else than the content: a different hash (no collisions assumed)
            t = ex.fresh("other_hash")
            if "content-hash" in st.meta:
                st.pc.append(t != st.meta["content-hash"])
            return VSym(t, "H")
        if key not in st.meta:
            t = ex.fresh("content_hash")
            st.meta[key] = t
            hu = ex.models.huniverse
            if hu:
                st.pc.append(z3.Or([t == g for g in hu]))
        return VSym(st.meta[key], "H")
    if isinstance(v, VSym):
        return v
    return VSym(ex.fresh("hash_from_bytes"), "H")


def m_serialize_index(ex, st, fr, c, a, d, r):
    m = deref_all(st, a[0])
    lpv = a[1]
    return VOpaque("bytes", ("snapshot", m.clone() if isinstance(m, VMap) else m, lpv))


def m_vec_deref_or_bytes(ex, st, fr, c, a, d, r):
    v = deref_all(st, a[0])
    if isinstance(v, VOpaque):
        return a[0]
    from models import m_iter_or_ref
    return m_iter_or_ref(ex, st, c, a)


def m_len_or_bytes(ex, st, fr, c, a, d, r):
    v = deref_all(st, a[0])
    if isinstance(v, VVec) and v.elems and all(isinstance(e, VOpaque) and e.tag == "chunk" and isinstance(e.data, tuple) and len(e.data) == 2
                                              for e in v.elems):
        # a byte vector assembled from opaque runs of bytes (extend_from_slice): its length is the sum of the runs
        total = z3.IntVal(0)
        for e in v.elems:
            piece = VOpaque(e.data[0], e.data[1])
            total = total + m_len_or_bytes(ex, st, fr, c, [piece], d, r).t
        return VInt(total, "usize")
    if isinstance(v, VOpaque) and isinstance(v.data, tuple) and v.data and v.data[0] == "slice":
        return VInt(v.data[3], "usize")
    if isinstance(v, VOpaque):
        key = ("len", id(v.data) if not isinstance(v.data, (str, int, tuple)) else str(v.data)[:80])
        lens = st.meta.setdefault("oplens", {})
        if key not in lens:
            lens[key] = ex.new_int(st, "usize", "len").t
            st.pc.append(lens[key] <= (1 << 63) - 1)
        return VInt(lens[key], "usize")
    return VInt(len(seq(st, a[0]).elems), "usize")


def m_discover_segments(io):
    """directory listing + file-name parsing replaced by 'the ids of the segment files on disk',
    ascending (the `{id}_index.wal` name round trip is a separate obligation)"""
    def f(ex, st, fr, c, a, d, r):
        outs = []
        if st.faults_left > 0:
            s2 = st.clone()
            s2.faults_left -= 1
            s2.event("io", op="read_dir", outcome="err", path=("root",))
            s2.meta["fault"] = ("read_dir", ("root",), len(s2.trace) - 1)
            e = VEnum("WalError", 1, {1: [VOpaque("op"), VEnum("Option", 0, {0: []}), ioerr("Other", True)]})
            outs += ex.finish_call(s2, d, r, err(e))
        cands = None
        if io.disk is not None:
            cands = io.disk.segments(ex, st)
        if cands is None:
            a_, b_ = ex.fresh("seg_a"), ex.fresh("seg_b")
            st.pc += [a_ >= 0, a_ < b_, b_ <= (1 << 64) - 1]
            cands = [(ex.fresh("seg_a_exists", "bool"), a_), (ex.fresh("seg_b_exists", "bool"), b_)]

        def go(s, i, acc):
            if i == len(cands):
                s.event("io", op="read_dir", outcome="ok", path=("root",), segments=[x for x in acc])
                v = VVec([VStruct("SegmentInfo", [VInt(t, "u64"), P("wal", t)]) for t in acc])
                return ex.finish_call(s, d, r, ok(v))
            cond, t = cands[i]
            o = []
            cs = z3.simplify(cond) if not isinstance(cond, bool) else z3.BoolVal(cond)
            if not z3.is_false(cs) and (z3.is_true(cs) or ex.feasible(s.pc, cond)):
                s2 = s.clone()
                if not z3.is_true(cs):
                    s2.pc.append(cond)
                o += go(s2, i + 1, acc + [t])
            if not z3.is_true(cs) and (z3.is_false(cs) or ex.feasible(s.pc, z3.Not(cond))):
                if not z3.is_false(cs):
                    s.pc.append(z3.Not(cond))
                o += go(s, i + 1, acc)
            return o
        return outs + go(st, 0, [])
    return f


def m_read_blob_range(io):
    """contract of CasManager::read_blob_range (its body is decided byte-wise by Engine K, C17):
    start > end -> Err(InvalidRangeStartEnd); else open + pread loop -> Ok(bytes[start..end))"""
    def f(ex, st, fr, c, a, d, r):
        h = deref_all(st, a[1])
        start, end = a[2], a[3]
        outs = []
        bad = start.t > end.t
        if ex.feasible(st.pc, bad):
            s2 = st.clone()
            s2.pc.append(bad)
            e = VEnum("CasManagerError", 1, {1: [start, end]})
            outs += ex.finish_call(s2, d, r, err(e))
        if ex.feasible(st.pc, z3.Not(bad)):
            st.pc.append(z3.Not(bad))
            path = ("cas", h.t)
            nf = None
            if io.disk is not None:
                nf = io.disk.missing(ex, st, path)
            if nf is None:
                nf = ex.fresh("enoent", "bool")
            if ex.feasible(st.pc, nf):
                s3 = st.clone()
                s3.pc.append(nf)
                s3.event("io", op="open", outcome="NotFound", path=path, flags=dict(read=True))
                e = VEnum("CasManagerError", 0, {0: [VOpaque("op"), VOpaque("path", path), ioerr("NotFound")]})
                outs += ex.finish_call(s3, d, r, err(e))
            if ex.feasible(st.pc, z3.Not(nf)):
                st.pc.append(z3.Not(nf))
                st.event("io", op="read_range", outcome="ok", path=path, start=start.t, end=end.t)
                outs += ex.finish_call(st, d, r, ok(VOpaque("filebytes", ("slice", h.t, start.t, end.t))))
        return outs
    return f


def m_builder_rand(ex, st, fr, c, a, d, r):
    b = deref_all(st, a[0])
    n = z3.simplify(a[1].t)
    b.data["rand"] = not (z3.is_int_value(n) and n.as_long() == 0)
    return a[0]


def m_builder_make(io):
    def f(ex, st, fr, c, a, d, r):
        b = deref_all(st, a[0])
        n = st.meta.get("ntmp", 0) + 1
        st.meta["ntmp"] = n
        if b.data.get("rand", True):
            tmp = VStruct("NamedTempFile", [VOpaque("tmpid", n), io.new_file(st, ("staging", n), write=True, own=True)])
            return io.call(ex, st, d, r, "create-temp", tmp, path=("staging", n))
        # a fixed name: NOT a fresh file — an ordinary create/truncate open of a nameable path
        tmp = VStruct("NamedTempFile", [VOpaque("tmpid", "fixed-name")])
        io.new_file(st, ("staging", "fixed-name"), create=True, truncate=True, write=True)
        return io.call(ex, st, d, r, "open", tmp, path=("staging", "fixed-name"), flags=dict(create=True, truncate=True, write=True))
    return f


def m_settings_from_str(ex, st, fr, c, a, d, r):
    """serde_json::from_str::<DbSettings>: an arbitrary DbSettings value, or a parse error"""
    outs = []
    bad = ex.fresh("settings_unparsable", "bool")
    if ex.feasible(st.pc, bad):
        s2 = st.clone()
        s2.pc.append(bad)
        outs += ex.finish_call(s2, d, r, err(VOpaque("serde-error")))
    st.pc.append(z3.Not(bad))
    ver = st.meta.get("stored_version")
    if ver is None:
        ver = ex.new_int(st, "u32", "stored_version").t
        pre = ex.fresh("stored_precreated", "bool")
        n = ex.new_int(st, "u64", "stored_N").t
        st.pc.append(n >= 1)
        st.meta["stored_version"], st.meta["stored_precreated"], st.meta["stored_N"] = ver, pre, n
    v = VStruct("DbSettings", [VInt(ver, "u32"), VBool(st.meta["stored_precreated"]), VInt(st.meta["stored_N"], "u64")])
    outs += ex.finish_call(st, d, r, ok(v))
    return outs


def as_slice(ex, st, v):
    """(base, off, len) view of an opaque byte string"""
    v = deref_all(st, v)
    if isinstance(v, VOpaque) and v.tag == "bytes":
        d = v.data
        if isinstance(d, tuple) and d and d[0] == "slice":
            return d[1], d[2], d[3]
        ln = ex.models.ptr_metadata(ex, st, v).t
        return d, z3.IntVal(0), ln
    raise Unsupported(f"byte-slice operation on {v}")


def mk_slice(base, off, ln):
    return VOpaque("bytes", ("slice", base, z3.simplify(off), z3.simplify(ln)))


def m_chunks(ex, st, fr, c, a, d, r):
    base, off, ln = as_slice(ex, st, a[0])
    exact = "chunks_exact" in c
    return VStruct("ChunksExact" if exact else "Chunks", [VOpaque("sl", (base, off, ln)), a[1], VInt(0, "usize")])


def m_chunks_next(ex, st, fr, c, a, d, r):
    it = deref_all(st, a[0])
    base, off, ln = it.fields[0].data
    n, pos = it.fields[1].t, it.fields[2].t
    exact = it.name == "ChunksExact"
    cnt = st.meta.get("range_iters", 0)
    outs = []
    more = (pos + n <= ln) if exact else (pos < ln)
    if ex.feasible(st.pc, more):
        s2 = st.clone()
        s2.pc.append(more)
        if cnt >= ex.loop_bound:
            s2.status, s2.note = "cut", f"loop bound {ex.loop_bound} reached iterating chunks"
            outs.append(s2)
        else:
            s2.meta["range_iters"] = cnt + 1
            take = n if exact else z3.If(ln - pos < n, ln - pos, n)
            it2 = deref_all(s2, a[0])
            it2.fields[2] = VInt(z3.simplify(pos + take), "usize")
            outs += ex.finish_call(s2, d, r, some(VRef(s2.alloc(mk_slice(base, off + pos, take)))))
    if ex.feasible(st.pc, z3.Not(more)):
        st.pc.append(z3.Not(more))
        outs += ex.finish_call(st, d, r, none())
    return outs


def m_chunks_remainder(ex, st, fr, c, a, d, r):
    it = deref_all(st, a[0])
    base, off, ln = it.fields[0].data
    n = it.fields[1].t
    # remainder = the last len % n bytes
    q, rem = ex.fresh("q"), ex.fresh("r")
    st.pc.append(z3.And(ln == q * n + rem, rem >= 0, rem < n, q >= 0))
    return VRef(st.alloc(mk_slice(base, off + ln - rem, rem)))


def m_split_at(ex, st, fr, c, a, d, r):
    base, off, ln = as_slice(ex, st, a[0])
    mid = a[1].t
    outs = []
    bad = mid > ln
    if ex.feasible(st.pc, bad):
        s2 = st.clone()
        s2.pc.append(bad)
        s2.status, s2.note = "panic", "split_at: mid > len"
        outs.append(s2)
    if ex.feasible(st.pc, z3.Not(bad)):
        st.pc.append(z3.Not(bad))
        outs += ex.finish_call(st, d, r, VStruct("tuple", [VRef(st.alloc(mk_slice(base, off, mid))),
                                                          VRef(st.alloc(mk_slice(base, off + mid, ln - mid)))]))
    return outs


def m_split_at_checked(ex, st, fr, c, a, d, r):
    base, off, ln = as_slice(ex, st, a[0])
    mid = a[1].t
    pair = VStruct("tuple", [VRef(st.alloc(mk_slice(base, off, mid))), VRef(st.alloc(mk_slice(base, off + mid, ln - mid)))])
    from models import sym_option
    return sym_option(mid <= ln, pair)


def m_split_first(ex, st, fr, c, a, d, r):
    base, off, ln = as_slice(ex, st, a[0])
    byte = st.meta.setdefault("bytes_at", {})
    key = (str(base), str(z3.simplify(off)))
    if key not in byte:
        byte[key] = ex.new_int(st, "u8", "byte").t
    pair = VStruct("tuple", [VRef(st.alloc(VInt(byte[key], "u8"))), VRef(st.alloc(mk_slice(base, off + 1, ln - 1)))])
    from models import sym_option
    return sym_option(ln >= 1, pair)


def m_copy_from_slice(ex, st, fr, c, a, d, r):
    """dst.copy_from_slice(src): lengths must match (else panic); dst becomes 'the bytes of src'"""
    dst = deref_all(st, a[0])
    base, off, ln = as_slice(ex, st, a[1])
    n = len(dst.elems) if isinstance(dst, VVec) else None
    if n is None:
        raise Unsupported("copy_from_slice into a non-array destination")
    outs = []
    bad = ln != n
    if ex.feasible(st.pc, bad):
        s2 = st.clone()
        s2.pc.append(bad)
        s2.status, s2.note = "panic", "copy_from_slice: source and destination lengths differ"
        outs.append(s2)
    if ex.feasible(st.pc, z3.Not(bad)):
        st.pc.append(z3.Not(bad))
        dd = deref_all(st, a[0])
        dd.elems[:] = [VOpaque("byteof", (base, z3.simplify(off + i))) for i in range(n)]
        dd.ety = ("bytes-of", base, z3.simplify(off))
        outs += ex.finish_call(st, d, r, VUnit())
    return outs


def m_from_le_bytes(ex, st, fr, c, a, d, r):
    m = re.search(r"<impl (\w+)>", c)
    ty = m.group(1) if m else "u64"
    arr = a[0]
    key = ("le", ty, str(getattr(arr, "ety", id(arr))))
    vals = st.meta.setdefault("decoded_ints", {})
    if key not in vals:
        vals[key] = ex.new_int(st, ty if ty in ("u8", "u16", "u32", "u64", "usize") else "u64", "decoded").t
    return VInt(vals[key], ty)


def m_to_vec(ex, st, fr, c, a, d, r):
    base, off, ln = as_slice(ex, st, a[0])
    st.event("alloc", what="to_vec", n=ln, where=fr.fn.name.split("::")[-1], avail=ln)
    return mk_slice(base, off, ln)


class BlobDisk:
    """disk hook for interleaving exploration: the set of files under cas/ is a shared symbolic set
    (st.meta['blobs']: hash -> Bool); rename-into-cas adds, unlink removes, open/read/unlink of a
    missing blob report NotFound.  Everything else stays unconstrained."""

    def missing(self, ex, st, path):
        if path and path[0] == "cas" and "blobs" in st.meta:
            return z3.Not(z3.Select(st.meta["blobs"], path[1]))
        if path and path[0] == "staging":
            return z3.BoolVal(False)
        return None

    def exists(self, ex, st, path):
        if path and path[0] == "cas" and "blobs" in st.meta:
            return z3.Select(st.meta["blobs"], path[1])
        return None

    def open_outcomes(self, ex, st, path, flags):
        if path and path[0] == "cas" and "blobs" in st.meta:
            p = z3.Select(st.meta["blobs"], path[1])
            return [(p, "ok"), (z3.Not(p), "NotFound")]
        return None

    def read(self, ex, st, path, d, r):
        if path and path[0] == "cas" and "blobs" in st.meta:
            p = z3.Select(st.meta["blobs"], path[1])
            outs = []
            if ex.feasible(st.pc, z3.Not(p)):
                s3 = st.clone()
                s3.pc.append(z3.Not(p))
                s3.event("io", op="read", outcome="NotFound", path=path)
                outs += ex.finish_call(s3, d, r, err(ioerr("NotFound")))
            if ex.feasible(st.pc, p):
                st.pc.append(p)
                st.event("io", op="read", outcome="ok", path=path)
                outs += ex.finish_call(st, d, r, ok(VOpaque("filebytes", path)))
            return outs
        return None

    def segments(self, ex, st):
        return None

    def apply(self, ex, st, op, info):
        if "blobs" not in st.meta:
            return
        if op == "rename" and info.get("dst", ("",))[0] == "cas":
            st.meta["blobs"] = z3.Store(st.meta["blobs"], info["dst"][1], z3.BoolVal(True))
        if op == "rename" and info.get("path", ("",))[0] == "cas":
            st.meta["blobs"] = z3.Store(st.meta["blobs"], info["path"][1], z3.BoolVal(False))
        if op == "unlink" and info.get("path", ("",))[0] == "cas":
            st.meta["blobs"] = z3.Store(st.meta["blobs"], info["path"][1], z3.BoolVal(False))
