"""Struct field names and enum variant order, recovered from the crate's source text
(MIR uses field *indices* in places and field/variant *names* in aggregates and downcasts)."""
import os
import re

from parse import match_close, split_top

STD_ENUMS = {
    "Option": ["None", "Some"],
    "Result": ["Ok", "Err"],
    "ControlFlow": ["Continue", "Break"],
    "Ordering": ["Less", "Equal", "Greater"],
    "Bound": ["Included", "Excluded", "Unbounded"],
    "Cow": ["Borrowed", "Owned"],
    "Entry": ["Occupied", "Vacant"],
    "ErrorKind": ["NotFound", "AlreadyExists", "UnexpectedEof", "InvalidData", "InvalidInput", "Other"],
}


class SrcInfo:
    def __init__(self, src_root):
        self.structs = {}   # name -> [field names]  (tuple structs: ["0","1",..])
        self.struct_types = {}  # name -> {field name: declared type text}
        self.enums = {}     # name -> [(variant, [field names])]
        for d, _, fs in os.walk(src_root):
            for f in fs:
                if f.endswith(".rs") and "_verif_" not in f:
                    self._scan(open(os.path.join(d, f)).read())
        for k, v in STD_ENUMS.items():
            self.enums.setdefault(k, [(x, None) for x in v])

    @staticmethod
    def _strip_comments(t):
        t = re.sub(r"//[^\n]*", "", t)
        t = re.sub(r"/\*.*?\*/", "", t, flags=re.S)
        return t

    def _fields(self, body, types=None):
        names = []
        for part in split_top(body):
            part = re.sub(r"#\[[^\]]*\]", "", part, flags=re.S).strip()
            if not part:
                continue
            m = re.match(r"(?:pub(?:\([^)]*\))?\s+)?(\w+)\s*:\s*(.*)$", part, flags=re.S)
            if m:
                names.append(m.group(1))
                if types is not None:
                    types[m.group(1)] = " ".join(m.group(2).split())
        return names

    def _scan(self, text):
        t = self._strip_comments(text)
        for m in re.finditer(r"\bstruct\s+(\w+)\s*(<[^{(;]*>)?\s*(where[^{]*)?([{(;])", t):
            name, opener = m.group(1), m.group(4)
            if opener == ";":
                self.structs[name] = []
                continue
            i = m.end() - 1
            close = match_close(t, i)
            body = t[i + 1:close]
            if opener == "{":
                ty = {}
                self.structs[name] = self._fields(body, ty)
                self.struct_types[name] = ty
            else:
                self.structs[name] = [str(k) for k, _ in enumerate([x for x in split_top(body) if x.strip()])]
        for m in re.finditer(r"\benum\s+(\w+)\s*(<[^{]*>)?\s*\{", t):
            name = m.group(1)
            i = m.end() - 1
            close = match_close(t, i)
            body = t[i + 1:close]
            variants = []
            for part in split_top(body):
                part = re.sub(r"#\[(?:[^\[\]]|\[[^\]]*\])*\]", "", part, flags=re.S).strip()
                if not part:
                    continue
                mm = re.match(r"(\w+)\s*([{(])?", part)
                vname = mm.group(1)
                if mm.group(2) == "{":
                    j = part.index("{")
                    variants.append((vname, self._fields(part[j + 1:match_close(part, j)])))
                elif mm.group(2) == "(":
                    j = part.index("(")
                    inner = part[j + 1:match_close(part, j)]
                    variants.append((vname, [str(k) for k, _ in enumerate([x for x in split_top(inner) if x.strip()])]))
                else:
                    variants.append((vname, []))
            self.enums[name] = variants

    def variant_index(self, enum, variant):
        for i, (v, _) in enumerate(self.enums.get(enum, [])):
            if v == variant:
                return i
        return None

    def variant_name(self, enum, idx):
        vs = self.enums.get(enum)
        if vs and 0 <= idx < len(vs):
            return vs[idx][0]
        return None

    def field_index(self, struct, field, variant=None):
        if variant is not None:
            for v, fs in self.enums.get(struct, []):
                if v == variant and fs:
                    return fs.index(field) if field in fs else None
            return None
        fs = self.structs.get(struct)
        if fs and field in fs:
            return fs.index(field)
        return None


if __name__ == "__main__":
    import sys
    si = SrcInfo(sys.argv[1])
    print(si.structs.get("IndexState"), si.structs.get("DbStats"), si.structs.get("BlobHash"))
    print(si.enums.get("WalOp"), si.enums.get("IndexStateError"), si.enums.get("WalError")[:3])
