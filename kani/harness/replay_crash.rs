// Native crash replay (C03 / C09 / C20); child of the crate root.  Two tests, driven by lib/crashplay.py:
//  * crash_workload  - runs in a CHILD process under `strace -e inject=...:signal=SIGKILL:when=k`: opens the
//    store in $VERIF_DB with the counterexample's segment size and sync mode, performs the history
//    (a marker directory $VERIF_ACKS/<i> is created after operation i returned Ok - mkdir is not in the
//    injected syscall set) and is killed on entering its k-th filesystem call;
//  * crash_verify    - runs afterwards in a fresh process: the store must OPEN, show every acknowledged
//    operation, show the in-flight one completely or not at all, nothing else, and every key must be
//    readable with the right content; then it must still be usable (one more put, reopen).
use crate::*;
use std::collections::BTreeMap;
use std::num::NonZeroU64;

#[cfg(test)]
fn content(id: i64) -> Vec<u8> {
    format!("content-of-hash-{id}").into_bytes()
}

#[cfg(test)]
fn plan() -> (u64, bool, Vec<(String, String, i64)>) {
    // $VERIF_PLAN: "N;sync|async;kind,key,hash;kind,key,hash;..."   kind = put | rm | range | ckpt
    let p = std::env::var("VERIF_PLAN").expect("VERIF_PLAN");
    let mut it = p.split(';');
    let n: u64 = it.next().unwrap().parse().unwrap();
    let sync = it.next().unwrap() == "sync";
    let ops = it.filter(|s| !s.is_empty()).map(|s| {
        let f: Vec<&str> = s.split(',').collect();
        (f[0].to_string(), f[1].to_string(), f[2].parse::<i64>().unwrap())
    }).collect();
    (n, sync, ops)
}

#[cfg(test)]
fn cfg(n: u64, sync: bool) -> Config {
    Config { num_ops_per_wal: NonZeroU64::new(n).unwrap(), scan_orphans_on_startup: false,
             sync_mode: if sync { SyncMode::Sync } else { SyncMode::Async }, ..Default::default() }
}

#[cfg(test)]
fn apply_model(m: &mut BTreeMap<String, i64>, op: &(String, String, i64)) {
    match op.0.as_str() {
        "put" => { m.insert(op.1.clone(), op.2); }
        "rm" => { m.remove(&op.1); }
        "range" => { let lo = op.1.clone(); let ks: Vec<String> = m.range(lo..).map(|(k, _)| k.clone()).collect(); for k in ks { m.remove(&k); } }
        _ => {}
    }
}

#[cfg(test)]
#[test]
fn crash_workload() {
    let db = std::path::PathBuf::from(std::env::var("VERIF_DB").unwrap());
    let acks = std::path::PathBuf::from(std::env::var("VERIF_ACKS").unwrap());
    let (n, sync, ops) = plan();
    let first_traced: usize = std::env::var("VERIF_FIRST").ok().and_then(|s| s.parse().ok()).unwrap_or(0);
    // strace counts injected calls per (thread, syscall): burn ordinals in THIS thread first, so that every
    // ordinal inside the traced window is larger than anything another thread (libtest's main thread, the
    // dynamic loader) ever reaches and the kill can only fire here
    {
        let scratch = acks.join("scratch");
        std::fs::create_dir_all(&scratch).unwrap();
        for i in 0..48 {
            let p = scratch.join(format!("f{i}"));
            let mut f = std::fs::File::create(&p).unwrap();
            if i < 16 {
                std::io::Write::write_all(&mut f, b"x").unwrap();
                f.sync_all().unwrap();
                f.sync_data().unwrap();
                drop(f);
                let q = scratch.join(format!("g{i}"));
                std::fs::rename(&p, &q).unwrap();
                std::fs::remove_file(&q).unwrap();
            }
        }
    }
    let trace_open = std::env::var("VERIF_TRACE_OPEN").is_ok();
    if trace_open {
        std::fs::create_dir(acks.join("begin")).unwrap();
    }
    let cas: Cas<String> = Cas::open(&db, cfg(n, sync)).unwrap();
    let skip: usize = std::env::var("VERIF_SKIP").ok().and_then(|s| s.parse().ok()).unwrap_or(0);
    for (i, op) in ops.iter().enumerate() {
        if i < skip {
            continue; // done by an earlier process (recovery replay)
        }
        if i == first_traced && !trace_open {
            std::fs::create_dir(acks.join("begin")).unwrap();
        }
        let ok = match op.0.as_str() {
            "put" => {
                let mut tx = cas.put(op.1.clone()).unwrap();
                tx.write(&content(op.2)).unwrap();
                tx.finish().is_ok()
            }
            "rm" => cas.remove(&op.1).is_ok(),
            "range" => cas.remove_range(op.1.clone()..).is_ok(),
            "ckpt" => cas.checkpoint().is_ok(),
            "plant" => {
                // an orphan: a blob file nobody references
                let c = content(op.2);
                let p = cas.paths.cas_file_path(&calculate_blob_hash(&c));
                if !p.exists() {
                    std::fs::create_dir_all(p.parent().unwrap()).unwrap();
                    std::fs::write(&p, &c).unwrap();
                }
                true
            }
            "orphans" | "quarantine" => {
                // the scan's report is handed an orphan list that ALSO names every hash the plan mentions: the clean-up
                // functions must decide under the locks what is really unreferenced
                match crate::orphan::scan_orphans(cas.as_arc(), cas.as_arc().clone(), false) {
                    Ok(mut stats) => {
                        for o in &ops {
                            let h = calculate_blob_hash(&content(o.2));
                            if !stats.orphaned_blobs.contains(&h) { stats.orphaned_blobs.push(h); }
                        }
                        if op.0 == "orphans" { stats.delete_orphans().is_ok() } else { stats.quarantine_orphans(&db.join("quarantine")).is_ok() }
                    }
                    Err(_) => false,
                }
            }
            _ => unreachable!(),
        };
        if ok {
            std::fs::create_dir(acks.join(format!("{i}"))).unwrap();
        }
    }
    std::fs::create_dir(acks.join("end")).unwrap();
    // die without running any destructor (the kill model never sees a clean shutdown)
    std::process::exit(0);
}

#[cfg(test)]
#[test]
fn crash_verify() {
    let db = std::path::PathBuf::from(std::env::var("VERIF_DB").unwrap());
    let acks = std::path::PathBuf::from(std::env::var("VERIF_ACKS").unwrap());
    let what = std::env::var("VERIF_WHAT").unwrap_or_default();
    let (n, sync, ops) = plan();
    let mut acked = 0usize;
    while acks.join(format!("{acked}")).exists() { acked += 1; }
    let mut before: BTreeMap<String, i64> = BTreeMap::new();
    for op in &ops[..acked.min(ops.len())] { apply_model(&mut before, op); }
    let mut after = before.clone();
    if acked < ops.len() { apply_model(&mut after, &ops[acked]); }
    let cas: Cas<String> = match Cas::open(&db, cfg(n, sync)) {
        Ok(c) => c,
        Err(e) => panic!("{what}: the store does not open after the crash ({acked} operations were acknowledged): {e}"),
    };
    let got: BTreeMap<String, Vec<u8>> = {
        let st = cas.read_index_state();
        let ks: Vec<String> = st.iter().map(|(k, _)| k.clone()).collect();
        drop(st);
        ks.into_iter().map(|k| {
            let v = cas.get(&k).unwrap_or_else(|e| panic!("{what}: key {k:?} is in the recovered index but cannot be read: {e}"));
            (k.clone(), v.unwrap_or_else(|| panic!("{what}: key {k:?} listed but absent")).to_vec())
        }).collect()
    };
    let as_bytes = |m: &BTreeMap<String, i64>| m.iter().map(|(k, h)| (k.clone(), content(*h))).collect::<BTreeMap<_, _>>();
    assert!(got == as_bytes(&before) || got == as_bytes(&after),
        "{what}: recovered keys {:?}; acknowledged history gives {:?}, with the in-flight operation {:?}",
        got.keys().collect::<Vec<_>>(), before, after);
    // every file under cas/ (orphans included) holds the complete content its name promises: a later put of the
    // same content would rely on it
    {
        fn walk(d: &std::path::Path, out: &mut Vec<std::path::PathBuf>) {
            if let Ok(rd) = std::fs::read_dir(d) {
                for e in rd.flatten() {
                    let p = e.path();
                    if p.is_dir() { walk(&p, out); } else { out.push(p); }
                }
            }
        }
        let root = db.join("cas");
        let mut files = Vec::new();
        walk(&root, &mut files);
        for f in files {
            let rel: String = f.strip_prefix(&root).unwrap().components().map(|c| c.as_os_str().to_string_lossy().to_string()).collect();
            if rel.len() != 64 { continue; }
            let data = std::fs::read(&f).unwrap();
            let hex: String = blake3::hash(&data).as_bytes().iter().map(|b| format!("{b:02x}")).collect();
            assert_eq!(hex, rel, "{what}: the file {f:?} under cas/ does not hold the content of its name ({} bytes): incomplete blob", data.len());
        }
    }
    // statistics of the recovered store are exact for what it holds
    {
        let uniq: BTreeMap<Vec<u8>, usize> = got.values().map(|v| (v.clone(), v.len())).collect();
        let st = cas.stats();
        assert_eq!(st.cas.unique_blobs as usize, uniq.len(), "{what}: unique_blobs of the recovered store");
        assert_eq!(st.cas.total_bytes as usize, uniq.values().sum::<usize>(), "{what}: total_bytes of the recovered store");
    }
    // still usable
    let mut tx = cas.put("after-crash".to_string()).unwrap();
    tx.write(b"x").unwrap();
    tx.finish().unwrap_or_else(|e| panic!("{what}: the recovered store rejects a put: {e}"));
    drop(cas);
    let cas: Cas<String> = Cas::open(&db, cfg(n, sync)).unwrap_or_else(|e| panic!("{what}: second reopen fails: {e}"));
    assert_eq!(cas.get(&"after-crash".to_string()).unwrap().map(|b| b.to_vec()), Some(b"x".to_vec()), "{what}: put after recovery lost");
}
