// C10 (byte level, Engine K) — child of `crate::wal::storage`.
// The REAL SegmentReader::next on a model file holding ONE valid record (symbolic version, symbolic
// payload bytes, correct checksum) that is then damaged: cut at ANY offset, or ONE byte of the
// checksum/payload region changed to ANY other value.  The reader must never yield the record:
// a cut inside the header is end-of-log (None), everything else is an error.
// Stubs: File::read copies k >= 1 available bytes (short reads allowed); calculate_blob_hash is a toy hash that is
// collision-free under the applied damage and adversarial to weak comparisons (see hash_stub) (collision resistance of BLAKE3 is an assumption, not
// something a SAT solver should establish).  Payload LENGTH is concrete per instance.
use super::*;
use std::os::unix::io::FromRawFd;

pub(crate) const PL: usize = 2; // payload length of this instance
pub(crate) const RL: usize = WAL_ENTRY_HEADER_SIZE + PL;
pub(crate) static mut FILE: [u8; RL] = [0u8; RL];
pub(crate) static mut FILE_LEN: usize = 0;
pub(crate) static mut POS: usize = 0;
pub(crate) static mut SHORT_USED: bool = false;

#[cfg(kani)]
mod stubs {
    use super::*;
    pub fn read_stub(_f: &mut File, buf: &mut [u8]) -> std::io::Result<usize> {
        unsafe {
            if POS >= FILE_LEN || buf.is_empty() {
                return Ok(0);
            }
            let avail = core::cmp::min(buf.len(), FILE_LEN - POS);
            // at most ONE short read per run (keeps read_exact's loop at <= 3 iterations): the first
            // read may return any 1..=avail bytes, later reads return everything available
            let mut k = avail;
            if !SHORT_USED {
                let s: usize = kani::any();
                kani::assume(s >= 1 && s <= avail);
                k = s;
                SHORT_USED = true;
            }
            core::ptr::copy_nonoverlapping((&raw const FILE as *const u8).add(POS), buf.as_mut_ptr(), k); // loop-free copy
            POS += k;
            Ok(k)
        }
    }
    pub fn close_stub(_fd: libc::c_int) -> libc::c_int {
        0
    }
    /// A hash that is collision-free for the damage this harness applies (one changed byte, or a cut) but ADVERSARIAL to
    /// weak comparisons: the whole difference between H(p) and H(p') sits in one value f = p0 + 3*p1 (an odd multiplier
    /// is a bijection on u8, so changing either byte changes f) that is stored twice, in the middle of the hash.  A reader
    /// that compares only a prefix or suffix of the checksum, or folds the byte differences (xor / sum of xors), accepts
    /// a damaged payload; a reader that compares all 32 bytes does not.
    pub fn hash_stub(data: &[u8]) -> BlobHash {
        let mut h = [0u8; 32];
        let p0 = if data.len() >= 1 { data[0] } else { 0 };
        let p1 = if data.len() >= 2 { data[1] } else { 0 };
        let f = p0.wrapping_add(p1.wrapping_mul(3));
        h[13] = f;
        h[21] = f;
        assert!(data.len() <= 2, "toy hash instance covers payloads of <= 2 bytes");
        h[31] = data.len() as u8;
        BlobHash(h)
    }
}

#[cfg(kani)]
#[kani::proof]
#[kani::unwind(34)]
#[kani::stub(<std::fs::File as std::io::Read>::read, stubs::read_stub)]
#[kani::stub(libc::close, stubs::close_stub)]
#[kani::stub(crate::calculate_blob_hash, stubs::hash_stub)]
fn c10_reader_rejects_damage_len2() {
    let ver: u64 = kani::any();
    kani::assume(ver != 0);
    let p0: u8 = kani::any();
    let p1: u8 = kani::any();
    let mut rec = [0u8; RL];
    let vb = ver.to_le_bytes();
    rec[0] = vb[0]; rec[1] = vb[1]; rec[2] = vb[2]; rec[3] = vb[3];
    rec[4] = vb[4]; rec[5] = vb[5]; rec[6] = vb[6]; rec[7] = vb[7];
    let f = p0.wrapping_add(p1.wrapping_mul(3));
    rec[8 + 13] = f; rec[8 + 21] = f; rec[39] = PL as u8; // toy hash of [p0,p1]
    rec[40] = PL as u8;
    rec[44] = p0; rec[45] = p1;
    // damage
    let cut: bool = kani::any();
    let mut len = RL;
    if cut {
        let t: usize = kani::any();
        kani::assume(t < RL);
        len = t;
    } else {
        let pos: usize = kani::any();
        kani::assume((pos >= 8 && pos < 40) || (pos >= 44 && pos < RL)); // checksum or payload region
        let nv: u8 = kani::any();
        kani::assume(nv != rec[pos]);
        rec[pos] = nv;
    }
    unsafe {
        FILE = rec;
        FILE_LEN = len;
        POS = 0;
    }
    let file = unsafe { File::from_raw_fd(11) };
    let mut rd = SegmentReader::new(3, std::path::PathBuf::new(), file);
    let r = rd.next();
    match &r {
        None => {
            assert!(cut && len < WAL_ENTRY_HEADER_SIZE, "a damaged record is treated as a clean end of the log");
            kani::cover!(len == 43, "cut one byte before the end of the header");
        }
        Some(Ok(_)) => panic!("a damaged record was yielded as valid"),
        Some(Err(_)) => {
            assert!(!cut || len >= WAL_ENTRY_HEADER_SIZE);
            kani::cover!(!cut, "altered byte detected");
            kani::cover!(cut && len == 45, "short payload detected");
        }
    }
    core::mem::forget(r);
    core::mem::forget(rd);
}

// the undamaged record IS yielded (vacuity guard for the harness above) and a second read is end-of-log
#[cfg(kani)]
#[kani::proof]
#[kani::unwind(34)]
#[kani::stub(<std::fs::File as std::io::Read>::read, stubs::read_stub)]
#[kani::stub(libc::close, stubs::close_stub)]
#[kani::stub(crate::calculate_blob_hash, stubs::hash_stub)]
fn c10_reader_accepts_intact_len2() {
    let ver: u64 = kani::any();
    kani::assume(ver != 0);
    let p0: u8 = kani::any();
    let p1: u8 = kani::any();
    let mut rec = [0u8; RL];
    let vb = ver.to_le_bytes();
    rec[0] = vb[0]; rec[1] = vb[1]; rec[2] = vb[2]; rec[3] = vb[3];
    rec[4] = vb[4]; rec[5] = vb[5]; rec[6] = vb[6]; rec[7] = vb[7];
    let f = p0.wrapping_add(p1.wrapping_mul(3));
    rec[8 + 13] = f; rec[8 + 21] = f; rec[39] = PL as u8;
    rec[40] = PL as u8;
    rec[44] = p0; rec[45] = p1;
    unsafe {
        FILE = rec;
        FILE_LEN = RL;
        POS = 0;
    }
    let file = unsafe { File::from_raw_fd(11) };
    let mut rd = SegmentReader::new(3, std::path::PathBuf::new(), file);
    let r = rd.next();
    match &r {
        Some(Ok(e)) => {
            assert!(e.version.get() == ver && e.op_data.len() == PL && e.op_data[0] == p0 && e.op_data[1] == p1);
            kani::cover!(true, "intact record yielded");
        }
        _ => panic!("an intact record was not yielded"),
    }
    core::mem::forget(r);
    core::mem::forget(rd);
}
