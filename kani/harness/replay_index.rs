// Native replay of Engine-M counterexamples on the index step (child of `crate::index::state`).
// Builds the concrete pre-state the solver found (an IndexState<u64> satisfying the invariant),
// runs the REAL `apply_logical_op` / `recompute_stats`, and checks the specification natively,
// with an independent recount.  A failing assertion here = the counterexample reproduces.
use super::*;
use std::collections::{BTreeMap as BM, BTreeSet};

#[cfg(test)]
fn h(id: i64) -> BlobHash {
    let mut b = [0u8; 32];
    b[..8].copy_from_slice(&id.to_le_bytes());
    BlobHash::from_bytes(b)
}

#[cfg(test)]
fn ints(v: &serde_json::Value, name: &str) -> Vec<i64> {
    v[name].as_array().map(|a| a.iter().map(|x| x.as_i64().unwrap_or_else(|| x.as_u64().unwrap() as i64)).collect()).unwrap_or_default()
}
#[cfg(test)]
fn u64s(v: &serde_json::Value, name: &str) -> Vec<u64> {
    v[name].as_array().map(|a| a.iter().map(|x| x.as_u64().unwrap_or(0)).collect()).unwrap_or_default()
}
#[cfg(test)]
fn bools(v: &serde_json::Value, name: &str) -> Vec<bool> {
    v[name].as_array().map(|a| a.iter().map(|x| x.as_bool().unwrap_or(false)).collect()).unwrap_or_default()
}

#[cfg(test)]
fn spec_stats(m: &BM<u64, IndexStateItem>) -> (BM<[u8; 32], u32>, u64, u64) {
    let mut rc: BM<[u8; 32], u32> = BM::new();
    let mut sizes: BM<[u8; 32], u64> = BM::new();
    for it in m.values() {
        *rc.entry(it.blob_hash.0).or_insert(0) += 1;
        sizes.entry(it.blob_hash.0).or_insert(it.blob_size);
    }
    let total = sizes.values().sum::<u64>();
    (rc.clone(), rc.len() as u64, total)
}

#[cfg(test)]
fn check_state(st: &IndexState<u64>, expected: &BM<u64, IndexStateItem>, what: &str) {
    let got: BM<u64, IndexStateItem> = st.key_to_hash.iter().map(|(k, v)| (*k, *v)).collect();
    assert_eq!(&got, expected, "{what}: key map differs from the textbook map update");
    let (rc, unique, total) = spec_stats(expected);
    let got_rc: BM<[u8; 32], u32> = st.hash_to_ref_count.iter().map(|(k, v)| (k.0, *v)).collect();
    assert_eq!(got_rc, rc, "{what}: reference counts differ from the number of keys per hash");
    assert_eq!(st.stats.cas.unique_blobs, unique, "{what}: unique_blobs");
    assert_eq!(st.stats.cas.total_bytes, total, "{what}: total_bytes");
}

#[cfg(test)]
#[test]
fn replay_index_step() {
    let v = rv::load();
    let keys = ints(&v, "keys");
    let pk = bools(&v, "pk");
    let hk = ints(&v, "hk");
    let sk = u64s(&v, "sk");
    let mut pre: BM<u64, IndexStateItem> = BM::new();
    let base = *keys.iter().min().unwrap_or(&0);
    let kk = |k: i64| (k - base) as u64;
    for i in 0..keys.len() {
        if pk[i] {
            pre.insert(kk(keys[i]), IndexStateItem { blob_hash: h(hk[i]), blob_size: sk[i] });
        }
    }
    let mut st: IndexState<u64> = IndexState::new();
    for (k, it) in &pre {
        st.key_to_hash.insert(*k, *it);
        *st.hash_to_ref_count.entry(it.blob_hash).or_default() += 1;
    }
    let (_, unique, total) = spec_stats(&pre);
    st.stats.cas.unique_blobs = unique;
    st.stats.cas.total_bytes = total;

    let opkind = v["op"].as_str().unwrap_or("");
    if opkind == "recompute" {
        st.stats.cas.unique_blobs = 12345;
        st.stats.cas.total_bytes = 999;
        st.recompute_stats(7);
        check_state(&st, &pre, "recompute_stats");
        return;
    }
    let mut expected = pre.clone();
    let op = if opkind == "put" {
        let k = kk(v["op_key"].as_i64().unwrap());
        let item = IndexStateItem { blob_hash: h(v["op_hash"].as_i64().unwrap()), blob_size: v["op_size"].as_u64().unwrap() };
        expected.insert(k, item);
        WalOp::Put { key: k, hash: item.blob_hash, size: item.blob_size }
    } else {
        let ks: Vec<u64> = ints(&v, "op_keys").into_iter().map(kk).collect();
        for k in &ks {
            expected.remove(k);
        }
        WalOp::Remove { keys: ks }
    };
    let before: BTreeSet<[u8; 32]> = pre.values().map(|i| i.blob_hash.0).collect();
    let after: BTreeSet<[u8; 32]> = expected.values().map(|i| i.blob_hash.0).collect();
    let res = st.apply_logical_op(&op).expect("apply_logical_op returned Err on an invariant-satisfying state");
    check_state(&st, &expected, "apply_logical_op");
    let mut got: Vec<[u8; 32]> = res.iter().map(|x| x.0).collect();
    let n = got.len();
    got.sort();
    got.dedup();
    assert_eq!(n, got.len(), "unreferenced list contains duplicates");
    let want: Vec<[u8; 32]> = before.difference(&after).cloned().collect();
    assert_eq!(got, want, "unreferenced list is not exactly the hashes whose last reference went away");
}
