// Native replay of a fault-history counterexample (child of the crate root).
// The failed operation is emulated with the equivalent prefix of crate-internal calls: everything the
// real operation does before the failing WAL flush/fdatasync (stage + rename the blob, append the
// record) and nothing after it (no index apply) — exactly the state the real code is left in when
// `append_op` returns the error.  The other operations run through the public API.  Then the store is
// dropped, reopened, and every key of the recovered index must be readable.
use crate::types::WalOp;
use crate::*;
use std::num::NonZeroU64;

#[cfg(test)]
fn content(id: i64) -> Vec<u8> {
    format!("content-of-hash-{id}").into_bytes()
}
#[cfg(test)]
fn keyname(id: i64) -> String {
    format!("key{id}")
}

#[cfg(test)]
#[test]
fn replay_ghost_record() {
    let v = rv::load();
    let ints = |n: &str| -> Vec<i64> { v[n].as_array().map(|a| a.iter().map(|x| x.as_i64().unwrap_or(0)).collect()).unwrap_or_default() };
    let bools = |n: &str| -> Vec<bool> { v[n].as_array().map(|a| a.iter().map(|x| x.as_bool().unwrap_or(false)).collect()).unwrap_or_default() };
    let (keys, pk, hk) = (ints("keys"), bools("pk"), ints("hk"));
    let kinds: Vec<String> = v["kinds"].as_array().unwrap().iter().map(|x| x.as_str().unwrap().to_string()).collect();
    let results: Vec<String> = v["results"].as_array().unwrap().iter().map(|x| x.as_str().unwrap().to_string()).collect();
    let dir = tempfile::tempdir().unwrap();
    let cfg = Config { num_ops_per_wal: NonZeroU64::new(10_000).unwrap(), scan_orphans_on_startup: false, ..Default::default() };
    {
        let cas: Cas<String> = Cas::open(dir.path(), cfg.clone()).unwrap();
        for i in 0..keys.len() {
            if pk[i] {
                let mut tx = cas.put(keyname(keys[i])).unwrap();
                tx.write(&content(hk[i])).unwrap();
                tx.finish().unwrap();
            }
        }
        for (t, kind) in kinds.iter().enumerate() {
            let key = keyname(v[format!("t{t}_key")].as_i64().unwrap_or(0));
            let failed = results.get(t).map(|r| r == "err").unwrap_or(false);
            match (kind.as_str(), failed) {
                ("put", false) => {
                    let mut tx = cas.put(key).unwrap();
                    tx.write(&content(v[format!("t{t}_hash")].as_i64().unwrap_or(0))).unwrap();
                    tx.finish().unwrap();
                }
                ("put", true) => {
                    let c = content(v[format!("t{t}_hash")].as_i64().unwrap_or(0));
                    let h = calculate_blob_hash(&c);
                    let mut f = tempfile::NamedTempFile::new_in(cas.paths.staging_root_path()).unwrap();
                    std::io::Write::write_all(&mut f, &c).unwrap();
                    cas.cas_manager.commit_blob(f.path(), &h).unwrap();
                    let op: WalOp<String> = WalOp::Put { key, hash: h, size: c.len() as u64 };
                    let bytes = crate::serialization::serialize_wal_op_raw(&op.to_raw()).unwrap();
                    cas.index.wal.lock().append_op(&bytes).unwrap(); // the record reaches the file; the op reports failure
                }
                ("remove", false) => { let _ = cas.remove(&key); }
                ("remove", true) => {
                    let op: WalOp<String> = WalOp::Remove { keys: vec![key] };
                    let bytes = crate::serialization::serialize_wal_op_raw(&op.to_raw()).unwrap();
                    cas.index.wal.lock().append_op(&bytes).unwrap();
                }
                _ => {}
            }
        }
        // live index must be sound as well
        for (k, item) in cas.read_index_state().iter() {
            assert!(cas.paths.cas_file_path(&item.blob_hash).exists(), "live index: key {k:?} points to a missing blob");
        }
    }
    let cas: Cas<String> = Cas::open(dir.path(), cfg).expect("reopen after the contained fault");
    let items: Vec<(String, IndexStateItem)> = cas.read_index_state().iter().map(|(k, i)| (k.clone(), *i)).collect();
    for (k, item) in items {
        assert!(cas.paths.cas_file_path(&item.blob_hash).exists(),
            "after reopen key {k:?} points to blob {} which does not exist: the record of the FAILED operation was replayed \
             although later operations had deleted its blob", item.blob_hash);
        assert!(cas.get(&k).is_ok());
    }
}
