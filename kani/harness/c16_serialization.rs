// C16 — decoders are total, allocation-bounded; WalOpRaw codec round-trips.
// Child module of `crate::serialization` (reaches the private read_* helpers).
use super::*;

// ------------------------------------------------------------------------------------------
// deserialize_wal_op_raw: every buffer of length <= N.
// Unwind bound derived from the code: after the 5-byte (tag + num_keys) prefix every loop
// iteration of the Remove arm consumes >= 4 bytes or returns, so it runs at most
// floor((N-5)/4)+1 times; +1 for the exit test.  Kani's unwinding assertions stay on.
pub(crate) fn wal_op_total_body(buf: &[u8], len: usize) {
    let input = &buf[..len];
    let r = deserialize_wal_op_raw(input);
    match &r {
        Ok(WalOpRaw::Put { key_bytes, .. }) => {
            // consumed = 1 + 4 + key + 32 + 8
            assert!(key_bytes.len() + 45 <= len, "Put: decoded more key bytes than present");
            assert!(key_bytes.capacity() <= len, "Put: allocation exceeds input size");
            assert!(input[0] == 0);
            vcover!(key_bytes.len() > 0, "non-empty Put key decoded");
        }
        Ok(WalOpRaw::Remove { keys_bytes }) => {
            assert!(input[0] == 1);
            let n = keys_bytes.len();
            assert!(5 + 4 * n <= len, "Remove: more keys decoded than bytes present");
            // Vec growth policy: capacity <= max(4, 2n); a count-driven pre-allocation breaks this
            assert!(keys_bytes.capacity() <= if 2 * n > 4 { 2 * n } else { 4 },
                "Remove: key-vector allocation not bounded by decoded keys");
            let declared = u32::from_le_bytes([input[1], input[2], input[3], input[4]]) as usize;
            assert!(declared == n, "Remove: key count differs from header");
            vcover!(n == 2, "two-key Remove decoded");
        }
        Err(_) => {
            vcover!(len >= 5 && input[0] == 1, "Remove with missing bytes rejected");
        }
    }
    core::mem::forget(r);
}

#[cfg(kani)]
macro_rules! wal_op_total {
    ($name:ident, $n:expr, $unw:expr) => {
        #[kani::proof]
        #[kani::unwind($unw)]
        fn $name() {
            let buf: [u8; $n] = kani::any();
            let len: usize = kani::any();
            kani::assume(len <= $n);
            wal_op_total_body(&buf, len);
        }
    };
}
#[cfg(kani)]
wal_op_total!(c16_wal_op_total_13, 13, 4); // (13-5)/4+1 = 3 iterations, +1
#[cfg(kani)]
wal_op_total!(c16_wal_op_total_17, 17, 5);
#[cfg(kani)]
wal_op_total!(c16_wal_op_total_24, 24, 6);

// Put arm needs >= 45 bytes to succeed: one instance at 48 bytes restricted to tag 0
// (the Put arm is loop-free; to_vec is a memcpy).
#[cfg(kani)]
#[kani::proof]
#[kani::unwind(3)]
fn c16_wal_op_put_total_48() {
    let buf: [u8; 48] = kani::any();
    let len: usize = kani::any();
    kani::assume(len <= 48);
    kani::assume(buf[0] == 0);
    wal_op_total_body(&buf, len);
}

#[cfg(test)]
#[test]
fn replay_c16_wal_op_total() {
    let v = rv::load();
    let buf: [u8; 48] = rv::arr(&v, "buf");
    let len = rv::num(&v, "len") as usize;
    wal_op_total_body(&buf, len);
}

// ------------------------------------------------------------------------------------------
// helpers on a slice of SYMBOLIC LENGTH (this is where `as usize` / u32-extreme cases live)
pub(crate) fn helpers_body(buf: &[u8], len: usize, n: usize) {
    let data = &buf[..len];
    {
        let mut s = data;
        match take_bytes(&mut s, n, "e", "c") {
            Ok(h) => {
                assert!(n <= len && h.len() == n && s.len() == len - n);
                vcover!(n == len && len > 0, "exact take");
            }
            Err(_) => {
                assert!(n > len && s.len() == len, "take_bytes consumed input on error");
                vcover!(n == usize::MAX, "huge length rejected");
            }
        }
    }
    {
        let mut s = data;
        match read_u8(&mut s, "c") {
            Ok(b) => assert!(len >= 1 && b == data[0] && s.len() == len - 1),
            Err(_) => assert!(len == 0),
        }
    }
    {
        let mut s = data;
        match read_u32(&mut s, "c") {
            Ok(x) => {
                assert!(len >= 4 && s.len() == len - 4);
                assert!(x == (data[0] as u32) | (data[1] as u32) << 8 | (data[2] as u32) << 16 | (data[3] as u32) << 24);
            }
            Err(_) => assert!(len < 4 && s.len() == len),
        }
    }
    {
        let mut s = data;
        match read_u64(&mut s, "c") {
            Ok(x) => {
                assert!(len >= 8 && s.len() == len - 8);
                assert!(x.to_le_bytes() == [data[0], data[1], data[2], data[3], data[4], data[5], data[6], data[7]]);
            }
            Err(_) => assert!(len < 8 && s.len() == len),
        }
    }
    {
        let mut s = data;
        match read_bytes_with_len(&mut s, "c") {
            Ok(v) => {
                let l = u32::from_le_bytes([data[0], data[1], data[2], data[3]]) as usize;
                assert!(v.len() == l && 4 + l <= len && s.len() == len - 4 - l);
                assert!(v.capacity() <= len, "read_bytes_with_len allocates beyond the input");
                if l > 0 {
                    assert!(v[0] == data[4] && v[l - 1] == data[4 + l - 1]);
                }
                core::mem::forget(v);
            }
            Err(_) => {}
        }
    }
}

#[cfg(kani)]
#[kani::proof]
#[kani::unwind(13)]
fn c16_helpers_12() {
    let buf: [u8; 12] = kani::any();
    let len: usize = kani::any();
    kani::assume(len <= 12);
    let n: usize = kani::any();
    helpers_body(&buf, len, n);
}

pub(crate) fn fixed32_body(buf: &[u8], len: usize) {
    let data = &buf[..len];
    let mut s = data;
    match read_fixed_bytes::<32>(&mut s, "c") {
        Ok(a) => {
            assert!(len >= 32 && s.len() == len - 32);
            let i: usize = 0;
            assert!(a[0] == data[0] && a[31] == data[31] && a[17] == data[17]);
            vcover!(len == 32, "exact 32");
        }
        Err(_) => assert!(len < 32 && s.len() == len),
    }
}

#[cfg(kani)]
#[kani::proof]
#[kani::unwind(3)]
fn c16_fixed32_40() {
    let buf: [u8; 40] = kani::any();
    let len: usize = kani::any();
    kani::assume(len <= 40);
    fixed32_body(&buf, len);
}

#[cfg(test)]
#[test]
fn replay_c16_helpers() {
    let v = rv::load();
    let buf: [u8; 40] = rv::arr(&v, "buf");
    let len = rv::num(&v, "len") as usize;
    let n = rv::num(&v, "n") as usize;
    helpers_body(&buf, len.min(12), n);
    fixed32_body(&buf, len);
}

// ------------------------------------------------------------------------------------------
// WalOpRaw round trips: decode(encode(op)) == op, and the encoding has the documented layout.
pub(crate) fn put_roundtrip_body(key: &[u8], klen: usize, hash: [u8; 32], size: u64) {
    let op = WalOpRaw::Put { key_bytes: key[..klen].to_vec(), hash: BlobHash::from_bytes(hash), size };
    let bytes = serialize_wal_op_raw(&op).unwrap();
    assert!(bytes.len() == 1 + 4 + klen + 32 + 8);
    assert!(bytes[0] == 0);
    let back = deserialize_wal_op_raw(&bytes);
    match &back {
        Ok(WalOpRaw::Put { key_bytes, hash: h2, size: s2 }) => {
            assert!(key_bytes.len() == klen);
            let mut i = 0;
            while i < klen {
                assert!(key_bytes[i] == key[i]);
                i += 1;
            }
            assert!(*s2 == size, "size field lost in round trip");
            // field-wise compare of a few symbolic positions avoids a 33-deep memcmp
            let a = h2.as_bytes();
            assert!(a[0] == hash[0] && a[1] == hash[1] && a[15] == hash[15] && a[16] == hash[16]
                && a[30] == hash[30] && a[31] == hash[31], "hash bytes moved in round trip");
            vcover!(size == u64::MAX, "max size");
        }
        _ => panic!("Put did not decode back to a Put"),
    }
    core::mem::forget(back);
    core::mem::forget(bytes);
    core::mem::forget(op);
}

// The key LENGTH is concrete per instance (a symbolic buffer length makes the SAT problem
// intractable: 97 s of symex then out of memory at 8 bytes); key BYTES, hash, size symbolic.
#[cfg(kani)]
macro_rules! put_roundtrip {
    ($name:ident, $klen:expr) => {
        #[kani::proof]
        #[kani::unwind(10)]
        fn $name() {
            let key: [u8; 8] = kani::any();
            let klen: usize = $klen;
            let hash: [u8; 32] = kani::any();
            let size: u64 = kani::any();
            put_roundtrip_body(&key, klen, hash, size);
        }
    };
}
#[cfg(kani)]
put_roundtrip!(c16_put_roundtrip_k0, 0);
#[cfg(kani)]
put_roundtrip!(c16_put_roundtrip_k1, 1);
#[cfg(kani)]
put_roundtrip!(c16_put_roundtrip_k4, 4);
#[cfg(kani)]
put_roundtrip!(c16_put_roundtrip_k8, 8);

#[cfg(test)]
#[test]
fn replay_c16_put_roundtrip() {
    let v = rv::load();
    let key: [u8; 8] = rv::arr(&v, "key");
    let hash: [u8; 32] = rv::arr(&v, "hash");
    put_roundtrip_body(&key, (rv::num(&v, "klen") as usize).min(8), hash, rv::num(&v, "size"));
}

pub(crate) fn remove_roundtrip_body(k0: &[u8], l0: usize, k1: &[u8], l1: usize, nkeys: usize) {
    let mut keys = Vec::new();
    if nkeys >= 1 {
        keys.push(k0[..l0].to_vec());
    }
    if nkeys >= 2 {
        keys.push(k1[..l1].to_vec());
    }
    let op = WalOpRaw::Remove { keys_bytes: keys };
    let bytes = serialize_wal_op_raw(&op).unwrap();
    assert!(bytes[0] == 1);
    let back = deserialize_wal_op_raw(&bytes);
    match &back {
        Ok(WalOpRaw::Remove { keys_bytes }) => {
            assert!(keys_bytes.len() == nkeys, "Remove lost or gained keys");
            if nkeys >= 1 {
                assert!(keys_bytes[0].len() == l0);
                let mut i = 0;
                while i < l0 {
                    assert!(keys_bytes[0][i] == k0[i]);
                    i += 1;
                }
            }
            if nkeys >= 2 {
                assert!(keys_bytes[1].len() == l1);
                let mut i = 0;
                while i < l1 {
                    assert!(keys_bytes[1][i] == k1[i]);
                    i += 1;
                }
                vcover!(k1[0] == 0xff, "second key decoded");
            }
        }
        _ => panic!("Remove did not decode back to a Remove"),
    }
    core::mem::forget(back);
    core::mem::forget(bytes);
    core::mem::forget(op);
}

#[cfg(kani)]
macro_rules! remove_roundtrip {
    ($name:ident, $n:expr, $l0:expr, $l1:expr) => {
        #[kani::proof]
        #[kani::unwind(4)]
        fn $name() {
            let k0: [u8; 3] = kani::any();
            let k1: [u8; 3] = kani::any();
            let (l0, l1, nkeys): (usize, usize, usize) = ($l0, $l1, $n);
            remove_roundtrip_body(&k0, l0, &k1, l1, nkeys);
        }
    };
}
#[cfg(kani)]
remove_roundtrip!(c16_remove_roundtrip_n0, 0, 0, 0);
#[cfg(kani)]
remove_roundtrip!(c16_remove_roundtrip_n1_l0, 1, 0, 0);
#[cfg(kani)]
remove_roundtrip!(c16_remove_roundtrip_n1_l1, 1, 1, 0);
#[cfg(kani)]
remove_roundtrip!(c16_remove_roundtrip_n1_l2, 1, 2, 0);
#[cfg(kani)]
remove_roundtrip!(c16_remove_roundtrip_n2_l03, 2, 0, 3);
#[cfg(kani)]
remove_roundtrip!(c16_remove_roundtrip_n2_l31, 2, 3, 1);

#[cfg(test)]
#[test]
fn replay_c16_remove_roundtrip() {
    let v = rv::load();
    let k0: [u8; 3] = rv::arr(&v, "k0");
    let k1: [u8; 3] = rv::arr(&v, "k1");
    remove_roundtrip_body(&k0, (rv::num(&v, "l0") as usize).min(3), &k1,
        (rv::num(&v, "l1") as usize).min(3), (rv::num(&v, "nkeys") as usize).min(2));
}

// native confirmation for Engine-M decoder counterexamples (untrusted counts in the input)
#[cfg(test)]
#[test]
fn replay_c16_decoder_counts() {
    let inputs: Vec<Vec<u8>> = vec![
        vec![1, 0, 0, 0, 0x40],             // Remove, num_keys = 2^30, nothing else
        vec![1, 0xff, 0xff, 0xff, 0xff],    // Remove, num_keys = u32::MAX
        vec![1, 0xff, 0xff, 0xff, 0x7f, 0, 0, 0, 0],
        vec![0, 0xff, 0xff, 0xff, 0xff],    // Put, key length u32::MAX
        vec![1, 2, 0, 0, 0, 0xff, 0xff, 0xff, 0xff],
    ];
    for inp in &inputs {
        let r = std::panic::catch_unwind(|| deserialize_wal_op_raw(inp).is_ok());
        assert!(matches!(r, Ok(false)), "op decoder on {inp:?}: panicked or accepted a truncated record");
    }
    let snaps: Vec<Vec<u8>> = vec![
        [vec![1, 0, 0, 0, 0, 0, 0, 0], vec![0xff, 0xff, 0xff, 0xff]].concat(),          // num_entries = u32::MAX, no entries
        [vec![1, 0, 0, 0, 0, 0, 0, 0], vec![1, 0, 0, 0], vec![0xff, 0xff, 0xff, 0xff]].concat(), // key length u32::MAX
        [vec![0; 8], vec![0, 0, 0, 0x40]].concat(),
    ];
    for inp in &snaps {
        let r = std::panic::catch_unwind(|| deserialize_index_state(inp).is_ok());
        assert!(matches!(r, Ok(false)), "snapshot decoder on {inp:?}: panicked or accepted a truncated snapshot");
    }
}
