// Lock-gated native replay of an interleaving counterexample (child of the crate root; see lib/gated.py).
// The operations of the solver-side schedule run as REAL threads through the crate's public API; every
// acquisition of pending_intents / state / wal (hook in the gated parking_lot) and every rename / unlink /
// open under cas/ or staging/ (libc symbols pre-empted by this test binary) waits until the schedule's next
// event is that very event.  A failed call of the schedule (`...:err:...`) is injected as errno EIO.
// If the real code does not follow the schedule (an event that does not match, or a stall) everything is
// released and the test prints `GATED-REPLAY: diverged` - the caller reports INCONCLUSIVE, never a violation.
use crate::*;
use std::cell::Cell;
use std::ffi::{c_char, c_int, c_uint, c_void, CStr};
use std::num::NonZeroU64;
use std::sync::atomic::{AtomicUsize, Ordering};
use std::sync::{Arc, Condvar, Mutex as StdMutex};
use std::time::{Duration, Instant};

#[cfg(test)]
struct Sched {
    evs: Vec<(usize, String, bool)>, // (thread, kind, injected failure)
    cur: usize,
    holder: Option<usize>,
    diverged: Option<String>,
    log: Vec<String>,
}

#[cfg(test)]
static SCHED: StdMutex<Option<Sched>> = StdMutex::new(None);
#[cfg(test)]
static CV: Condvar = Condvar::new();
#[cfg(test)]
static ADDR_INTENTS: AtomicUsize = AtomicUsize::new(0);
#[cfg(test)]
static ADDR_STATE: AtomicUsize = AtomicUsize::new(0);
#[cfg(test)]
static ADDR_WAL: AtomicUsize = AtomicUsize::new(0);
#[cfg(test)]
static ROOTS: StdMutex<(Vec<u8>, Vec<u8>)> = StdMutex::new((Vec::new(), Vec::new())); // (cas root, staging root)
#[cfg(test)]
thread_local! { static ROLE: Cell<Option<usize>> = const { Cell::new(None) }; }

#[cfg(test)]
const STALL: Duration = Duration::from_secs(20);

#[cfg(test)]
fn role() -> Option<usize> {
    ROLE.try_with(|r| r.get()).ok().flatten()
}

/// events that are not scheduling-relevant: they may occur without being listed
#[cfg(test)]
fn passable(kind: &str) -> bool {
    kind == "unlink:staging"
}

/// -> true if the schedule says this call fails (only meaningful for file-system kinds)
#[cfg(test)]
fn enter(kind: &str) -> bool {
    let Some(t) = role() else { return false };
    let mut g = SCHED.lock().unwrap_or_else(|e| e.into_inner());
    let start = Instant::now();
    loop {
        let Some(s) = g.as_mut() else { return false };
        if s.diverged.is_some() {
            return false;
        }
        let mine = s.evs[s.cur.min(s.evs.len())..].iter().position(|e| e.0 == t);
        let Some(off) = mine else { return false }; // nothing more scheduled for this thread: it runs freely
        let (ek, ef) = { let e = &s.evs[s.cur + off]; (e.1.clone(), e.2) };
        if ek == "resume" {
            // this thread is held inside its window (at whatever it does next) until the schedule reaches its `resume`;
            // from there on it runs freely
            if off == 0 && s.holder.is_none() {
                s.cur += 1;
                s.log.push(format!("T{t}:resume(at {kind})"));
                CV.notify_all();
                continue;
            }
            if start.elapsed() > STALL * 3 {
                s.diverged = Some(format!("stalled: T{t} is held at `{kind}` for its resume; the schedule is at position {} = {:?}", s.cur, s.evs.get(s.cur)));
                CV.notify_all();
                return false;
            }
            g = CV.wait_timeout(g, Duration::from_millis(100)).unwrap_or_else(|e| e.into_inner()).0;
            continue;
        }
        if ek != kind {
            if passable(kind) {
                return false;
            }
            s.diverged = Some(format!("T{t} arrives at `{kind}` but its next scheduled event is `{ek}` (position {})", s.cur + off));
            CV.notify_all();
            return false;
        }
        if off == 0 && s.holder.is_none() {
            s.holder = Some(t);
            s.log.push(format!("T{t}:{kind}{}", if ef { " (injected failure)" } else { "" }));
            return ef;
        }
        if start.elapsed() > STALL {
            s.diverged = Some(format!("stalled: T{t} waits for its `{kind}`; the schedule is at position {} = {:?}, turn held by {:?}",
                                      s.cur, s.evs.get(s.cur), s.holder));
            CV.notify_all();
            return false;
        }
        g = CV.wait_timeout(g, Duration::from_millis(100)).unwrap_or_else(|e| e.into_inner()).0;
    }
}

#[cfg(test)]
fn leave(_kind: &str) {
    let Some(t) = role() else { return };
    let mut g = SCHED.lock().unwrap_or_else(|e| e.into_inner());
    if let Some(s) = g.as_mut() {
        if s.holder == Some(t) {
            s.holder = None;
            s.cur += 1;
            CV.notify_all();
        }
    }
}

#[cfg(test)]
fn lock_kind(addr: usize, mode: u8) -> Option<&'static str> {
    if addr == ADDR_INTENTS.load(Ordering::Relaxed) {
        Some("acq:pending_intents")
    } else if addr == ADDR_WAL.load(Ordering::Relaxed) {
        Some("acq:wal")
    } else if addr == ADDR_STATE.load(Ordering::Relaxed) {
        Some(if mode == 0 { "acq:state-read" } else { "acq:state-write" })
    } else {
        None
    }
}
#[cfg(test)]
fn before_lock(addr: usize, mode: u8) {
    if role().is_none() { return; }
    if let Some(k) = lock_kind(addr, mode) { let _ = enter(k); }
}
#[cfg(test)]
fn after_lock(addr: usize, mode: u8) {
    if role().is_none() { return; }
    if let Some(k) = lock_kind(addr, mode) { leave(k); }
}

// ---- file-system calls: this binary's own `rename` / `unlink` / `open64` pre-empt libc's
#[cfg(test)]
unsafe extern "C" {
    fn dlsym(handle: *mut c_void, symbol: *const c_char) -> *mut c_void;
    fn __errno_location() -> *mut c_int;
}
#[cfg(test)]
fn real(sym: &'static [u8], slot: &AtomicUsize) -> usize {
    let mut p = slot.load(Ordering::Relaxed);
    if p == 0 {
        p = unsafe { dlsym(-1isize as *mut c_void, sym.as_ptr() as *const c_char) } as usize;
        slot.store(p, Ordering::Relaxed);
    }
    p
}
#[cfg(test)]
fn under(p: *const c_char, which: usize) -> bool {
    if p.is_null() { return false; }
    let b = unsafe { CStr::from_ptr(p) }.to_bytes();
    let g = ROOTS.lock().unwrap_or_else(|e| e.into_inner());
    let r = if which == 0 { &g.0 } else { &g.1 };
    !r.is_empty() && b.starts_with(r)
}
// ---- lock probe at the system-call layer: is the pending_intents mutex held at the very moment a blob leaves cas/ ?
#[cfg(test)]
static PROBE_ON: AtomicUsize = AtomicUsize::new(0);
#[cfg(test)]
static PROBE_CALLS: AtomicUsize = AtomicUsize::new(0);
#[cfg(test)]
static PROBE_UNLOCKED: AtomicUsize = AtomicUsize::new(0);
#[cfg(test)]
fn probe_blob_leaves_cas() {
    if PROBE_ON.load(Ordering::Relaxed) == 0 || role().is_none() { return; }
    use parking_lot::lock_api::RawMutex as _;
    let a = ADDR_INTENTS.load(Ordering::Relaxed);
    if a == 0 { return; }
    let raw = unsafe { &*(a as *const parking_lot::RawMutex) };
    PROBE_CALLS.fetch_add(1, Ordering::SeqCst);
    if !raw.is_locked() { PROBE_UNLOCKED.fetch_add(1, Ordering::SeqCst); }
}

#[cfg(test)]
fn fs_call(kind: Option<&'static str>, f: impl FnOnce() -> c_int) -> c_int {
    let Some(k) = kind else { return f() };
    if role().is_none() { return f(); }
    let fail = enter(k);
    let r = if fail { unsafe { *__errno_location() = 5 }; -1 } else { f() };
    leave(k);
    r
}

#[cfg(test)]
#[unsafe(no_mangle)]
pub unsafe extern "C" fn rename(old: *const c_char, new: *const c_char) -> c_int {
    static R: AtomicUsize = AtomicUsize::new(0);
    let f: extern "C" fn(*const c_char, *const c_char) -> c_int = unsafe { std::mem::transmute(real(b"rename\0", &R)) };
    if FAULT_ON.load(Ordering::Relaxed) != 0 && plan_hit("rename", path_class(cbytes(old))) { return eio(); }
    let kind = if under(new, 0) { Some("rename:staging") } else if under(old, 0) { Some("rename:cas") } else { None };
    if under(old, 0) && !under(new, 0) { probe_blob_leaves_cas(); }
    fs_call(kind, || f(old, new))
}
#[cfg(test)]
#[unsafe(no_mangle)]
pub unsafe extern "C" fn unlink(p: *const c_char) -> c_int {
    static R: AtomicUsize = AtomicUsize::new(0);
    let f: extern "C" fn(*const c_char) -> c_int = unsafe { std::mem::transmute(real(b"unlink\0", &R)) };
    if FAULT_ON.load(Ordering::Relaxed) != 0 && plan_hit("unlink", path_class(cbytes(p))) { return eio(); }
    let kind = if under(p, 0) { Some("unlink:cas") } else if under(p, 1) { Some("unlink:staging") } else { None };
    if under(p, 0) { probe_blob_leaves_cas(); }
    fs_call(kind, || f(p))
}
#[cfg(test)]
#[unsafe(no_mangle)]
pub unsafe extern "C" fn open64(p: *const c_char, flags: c_int, mode: c_uint) -> c_int {
    static R: AtomicUsize = AtomicUsize::new(0);
    let f: extern "C" fn(*const c_char, c_int, c_uint) -> c_int = unsafe { std::mem::transmute(real(b"open64\0", &R)) };
    const O_ACCMODE: c_int = 3;
    const O_DIRECTORY: c_int = 0o200000;
    if FAULT_ON.load(Ordering::Relaxed) != 0 && (flags & O_DIRECTORY) == 0 && plan_hit("open", path_class(cbytes(p))) { return eio(); }
    let kind = if under(p, 0) && (flags & O_ACCMODE) == 0 && (flags & O_DIRECTORY) == 0 { Some("open:cas") } else { None };
    fs_call(kind, || f(p, flags, mode))
}


// ---- sequential fault plans (C14): fail the n-th call of one kind inside the window, through the same layer
#[cfg(test)]
struct FaultPlan {
    active: bool,
    kind: String,       // e.g. "unlink:cas", "write:wal", "sync:staging", "rename:index.tmp"
    nth: usize,         // 1-based ordinal among calls of that kind inside the window
    seen: usize,
    fired: bool,
    log: Vec<String>,
}
#[cfg(test)]
static FAULT: StdMutex<Option<FaultPlan>> = StdMutex::new(None);
#[cfg(test)]
static DBROOT: StdMutex<Vec<u8>> = StdMutex::new(Vec::new());

/// class of a path inside the database directory: cas / staging / wal / index.tmp / index / settings / lock
#[cfg(test)]
fn path_class(b: &[u8]) -> Option<&'static str> {
    let root = DBROOT.lock().unwrap_or_else(|e| e.into_inner());
    if root.is_empty() || !b.starts_with(&root) { return None; }
    let rel = &b[root.len()..];
    let rel = if rel.first() == Some(&b'/') { &rel[1..] } else { rel };
    if rel.starts_with(b"cas/") || rel == b"cas" { Some("cas") }
    else if rel.starts_with(b"staging/") { Some("staging") }
    else if rel.ends_with(b"_index.wal") { Some("wal") }
    else if rel == b"index.tmp" { Some("index.tmp") }
    else if rel == b"index" { Some("index") }
    else if rel.starts_with(b"db_settings") { Some("settings") }
    else { None }
}
#[cfg(test)]
fn fd_class(fd: c_int) -> Option<&'static str> {
    let link = format!("/proc/self/fd/{fd}\0");
    let mut buf = [0u8; 4096];
    let n = unsafe { readlink(link.as_ptr() as *const c_char, buf.as_mut_ptr() as *mut c_char, buf.len()) };
    if n <= 0 { return None; }
    let mut b = &buf[..n as usize];
    if b.ends_with(b" (deleted)") { b = &b[..b.len() - 10]; }
    path_class(b)
}
/// -> true if the fault plan says THIS call fails
#[cfg(test)]
fn plan_hit(op: &str, class: Option<&'static str>) -> bool {
    let Some(c) = class else { return false };
    let mut g = FAULT.lock().unwrap_or_else(|e| e.into_inner());
    let Some(p) = g.as_mut() else { return false };
    if !p.active { return false; }
    let k = format!("{op}:{c}");
    p.log.push(k.clone());
    if k == p.kind {
        p.seen += 1;
        if p.seen == p.nth && !p.fired {
            p.fired = true;
            return true;
        }
    }
    false
}
#[cfg(test)]
fn eio() -> c_int { unsafe { *__errno_location() = 5 }; -1 }
#[cfg(test)]
fn cbytes<'a>(p: *const c_char) -> &'a [u8] { if p.is_null() { b"" } else { unsafe { CStr::from_ptr(p) }.to_bytes() } }

#[cfg(test)]
unsafe extern "C" { fn readlink(path: *const c_char, buf: *mut c_char, len: usize) -> isize; }

#[cfg(test)]
#[unsafe(no_mangle)]
pub unsafe extern "C" fn write(fd: c_int, buf: *const c_void, n: usize) -> isize {
    static R: AtomicUsize = AtomicUsize::new(0);
    let f: extern "C" fn(c_int, *const c_void, usize) -> isize = unsafe { std::mem::transmute(real(b"write\0", &R)) };
    if fd > 2 && FAULT_ON.load(Ordering::Relaxed) != 0 && plan_hit("write", fd_class(fd)) { return eio() as isize; }
    f(fd, buf, n)
}
#[cfg(test)]
#[unsafe(no_mangle)]
pub unsafe extern "C" fn fdatasync(fd: c_int) -> c_int {
    static R: AtomicUsize = AtomicUsize::new(0);
    let f: extern "C" fn(c_int) -> c_int = unsafe { std::mem::transmute(real(b"fdatasync\0", &R)) };
    if FAULT_ON.load(Ordering::Relaxed) != 0 && plan_hit("sync", fd_class(fd)) { return eio(); }
    f(fd)
}
#[cfg(test)]
#[unsafe(no_mangle)]
pub unsafe extern "C" fn fsync(fd: c_int) -> c_int {
    static R: AtomicUsize = AtomicUsize::new(0);
    let f: extern "C" fn(c_int) -> c_int = unsafe { std::mem::transmute(real(b"fsync\0", &R)) };
    if FAULT_ON.load(Ordering::Relaxed) != 0 && plan_hit("sync", fd_class(fd)) { return eio(); }
    f(fd)
}
#[cfg(test)]
static FAULT_ON: AtomicUsize = AtomicUsize::new(0);

#[cfg(test)]
fn content(id: i64) -> Vec<u8> {
    format!("content-of-hash-{id}").into_bytes()
}
#[cfg(test)]
fn keyname(id: i64) -> String {
    format!("key{id}")
}

#[cfg(test)]
fn parse_step(s: &str, kinds: &[String]) -> Option<(usize, String, bool)> {
    let mut it = s.split(':');
    let t: usize = it.next()?.get(1..)?.parse().ok()?;
    let what: Vec<&str> = it.collect();
    let _ = kinds;
    match what.as_slice() {
        ["acq", l] => Some((t, format!("acq:{l}"), false)),
        ["resume"] => Some((t, "resume".into(), false)),
        ["rename", oc, "staging"] => Some((t, "rename:staging".into(), *oc == "err")),
        ["rename", oc, "cas"] => Some((t, "rename:cas".into(), *oc == "err")),
        ["unlink", oc, "cas"] => Some((t, "unlink:cas".into(), *oc == "err")),
        ["unlink", _, "staging"] => Some((t, "unlink:staging".into(), false)),
        ["open", oc, "cas"] | ["read", oc, "cas"] => Some((t, "open:cas".into(), *oc == "err")),
        _ => None,
    }
}

#[cfg(test)]
#[test]
fn replay_gated() {
    let v = rv::load();
    let ints = |n: &str| -> Vec<i64> { v[n].as_array().map(|a| a.iter().map(|x| x.as_i64().unwrap_or(0)).collect()).unwrap_or_default() };
    let bools = |n: &str| -> Vec<bool> { v[n].as_array().map(|a| a.iter().map(|x| x.as_bool().unwrap_or(false)).collect()).unwrap_or_default() };
    let keys = ints("keys");
    let hashes = ints("hashes");
    let pk = bools("pk");
    let hk = ints("hk");
    let orphans = bools("orphans");
    let kinds: Vec<String> = v["kinds"].as_array().unwrap().iter().map(|x| x.as_str().unwrap().to_string()).collect();
    let steps: Vec<String> = v["steps"].as_array().unwrap().iter().map(|x| x.as_str().unwrap().to_string()).collect();
    let violation = v["violation"].as_str().unwrap_or("").to_string();

    let dir = tempfile::tempdir().unwrap();
    let cfg = Config { num_ops_per_wal: NonZeroU64::new(10_000).unwrap(), scan_orphans_on_startup: false, ..Default::default() };
    let cas: Cas<String> = Cas::open(dir.path(), cfg).unwrap();
    // orphan clean-up threads work from a scan taken some time BEFORE the window, when their hash was an orphan:
    // plant it, scan, then build the initial state of the window (which may reference it, hold it or not)
    let plant = |h: i64| {
        let c = content(h);
        let p = cas.paths.cas_file_path(&calculate_blob_hash(&c));
        if !p.exists() {
            std::fs::create_dir_all(p.parent().unwrap()).unwrap();
            std::fs::write(&p, &c).unwrap();
        }
    };
    let stats = if kinds.iter().any(|k| k == "delete_orphan") {
        for (t, k) in kinds.iter().enumerate() {
            if k == "delete_orphan" { plant(v[format!("t{t}_hash")].as_i64().unwrap_or(0)); }
        }
        Some(Arc::new(crate::orphan::scan_orphans(cas.as_arc(), cas.as_arc().clone(), false).unwrap()))
    } else {
        None
    };
    for i in 0..keys.len() {
        if pk[i] {
            let mut tx = cas.put(keyname(keys[i])).unwrap();
            tx.write(&content(hk[i])).unwrap();
            tx.finish().unwrap();
        }
    }
    for (j, h) in hashes.iter().enumerate() {
        let referenced = (0..keys.len()).any(|i| pk[i] && hk[i] == *h);
        if orphans.get(j).copied().unwrap_or(false) {
            plant(*h);
        } else if !referenced {
            let _ = std::fs::remove_file(cas.paths.cas_file_path(&calculate_blob_hash(&content(*h))));
        }
    }

    let evs: Vec<(usize, String, bool)> = steps.iter().filter_map(|s| parse_step(s, &kinds)).collect();
    ADDR_INTENTS.store(unsafe { cas.index.pending_intents.raw() } as *const _ as usize, Ordering::SeqCst);
    ADDR_WAL.store(unsafe { cas.index.wal.raw() } as *const _ as usize, Ordering::SeqCst);
    ADDR_STATE.store(unsafe { cas.index.state.raw() } as *const _ as usize, Ordering::SeqCst);
    {
        let mut r = ROOTS.lock().unwrap();
        r.0 = cas.paths.cas_root_path().to_string_lossy().as_bytes().to_vec();
        r.1 = cas.paths.staging_root_path().to_string_lossy().as_bytes().to_vec();
    }
    *SCHED.lock().unwrap() = Some(Sched { evs: evs.clone(), cur: 0, holder: None, diverged: None, log: Vec::new() });
    parking_lot::verif_gate::BEFORE.store(before_lock as usize, Ordering::SeqCst);
    parking_lot::verif_gate::AFTER.store(after_lock as usize, Ordering::SeqCst);

    let results: Arc<StdMutex<Vec<String>>> = Arc::new(StdMutex::new(Vec::new()));
    let mut handles = Vec::new();
    for (t, kind) in kinds.iter().enumerate() {
        let cas = cas.clone();
        let kind = kind.clone();
        let key = keyname(v[format!("t{t}_key")].as_i64().unwrap_or(0));
        let h = v[format!("t{t}_hash")].as_i64().unwrap_or(0);
        let results = results.clone();
        let stats = stats.clone();
        handles.push(std::thread::spawn(move || {
            let mut fails = Vec::new();
            match kind.as_str() {
                "put" => {
                    // the staging file is prepared outside the window (the schedule starts at commit)
                    let mut tx = cas.put(key.clone()).unwrap();
                    tx.write(&content(h)).unwrap();
                    ROLE.with(|r| r.set(Some(t)));
                    let _ = tx.finish();
                }
                "remove" => {
                    ROLE.with(|r| r.set(Some(t)));
                    let _ = cas.remove(&key);
                }
                "get" => {
                    ROLE.with(|r| r.set(Some(t)));
                    if let Err(e) = cas.get(&key) {
                        fails.push(format!("T{t} get({key}) failed although the key was present at its lookup: {e}"));
                    }
                }
                "checkpoint" => {
                    ROLE.with(|r| r.set(Some(t)));
                    let _ = cas.checkpoint();
                }
                "delete_orphan" => {
                    let hh = calculate_blob_hash(&content(h));
                    ROLE.with(|r| r.set(Some(t)));
                    if let Some(s) = &stats { let _ = s.delete_orphan(&hh); }
                }
                _ => {}
            }
            ROLE.with(|r| r.set(None));
            results.lock().unwrap().extend(fails);
            CV.notify_all();
        }));
    }
    for hdl in handles {
        let _ = hdl.join();
    }
    parking_lot::verif_gate::BEFORE.store(0, Ordering::SeqCst);
    parking_lot::verif_gate::AFTER.store(0, Ordering::SeqCst);
    let sched = SCHED.lock().unwrap().take().unwrap();
    println!("GATED-REPLAY: executed {} of {} scheduled events: {}", sched.cur, sched.evs.len(), sched.log.join(" "));
    if let Some(d) = sched.diverged {
        println!("GATED-REPLAY: diverged: {d}");
        return;
    }
    if sched.cur < sched.evs.len() {
        println!("GATED-REPLAY: diverged: the threads finished before the schedule did (next: {:?})", sched.evs[sched.cur]);
        return;
    }
    // the instant invariant, at the end of the schedule: every key in the index has its blob
    let mut failures: Vec<String> = results.lock().unwrap().clone();
    {
        let st = cas.read_index_state();
        for (k, item) in st.iter() {
            let p = cas.paths.cas_file_path(&item.blob_hash);
            if !p.exists() {
                failures.push(format!("key {k:?} is visible in the index but its blob {} does not exist (dangling reference)", item.blob_hash));
            }
        }
    }
    if violation == "lost-update" || violation == "snapshot-inconsistent" {
        // writer || checkpoint: the writer's acknowledged operation must be visible now, and also after a crash at this very
        // moment (the directory is copied as it is and opened by a fresh instance: snapshot + log = acknowledged history)
        let writers: Vec<usize> = kinds.iter().enumerate().filter(|(_, k)| *k == "put" || *k == "remove").map(|(t, _)| t).collect();
        if writers.len() == 1 {
            let t = writers[0];
            let key = keyname(v[format!("t{t}_key")].as_i64().unwrap_or(0));
            let want: Option<Vec<u8>> = if kinds[t] == "put" { Some(content(v[format!("t{t}_hash")].as_i64().unwrap_or(0))) } else { None };
            let check = |c: &Cas<String>, whenn: &str, failures: &mut Vec<String>| {
                let got = c.get(&key).ok().flatten().map(|b| b.as_ref().to_vec());
                if got != want {
                    failures.push(format!("{whenn}: key {key:?} should {} but {}", if want.is_some() { "hold the content just put" } else { "be absent" },
                                          match &got { Some(g) => format!("holds {} other bytes", g.len()), None => "is absent / unreadable".into() }));
                }
            };
            check(&cas, "live, after every call returned", &mut failures);
            let copy = tempfile::tempdir().unwrap();
            fn cp(a: &std::path::Path, b: &std::path::Path) {
                std::fs::create_dir_all(b).unwrap();
                for e in std::fs::read_dir(a).unwrap().flatten() {
                    let (p, q) = (e.path(), b.join(e.file_name()));
                    if p.is_dir() { cp(&p, &q); } else if e.file_name() != "LOCK" { let _ = std::fs::copy(&p, &q); }
                }
            }
            cp(dir.path(), copy.path());
            let cfg2 = Config { num_ops_per_wal: NonZeroU64::new(10_000).unwrap(), scan_orphans_on_startup: false, ..Default::default() };
            match Cas::<String>::open(copy.path(), cfg2) {
                Ok(c2) => check(&c2, "after a crash at this moment and a restart", &mut failures),
                Err(e) => failures.push(format!("the store does not reopen from a copy of its directory: {e}")),
            }
        }
    }
    if violation == "stale-intent" {
        let n = cas.index.pending_intents.lock().len();
        if n != 0 {
            failures.push(format!("all operations have returned but pending_intents still holds {n} intent(s): a blob they name can never be reclaimed"));
        }
    }
    if violation == "not-exact" {
        let st = cas.read_index_state();
        let referenced: std::collections::BTreeSet<String> = st.iter().map(|(_, it)| it.blob_hash.to_string()).collect();
        drop(st);
        fn walk(d: &std::path::Path, out: &mut Vec<std::path::PathBuf>) {
            if let Ok(rd) = std::fs::read_dir(d) { for e in rd.flatten() { let p = e.path(); if p.is_dir() { walk(&p, out); } else { out.push(p); } } }
        }
        let mut files = Vec::new();
        walk(cas.paths.cas_root_path(), &mut files);
        let on_disk: std::collections::BTreeSet<String> = files.iter().map(|f| f.strip_prefix(cas.paths.cas_root_path()).unwrap().components()
            .map(|c| c.as_os_str().to_string_lossy().to_string()).collect::<String>()).collect();
        if on_disk != referenced {
            failures.push(format!("after an error-free schedule cas/ holds {:?} but the index references {:?}", on_disk, referenced));
        }
    }
    for f in &failures {
        println!("GATED-REPLAY: {f}");
    }
    assert!(failures.is_empty(), "{}", failures.join("; "));
}


// A sequential history with ONE failed file-system call (C14): initial state, then the operations of the
// counterexample through the public API while the n-th call of the witnessed kind fails with EIO, then the
// property itself: every key of the live index readable, every key other than those of the failed operation
// holds exactly its content, the failed operation's keys hold the old or the new value; the store reopens and
// the same is true there.
#[cfg(test)]
#[test]
fn replay_faultplan() {
    let v = rv::load();
    let ints = |n: &str| -> Vec<i64> { v[n].as_array().map(|a| a.iter().map(|x| x.as_i64().unwrap_or(0)).collect()).unwrap_or_default() };
    let bools = |n: &str| -> Vec<bool> { v[n].as_array().map(|a| a.iter().map(|x| x.as_bool().unwrap_or(false)).collect()).unwrap_or_default() };
    let keys = ints("keys");
    let hashes = ints("hashes");
    let pk = bools("pk");
    let hk = ints("hk");
    let orphans = bools("orphans");
    let kinds: Vec<String> = v["kinds"].as_array().unwrap().iter().map(|x| x.as_str().unwrap().to_string()).collect();
    let fkind = v["fault_kind"].as_str().unwrap_or("").to_string();
    let fnth = v["fault_nth"].as_u64().unwrap_or(0) as usize;
    let n_wal = v["num_ops_per_wal"].as_u64().unwrap_or(10_000);

    let dir = tempfile::tempdir().unwrap();
    let cfg = || Config { num_ops_per_wal: NonZeroU64::new(n_wal).unwrap(), scan_orphans_on_startup: false, ..Default::default() };
    let cas: Cas<String> = Cas::open(dir.path(), cfg()).unwrap();
    *DBROOT.lock().unwrap() = cas.paths.db_root_path().to_string_lossy().as_bytes().to_vec();
    let mut model: std::collections::BTreeMap<String, i64> = std::collections::BTreeMap::new();
    for i in 0..keys.len() {
        if pk[i] {
            let mut tx = cas.put(keyname(keys[i])).unwrap();
            tx.write(&content(hk[i])).unwrap();
            tx.finish().unwrap();
            model.insert(keyname(keys[i]), hk[i]);
        }
    }
    for (j, h) in hashes.iter().enumerate() {
        if orphans.get(j).copied().unwrap_or(false) {
            let c = content(*h);
            let p = cas.paths.cas_file_path(&calculate_blob_hash(&c));
            if !p.exists() {
                std::fs::create_dir_all(p.parent().unwrap()).unwrap();
                std::fs::write(&p, &c).unwrap();
            }
        }
    }
    *FAULT.lock().unwrap() = Some(FaultPlan { active: true, kind: fkind.clone(), nth: fnth, seen: 0, fired: false, log: Vec::new() });
    FAULT_ON.store(1, Ordering::SeqCst);
    // the window: the operations, one after the other
    let mut uncertain: std::collections::BTreeMap<String, Vec<Option<i64>>> = std::collections::BTreeMap::new();
    let mut results = Vec::new();
    for (t, kind) in kinds.iter().enumerate() {
        let key = keyname(v[format!("t{t}_key")].as_i64().unwrap_or(0));
        let h = v[format!("t{t}_hash")].as_i64().unwrap_or(0);
        let fired_before = FAULT.lock().unwrap().as_ref().map(|p| p.fired).unwrap_or(false);
        let (okr, newval): (bool, Option<i64>) = match kind.as_str() {
            "put" => {
                let okp = match cas.put(key.clone()) {
                    Ok(mut tx) => tx.write(&content(h)).is_ok() && tx.finish().is_ok(),
                    Err(_) => false,
                };
                (okp, Some(h))
            }
            "remove" => (cas.remove(&key).is_ok(), None),
            _ => (true, model.get(&key).copied()),
        };
        let fired_now = FAULT.lock().unwrap().as_ref().map(|p| p.fired).unwrap_or(false);
        results.push(if okr { "ok" } else { "err" });
        if okr && !(fired_now && !fired_before) {
            match newval { Some(x) => { model.insert(key.clone(), x); } None => { model.remove(&key); } }
            uncertain.remove(&key);
        } else {
            // the operation that met the fault (or failed): its key holds the old or the new value
            let old = model.get(&key).copied();
            uncertain.insert(key.clone(), vec![old, newval]);
            if okr { match newval { Some(x) => { model.insert(key.clone(), x); } None => { model.remove(&key); } } }
        }
    }
    FAULT_ON.store(0, Ordering::SeqCst);
    let plan = FAULT.lock().unwrap().take().unwrap();
    println!("GATED-REPLAY: fault plan `{}` #{}: fired={} results={:?} calls seen in the window: {}", fkind, fnth, plan.fired, results, plan.log.join(" "));
    if !plan.fired {
        println!("GATED-REPLAY: diverged: the real code never made call #{fnth} of kind `{fkind}` inside the window");
        return;
    }
    let check = |cas: &Cas<String>, what: &str| -> Vec<String> {
        let mut bad = Vec::new();
        let ks: Vec<String> = { let st = cas.read_index_state(); st.iter().map(|(k, _)| k.clone()).collect() };
        let mut got: std::collections::BTreeMap<String, Vec<u8>> = std::collections::BTreeMap::new();
        for k in ks {
            match cas.get(&k) {
                Ok(Some(b)) => { got.insert(k, b.to_vec()); }
                Ok(None) => {}
                Err(e) => bad.push(format!("{what}: key {k:?} is in the index but cannot be read: {e}")),
            }
        }
        let mut all: std::collections::BTreeSet<String> = model.keys().cloned().collect();
        all.extend(got.keys().cloned());
        all.extend(uncertain.keys().cloned());
        for k in all {
            let have = got.get(&k).cloned();
            if let Some(opts) = uncertain.get(&k) {
                if !opts.iter().any(|o| o.map(content) == have) && !bad.iter().any(|b| b.contains(&format!("{k:?}"))) {
                    bad.push(format!("{what}: key {k:?} of the failed operation holds neither its old nor its new value"));
                }
            } else if model.get(&k).map(|h| content(*h)) != have && !bad.iter().any(|b| b.contains(&format!("{k:?}"))) {
                bad.push(format!("{what}: key {k:?}, not touched by the failed operation, changed"));
            }
        }
        bad
    };
    let mut failures = check(&cas, "live store after the fault");
    drop(cas);
    // the log itself, read with an independent reader of the documented format (44-byte header: version u64 LE, checksum,
    // length u32 LE; version 0 = end marker): record versions strictly increase along the log - none is used twice
    {
        let mut segs: Vec<(u64, std::path::PathBuf)> = std::fs::read_dir(dir.path()).unwrap().flatten()
            .filter_map(|e| { let n = e.file_name().to_string_lossy().to_string();
                              n.strip_suffix("_index.wal").and_then(|x| x.parse::<u64>().ok()).map(|id| (id, e.path())) }).collect();
        segs.sort();
        let mut versions: Vec<u64> = Vec::new();
        for (_, p) in segs {
            let b = std::fs::read(&p).unwrap();
            let mut off = 0usize;
            while off + 44 <= b.len() {
                let ver = u64::from_le_bytes(b[off..off + 8].try_into().unwrap());
                if ver == 0 { break; }
                let len = u32::from_le_bytes(b[off + 40..off + 44].try_into().unwrap()) as usize;
                if off + 44 + len > b.len() { break; }
                versions.push(ver);
                off += 44 + len;
            }
        }
        if versions.windows(2).any(|w| w[0] >= w[1]) {
            failures.push(format!("record versions in the log are not strictly increasing (a version is used twice): {versions:?}"));
        }
    }
    match Cas::<String>::open(dir.path(), cfg()) {
        Ok(cas2) => failures.extend(check(&cas2, "after reopening")),
        Err(e) => failures.push(format!("the store does not reopen after the contained fault: {e}")),
    }
    for f in &failures { println!("GATED-REPLAY: {f}"); }
    assert!(failures.is_empty(), "{}", failures.join("; "));
}


// Lock probe for the orphan clean-up entry points (C04 / C08 discipline "a blob leaves cas/ only while the pending_intents
// lock is held"): delete_orphans, quarantine_orphans and delete_orphan run on planted orphans; at every unlink / rename of a
// file under cas/ the interposed libc symbol asks the intents mutex whether it is locked at that very moment.
#[cfg(test)]
#[test]
fn replay_orphan_unlink_probe() {
    let dir = tempfile::tempdir().unwrap();
    let cfg = Config { num_ops_per_wal: NonZeroU64::new(10_000).unwrap(), scan_orphans_on_startup: false, ..Default::default() };
    let cas: Cas<String> = Cas::open(dir.path().join("db"), cfg).unwrap();
    let plant = |tag: &str| -> BlobHash {
        let c = format!("orphan-content-{tag}").into_bytes();
        let h = calculate_blob_hash(&c);
        let p = cas.paths.cas_file_path(&h);
        std::fs::create_dir_all(p.parent().unwrap()).unwrap();
        std::fs::write(&p, &c).unwrap();
        h
    };
    ADDR_INTENTS.store(unsafe { cas.index.pending_intents.raw() } as *const _ as usize, Ordering::SeqCst);
    {
        let mut r = ROOTS.lock().unwrap();
        r.0 = cas.paths.cas_root_path().to_string_lossy().as_bytes().to_vec();
        r.1 = cas.paths.staging_root_path().to_string_lossy().as_bytes().to_vec();
    }
    let scan = || Arc::new(crate::orphan::scan_orphans(cas.as_arc(), cas.as_arc().clone(), false).unwrap());
    let mut report = Vec::new();
    let mut run = |name: &str, f: &dyn Fn()| {
        PROBE_CALLS.store(0, Ordering::SeqCst);
        PROBE_UNLOCKED.store(0, Ordering::SeqCst);
        ROLE.with(|r| r.set(Some(0)));
        PROBE_ON.store(1, Ordering::SeqCst);
        f();
        PROBE_ON.store(0, Ordering::SeqCst);
        ROLE.with(|r| r.set(None));
        let (n, bad) = (PROBE_CALLS.load(Ordering::SeqCst), PROBE_UNLOCKED.load(Ordering::SeqCst));
        println!("GATED-REPLAY: {name}: {n} blob(s) left cas/, {bad} of them while pending_intents was NOT locked");
        if n == 0 { report.push(format!("{name}: the probe saw no blob leave cas/ (probe did not run)")); }
        if bad > 0 { report.push(format!("{name}: {bad} blob(s) left cas/ while the pending_intents lock was not held")); }
    };
    plant("a"); plant("b");
    let s1 = scan();
    run("delete_orphans", &|| { let _ = s1.delete_orphans(); });
    plant("c"); plant("d");
    let s2 = scan();
    let q = dir.path().join("quarantine");
    run("quarantine_orphans", &|| { let _ = s2.quarantine_orphans(&q); });
    let h = plant("e");
    let s3 = scan();
    run("delete_orphan", &|| { let _ = s3.delete_orphan(&h); });
    assert!(report.is_empty(), "{}", report.join("; "));
}
