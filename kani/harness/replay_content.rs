// Native confirmation for C18 counterexamples (child of the crate root): for many contents and
// chunkings (incl. empty chunks and chunks larger than the internal buffers) the committed hash is
// BLAKE3 of the whole content, the recorded size its length, the file sits at the hash's path.
use crate::*;
use std::num::NonZeroU64;

#[cfg(test)]
#[test]
fn replay_content_identity() {
    let v = rv::load();
    let mut lens: Vec<usize> = v["chunk_lens"].as_array().map(|a| a.iter().map(|x| x.as_u64().unwrap_or(0) as usize).collect()).unwrap_or_default();
    for l in lens.iter_mut() {
        if *l > 400_000 { *l = 65_536 + (*l % 65_536).max(1); }
    }
    let mut plans: Vec<Vec<usize>> = vec![lens, vec![0, 5, 0], vec![70_000], vec![65_536, 1], vec![65_537], vec![8192, 8192, 1], vec![200_001]];
    plans.retain(|p| !p.is_empty());
    let dir = tempfile::tempdir().unwrap();
    let cfg = Config { num_ops_per_wal: NonZeroU64::new(3).unwrap(), scan_orphans_on_startup: false, ..Default::default() };
    let cas: Cas<String> = Cas::open(dir.path(), cfg).unwrap();
    let abandon = v["abandon_first"].as_bool().unwrap_or(false);
    for (n, plan) in plans.iter().enumerate() {
        if abandon {
            // a transaction on the same store is written to and dropped without finish (several sizes: below and above
            // typical buffer sizes); nothing of it may reach the transaction that follows
            for junk in [7usize, 3000, 70_000] {
                let mut t0 = cas.put(format!("abandoned{n}-{junk}")).unwrap();
                t0.write(&vec![0xEEu8; junk]).unwrap();
                drop(t0);
            }
        }
        let total: usize = plan.iter().sum();
        let content: Vec<u8> = (0..total).map(|i| (i as u8).wrapping_mul(31).wrapping_add(n as u8)).collect();
        let key = format!("k{n}");
        // the counterexample's start state: the operation's key may already hold OTHER content of another length
        let pre_present = (|| {
            let keys = v["keys"].as_array()?;
            let pk = v["pk"].as_array()?;
            let k = v["op_key"].as_i64()?;
            let i = keys.iter().position(|x| x.as_i64() == Some(k))?;
            pk.get(i)?.as_bool()
        })().unwrap_or(false);
        if pre_present {
            let mut t0 = cas.put(key.clone()).unwrap();
            t0.write(&vec![0xABu8; 37 + n]).unwrap();
            t0.finish().unwrap();
        }
        let mut tx = cas.put(key.clone()).unwrap();
        let mut off = 0;
        for l in plan {
            tx.write(&content[off..off + l]).unwrap();
            off += l;
        }
        tx.finish().unwrap();
        let want = calculate_blob_hash(&content);
        let item = cas.read_index_state().get_item(&key).unwrap();
        assert_eq!(item.blob_hash, want, "chunking {plan:?}: committed hash is not BLAKE3 of the content");
        assert_eq!(item.blob_size as usize, total, "chunking {plan:?}: recorded size");
        let p = cas.paths.cas_file_path(&want);
        assert_eq!(std::fs::read(&p).unwrap_or_default(), content, "chunking {plan:?}: file at the hash's path does not hold the content");
        assert_eq!(cas.get(&key).unwrap().unwrap().as_ref(), &content[..]);
    }
}
