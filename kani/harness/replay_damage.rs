// Native confirmation for C10 counterexamples (child of the crate root): real multi-segment logs with
// no snapshot are produced with the crate's own WalManager, one byte of one record's checksum/payload
// is altered (or the log is cut), and the store is opened: it must fail or show exactly the longest
// undamaged prefix.
use crate::*;
use crate::types::WalOp;
use std::num::NonZeroU64;

#[cfg(test)]
fn build(dir: &std::path::Path, n_ops: usize, n: u64) -> Vec<(String, Vec<u8>)> {
    let paths = crate::paths::DbPaths::new(dir.to_path_buf());
    std::fs::create_dir_all(dir.join("cas")).unwrap();
    std::fs::create_dir_all(dir.join("staging")).unwrap();
    let mut wm = crate::wal::WalManager::new(paths.clone(), NonZeroU64::new(n).unwrap()).unwrap();
    let mut kv = Vec::new();
    for i in 0..n_ops {
        let key = format!("k{i}");
        let content = format!("content-{i}").into_bytes();
        let hash = calculate_blob_hash(&content);
        let p = paths.cas_file_path(&hash);
        std::fs::create_dir_all(p.parent().unwrap()).unwrap();
        std::fs::write(&p, &content).unwrap();
        let op: WalOp<String> = WalOp::Put { key: key.clone(), hash, size: content.len() as u64 };
        let bytes = crate::serialization::serialize_wal_op_raw(&op.to_raw()).unwrap();
        wm.append_op(&bytes).unwrap();
        kv.push((key, content));
    }
    drop(wm);
    kv
}

#[cfg(test)]
fn check_open(dir: &std::path::Path, n: u64, kv: &[(String, Vec<u8>)], what: &str) {
    let cfg = Config { num_ops_per_wal: NonZeroU64::new(n).unwrap(), scan_orphans_on_startup: false, ..Default::default() };
    match Cas::<String>::open(dir, cfg) {
        Err(_) => {}
        Ok(cas) => {
            // accepted: must be an exact prefix of the logged operations
            let present: Vec<bool> = kv.iter().map(|(k, _)| cas.get(k).ok().flatten().is_some()).collect();
            let first_missing = present.iter().position(|p| !p).unwrap_or(present.len());
            assert!(present[first_missing..].iter().all(|p| !p),
                "{what}: the opened store has a hole in the history: present = {present:?}");
            for (i, (k, v)) in kv.iter().enumerate() {
                if present[i] {
                    assert_eq!(cas.get(k).unwrap().unwrap().as_ref(), &v[..], "{what}: altered value for {k}");
                }
            }
            assert!(first_missing < kv.len(), "{what}: the damaged record was accepted as valid");
        }
    }
}

#[cfg(test)]
fn copy_dir(src: &std::path::Path, dst: &std::path::Path) {
    std::fs::create_dir_all(dst).unwrap();
    for e in std::fs::read_dir(src).unwrap().flatten() {
        let p = e.path();
        let d = dst.join(e.file_name());
        if p.is_dir() { copy_dir(&p, &d); } else { std::fs::copy(&p, &d).unwrap(); }
    }
}

#[cfg(test)]
#[test]
fn replay_damaged_log() {
    for (n_ops, n) in [(3usize, 2u64), (4, 2), (3, 1), (3, 5)] {
        let base = tempfile::tempdir().unwrap();
        let kv = build(base.path(), n_ops, n);
        // every WAL file, every record, a few byte positions in checksum and payload + cuts
        let mut wals: Vec<std::path::PathBuf> = std::fs::read_dir(base.path()).unwrap().flatten().map(|e| e.path())
            .filter(|p| p.to_string_lossy().ends_with("_index.wal")).collect();
        wals.sort();
        for w in &wals {
            let data = std::fs::read(w).unwrap();
            let mut off = 0usize;
            while off + 44 <= data.len() {
                let ver = u64::from_le_bytes(data[off..off + 8].try_into().unwrap());
                if ver == 0 { break; }
                let len = u32::from_le_bytes(data[off + 40..off + 44].try_into().unwrap()) as usize;
                for pos in [off + 8, off + 23, off + 39, off + 44, off + 44 + len / 2, off + 44 + len - 1] {
                    let work = tempfile::tempdir().unwrap();
                    copy_dir(base.path(), work.path());
                    let mut d = data.clone();
                    d[pos] ^= 0x41;
                    std::fs::write(work.path().join(w.file_name().unwrap()), &d).unwrap();
                    check_open(work.path(), n, &kv, &format!("ops={n_ops} N={n} {:?} record v{ver} byte {pos} flipped", w.file_name().unwrap()));
                }
                off += 44 + len;
            }
            // cuts of the LAST segment at a few offsets
            if w == wals.last().unwrap() {
                for cut in [1usize, 20, 43, 44, 45, data.len().saturating_sub(1)] {
                    if cut >= data.len() { continue; }
                    let work = tempfile::tempdir().unwrap();
                    copy_dir(base.path(), work.path());
                    std::fs::write(work.path().join(w.file_name().unwrap()), &data[..cut]).unwrap();
                    check_open(work.path(), n, &kv, &format!("ops={n_ops} N={n} last segment cut at {cut}"));
                }
            }
        }
    }
    // EXHAUSTIVE single-byte sweep of one record (every checksum and payload byte, every other value): a reader whose
    // checksum comparison is weaker than a full comparison (a fold, a prefix) accepts some of them
    {
        let (n_ops, n) = (3usize, 5u64);
        let base = tempfile::tempdir().unwrap();
        let kv = build(base.path(), n_ops, n);
        let wal = base.path().join("0_index.wal");
        let data = std::fs::read(&wal).unwrap();
        // locate the last record
        let mut off = 0usize;
        let mut last = (0usize, 0usize);
        while off + 44 <= data.len() {
            let ver = u64::from_le_bytes(data[off..off + 8].try_into().unwrap());
            if ver == 0 { break; }
            let len = u32::from_le_bytes(data[off + 40..off + 44].try_into().unwrap()) as usize;
            last = (off, len);
            off += 44 + len;
        }
        let (roff, rlen) = last;
        let work = tempfile::tempdir().unwrap();
        copy_dir(base.path(), work.path());
        let mut accepted = Vec::new();
        let positions: Vec<usize> = (roff + 8..roff + 40).chain(roff + 44..roff + 44 + rlen).collect();
        for pos in positions {
            for nv in 0..=255u8 {
                if nv == data[pos] { continue; }
                let mut d = data.clone();
                d[pos] = nv;
                std::fs::write(work.path().join("0_index.wal"), &d).unwrap();
                for f in ["index", "index.tmp"] { let _ = std::fs::remove_file(work.path().join(f)); }
                let cfg = Config { num_ops_per_wal: NonZeroU64::new(n).unwrap(), scan_orphans_on_startup: false, ..Default::default() };
                if let Ok(cas) = Cas::<String>::open(work.path(), cfg) {
                    // accepted: only an exact prefix WITHOUT the damaged (last) record is legitimate
                    let (k, v) = &kv[n_ops - 1];
                    let got = cas.get(k).ok().flatten();
                    let n_keys = cas.read_index_state().len();
                    if got.is_some() || n_keys != n_ops - 1 {
                        accepted.push(format!("byte {} -> {:#04x} ({} keys, last key {})", pos - roff, nv, n_keys,
                                              if got.as_deref() == Some(&v[..]) { "unchanged" } else if got.is_some() { "altered" } else { "absent" }));
                    }
                }
            }
        }
        assert!(accepted.is_empty(), "{} single-byte damages of the last record were accepted by the reader, e.g. {}", accepted.len(), accepted[0]);
    }
}

