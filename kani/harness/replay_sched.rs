// Native replay of an interleaving counterexample (child of the crate root).
// The solver-side schedule is a sequence of lock-atomic blocks of real operations.  Here the same
// blocks are executed SEQUENTIALLY in the scheduled order through the crate's own functions (each
// block runs under the lock that makes it atomic, so running them one after the other is the same
// execution):  put = register_intent | commit_blob | IntentGuard::commit ;  get = index lookup |
// blob read ;  remove / orphan clean-up = one block.  Steps that the schedule places inside a put's
// apply block (after its index update, before its unlink) run from the delete callback.
use crate::index::IntentMeta;
use crate::*;
use std::cell::RefCell;
use std::collections::BTreeMap;
use std::num::NonZeroU64;

#[cfg(test)]
fn content(id: i64) -> Vec<u8> {
    format!("content-of-hash-{id}").into_bytes()
}
#[cfg(test)]
fn keyname(id: i64) -> String {
    format!("key{id}")
}

#[cfg(test)]
#[test]
fn replay_schedule() {
    let v = rv::load();
    let ints = |n: &str| -> Vec<i64> { v[n].as_array().map(|a| a.iter().map(|x| x.as_i64().unwrap_or(0)).collect()).unwrap_or_default() };
    let bools = |n: &str| -> Vec<bool> { v[n].as_array().map(|a| a.iter().map(|x| x.as_bool().unwrap_or(false)).collect()).unwrap_or_default() };
    let keys = ints("keys");
    let hashes = ints("hashes");
    let pk = bools("pk");
    let hk = ints("hk");
    let orphans = bools("orphans");
    let kinds: Vec<String> = v["kinds"].as_array().unwrap().iter().map(|x| x.as_str().unwrap().to_string()).collect();
    let steps: Vec<String> = v["steps"].as_array().unwrap().iter().map(|x| x.as_str().unwrap().to_string()).collect();

    let dir = tempfile::tempdir().unwrap();
    let cfg = Config { num_ops_per_wal: NonZeroU64::new(10_000).unwrap(), scan_orphans_on_startup: false, ..Default::default() };
    let cas: Cas<String> = Cas::open(dir.path(), cfg).unwrap();
    // initial state
    for i in 0..keys.len() {
        if pk[i] {
            let mut tx = cas.put(keyname(keys[i])).unwrap();
            tx.write(&content(hk[i])).unwrap();
            tx.finish().unwrap();
        }
    }
    for (j, h) in hashes.iter().enumerate() {
        if orphans.get(j).copied().unwrap_or(false) {
            let c = content(*h);
            let p = cas.paths.cas_file_path(&calculate_blob_hash(&c));
            if !p.exists() {
                std::fs::create_dir_all(p.parent().unwrap()).unwrap();
                std::fs::write(&p, &c).unwrap();
            }
        }
    }
    let tkey = |t: usize| keyname(v[format!("t{t}_key")].as_i64().unwrap_or(0));
    let thash = |t: usize| v[format!("t{t}_hash")].as_i64().unwrap_or(0);

    // per-thread native state
    let mut staged: BTreeMap<usize, tempfile::NamedTempFile> = BTreeMap::new();
    let mut guards: BTreeMap<usize, crate::index::IntentGuard<'_, String>> = BTreeMap::new();
    let looked_up: RefCell<BTreeMap<usize, Option<IndexStateItem>>> = RefCell::new(BTreeMap::new());
    let failures: RefCell<Vec<String>> = RefCell::new(Vec::new());

    // translate the solver trace into native atoms (first marker of each block)
    #[derive(Clone, Debug, PartialEq)]
    enum Atom { Reg(usize), Blob(usize), Apply(usize), Lookup(usize), Open(usize), Whole(usize) }
    let mut atoms: Vec<Atom> = Vec::new();
    let mut unlink_pos: BTreeMap<usize, usize> = BTreeMap::new(); // thread -> index in atoms where its apply unlinks
    let mut applying: BTreeMap<usize, bool> = BTreeMap::new();
    for s in &steps {
        let mut it = s.split(':');
        let t: usize = it.next().unwrap()[1..].parse().unwrap();
        let what: Vec<&str> = it.collect();
        let kind = kinds[t].as_str();
        match (kind, what.as_slice()) {
            ("put", ["intent-insert"]) => atoms.push(Atom::Reg(t)),
            ("put", ["rename", _, "staging"]) => atoms.push(Atom::Blob(t)),
            ("put", ["acq", "state-write"]) => { if !applying.get(&t).copied().unwrap_or(false) { applying.insert(t, true); atoms.push(Atom::Apply(t)); } }
            ("put", ["unlink", _, "cas"]) | ("put", ["done"]) => { unlink_pos.entry(t).or_insert(atoms.len()); }
            ("get", ["acq", "state-read"]) => atoms.push(Atom::Lookup(t)),
            ("get", ["read", _, "cas"]) | ("get", ["open", _, "cas"]) => atoms.push(Atom::Open(t)),
            ("remove", ["acq", "state-write"]) => atoms.push(Atom::Whole(t)),
            ("delete_orphan", ["acq", "pending_intents"]) => atoms.push(Atom::Whole(t)),
            _ => {}
        }
    }
    // run a reader/one-block atom
    let run_simple = |a: &Atom| {
        match a {
            Atom::Lookup(t) => {
                let it = cas.index.read_state().get_item(&tkey(*t));
                looked_up.borrow_mut().insert(*t, it);
            }
            Atom::Open(t) => {
                if let Some(Some(item)) = looked_up.borrow().get(t).cloned() {
                    if let Err(e) = cas.cas_manager.read_blob(&item.blob_hash) {
                        failures.borrow_mut().push(format!("T{t} get({}): key was present at its lookup but the read failed: {e}", tkey(*t)));
                    }
                }
            }
            Atom::Whole(t) => {
                if kinds[*t] == "remove" {
                    let _ = cas.remove(&tkey(*t));
                } else {
                    let h = calculate_blob_hash(&content(thash(*t)));
                    if let Ok(stats) = crate::orphan::scan_orphans(cas.as_arc(), cas.as_arc().clone(), false) {
                        let _ = stats.delete_orphan(&h);
                    }
                }
            }
            _ => {}
        }
    };
    let mut i = 0;
    while i < atoms.len() {
        match atoms[i].clone() {
            Atom::Reg(t) => {
                let c = content(thash(t));
                let mut f = tempfile::NamedTempFile::new_in(cas.paths.staging_root_path()).unwrap();
                std::io::Write::write_all(&mut f, &c).unwrap();
                staged.insert(t, f);
                let g = cas.index.register_intent(tkey(t), IntentMeta { blob_hash: calculate_blob_hash(&c), blob_size: c.len() as u64 }).unwrap();
                guards.insert(t, g);
            }
            Atom::Blob(t) => {
                let c = content(thash(t));
                cas.cas_manager.commit_blob(staged[&t].path(), &calculate_blob_hash(&c)).unwrap();
            }
            Atom::Apply(t) => {
                // atoms scheduled inside this apply block (before its unlink) run from the callback
                let end = unlink_pos.get(&t).copied().unwrap_or(i + 1).max(i + 1);
                let inner: Vec<Atom> = atoms[i + 1..end.min(atoms.len())].iter()
                    .filter(|a| matches!(a, Atom::Lookup(_) | Atom::Open(_))).cloned().collect();
                let ran_inner = RefCell::new(false);
                let delete_fn = |hs: &[BlobHash]| -> Result<(), crate::cas_manager::CasManagerError> {
                    *ran_inner.borrow_mut() = true;
                    for a in &inner {
                        run_simple(a);
                    }
                    cas.cas_manager.delete_blobs(hs)
                };
                let g = guards.remove(&t).unwrap();
                let _ = g.commit(&delete_fn);
                if !*ran_inner.borrow() {
                    for a in &inner {
                        run_simple(a);
                    }
                }
                // skip the inner atoms in the main sequence
                let skip: Vec<usize> = (i + 1..end.min(atoms.len())).filter(|j| matches!(atoms[*j], Atom::Lookup(_) | Atom::Open(_))).collect();
                for j in skip.into_iter().rev() {
                    atoms.remove(j);
                }
            }
            a => run_simple(&a),
        }
        i += 1;
    }
    drop(guards);
    // the instant invariant, at the end of the schedule: every key in the index has its blob
    let st = cas.read_index_state();
    for (k, item) in st.iter() {
        let p = cas.paths.cas_file_path(&item.blob_hash);
        assert!(p.exists(), "key {k:?} is visible in the index but its blob {} does not exist (dangling reference)", item.blob_hash);
    }
    drop(st);
    let f = failures.borrow();
    assert!(f.is_empty(), "{}", f.join("; "));
}
