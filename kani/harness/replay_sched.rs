// Native replay of an interleaving counterexample (child of the crate root).
// The solver-side schedule is a sequence of lock-atomic blocks of real operations.  Here the same
// blocks are executed SEQUENTIALLY in the scheduled order through the crate's own functions (each
// block runs under the lock that makes it atomic, so running them one after the other is the same
// execution):  put = register_intent | commit_blob | IntentGuard::commit ;  get = index lookup |
// blob read ;  remove = lookup + apply_remove_op ;  orphan clean-up = one block.
// Blocks that the schedule places INSIDE another thread's apply (after its index update, before its
// unlink) run from that apply's delete callback, i.e. exactly at that point of the real execution.
// Before a nested block runs, the locks it needs are probed with try_lock: if the real code still
// holds one of them there, the schedule is not realisable on the real code and the replay passes
// (the solver-side model disagrees with the code -> the caller reports INCONCLUSIVE, never a violation).
use crate::index::IntentMeta;
use crate::*;
use std::cell::{Cell, RefCell};
use std::collections::BTreeMap;
use std::num::NonZeroU64;

#[cfg(test)]
fn content(id: i64) -> Vec<u8> {
    format!("content-of-hash-{id}").into_bytes()
}
#[cfg(test)]
fn keyname(id: i64) -> String {
    format!("key{id}")
}

#[cfg(test)]
#[derive(Clone, Debug, PartialEq)]
enum Atom {
    Reg(usize),
    Blob(usize),
    Apply(usize),
    Lookup(usize),
    Open(usize),
    Remove(usize),
    Orphan(usize),
}

#[cfg(test)]
struct Ctx<'a> {
    cas: &'a Cas<String>,
    v: serde_json::Value,
    atoms: Vec<Atom>,
    done: RefCell<Vec<bool>>,
    unlink_pos: BTreeMap<usize, usize>,
    staged: RefCell<BTreeMap<usize, tempfile::NamedTempFile>>,
    guards: RefCell<BTreeMap<usize, crate::index::IntentGuard<'a, String>>>,
    looked_up: RefCell<BTreeMap<usize, Option<IndexStateItem>>>,
    failures: RefCell<Vec<String>>,
    unrealisable: Cell<bool>,
    depth: Cell<usize>,
}

#[cfg(test)]
impl<'a> Ctx<'a> {
    fn tkey(&self, t: usize) -> String {
        keyname(self.v[format!("t{t}_key")].as_i64().unwrap_or(0))
    }
    fn thash(&self, t: usize) -> i64 {
        self.v[format!("t{t}_hash")].as_i64().unwrap_or(0)
    }
    fn intents_free(&self) -> bool {
        self.cas.index.pending_intents.try_lock().is_some()
    }
    fn state_free_for_write(&self) -> bool {
        self.cas.index.state.try_write().is_some()
    }
    fn state_free_for_read(&self) -> bool {
        self.cas.index.state.try_read().is_some()
    }
    /// run the nested blocks scheduled inside thread t's apply (positions i+1 .. its unlink)
    fn run_inner(&self, i: usize, t: usize) {
        let end = self.unlink_pos.get(&t).copied().unwrap_or(i + 1).max(i + 1).min(self.atoms.len());
        for j in i + 1..end {
            if !self.done.borrow()[j] {
                self.run(j);
            }
        }
    }
    fn run(&self, i: usize) {
        if self.done.borrow()[i] || self.unrealisable.get() {
            return;
        }
        self.done.borrow_mut()[i] = true;
        let nested = self.depth.get() > 0;
        let cas = self.cas;
        match self.atoms[i].clone() {
            Atom::Reg(t) => {
                if nested && !self.intents_free() {
                    self.unrealisable.set(true);
                    return;
                }
                let c = content(self.thash(t));
                let mut f = tempfile::NamedTempFile::new_in(cas.paths.staging_root_path()).unwrap();
                std::io::Write::write_all(&mut f, &c).unwrap();
                self.staged.borrow_mut().insert(t, f);
                let g = cas.index.register_intent(self.tkey(t), IntentMeta { blob_hash: calculate_blob_hash(&c), blob_size: c.len() as u64 }).unwrap();
                self.guards.borrow_mut().insert(t, g);
            }
            Atom::Blob(t) => {
                let c = content(self.thash(t));
                let p = self.staged.borrow()[&t].path().to_path_buf();
                cas.cas_manager.commit_blob(&p, &calculate_blob_hash(&c)).unwrap();
            }
            Atom::Apply(t) => {
                if nested && !(self.intents_free() && self.state_free_for_write()) {
                    self.unrealisable.set(true);
                    return;
                }
                let ran = Cell::new(false);
                let delete_fn = |hs: &[BlobHash]| -> Result<(), crate::cas_manager::CasManagerError> {
                    ran.set(true);
                    self.depth.set(self.depth.get() + 1);
                    self.run_inner(i, t);
                    self.depth.set(self.depth.get() - 1);
                    cas.cas_manager.delete_blobs(hs)
                };
                let g = self.guards.borrow_mut().remove(&t);
                if let Some(g) = g {
                    let _ = g.commit(&delete_fn);
                }
                let _ = ran;
            }
            Atom::Lookup(t) => {
                if nested && !self.state_free_for_read() {
                    self.unrealisable.set(true);
                    return;
                }
                let it = cas.index.read_state().get_item(&self.tkey(t));
                self.looked_up.borrow_mut().insert(t, it);
            }
            Atom::Open(t) => {
                if let Some(Some(item)) = self.looked_up.borrow().get(&t).cloned() {
                    if let Err(e) = cas.cas_manager.read_blob(&item.blob_hash) {
                        self.failures.borrow_mut().push(format!("T{t} get({}): key was present at its lookup but the read failed: {e}", self.tkey(t)));
                    }
                }
            }
            Atom::Remove(t) => {
                if nested && !(self.intents_free() && self.state_free_for_write()) {
                    self.unrealisable.set(true);
                    return;
                }
                let key = self.tkey(t);
                if cas.index.read_state().contains_key(&key) {
                    let delete_fn = |hs: &[BlobHash]| -> Result<(), crate::cas_manager::CasManagerError> {
                        self.depth.set(self.depth.get() + 1);
                        self.run_inner(i, t);
                        self.depth.set(self.depth.get() - 1);
                        cas.cas_manager.delete_blobs(hs).map(|_| ())
                    };
                    let _ = cas.index.apply_remove_op(vec![key], &delete_fn);
                }
            }
            Atom::Orphan(t) => {
                if nested && !(self.intents_free() && self.state_free_for_read()) {
                    self.unrealisable.set(true);
                    return;
                }
                let h = calculate_blob_hash(&content(self.thash(t)));
                if let Ok(stats) = crate::orphan::scan_orphans(cas.as_arc(), cas.as_arc().clone(), false) {
                    let _ = stats.delete_orphan(&h);
                }
            }
        }
    }
}

#[cfg(test)]
#[test]
fn replay_schedule() {
    let v = rv::load();
    let ints = |n: &str| -> Vec<i64> { v[n].as_array().map(|a| a.iter().map(|x| x.as_i64().unwrap_or(0)).collect()).unwrap_or_default() };
    let bools = |n: &str| -> Vec<bool> { v[n].as_array().map(|a| a.iter().map(|x| x.as_bool().unwrap_or(false)).collect()).unwrap_or_default() };
    let keys = ints("keys");
    let hashes = ints("hashes");
    let pk = bools("pk");
    let hk = ints("hk");
    let orphans = bools("orphans");
    let kinds: Vec<String> = v["kinds"].as_array().unwrap().iter().map(|x| x.as_str().unwrap().to_string()).collect();
    let steps: Vec<String> = v["steps"].as_array().unwrap().iter().map(|x| x.as_str().unwrap().to_string()).collect();

    let dir = tempfile::tempdir().unwrap();
    let cfg = Config { num_ops_per_wal: NonZeroU64::new(10_000).unwrap(), scan_orphans_on_startup: false, ..Default::default() };
    let cas: Cas<String> = Cas::open(dir.path(), cfg).unwrap();
    // initial state
    for i in 0..keys.len() {
        if pk[i] {
            let mut tx = cas.put(keyname(keys[i])).unwrap();
            tx.write(&content(hk[i])).unwrap();
            tx.finish().unwrap();
        }
    }
    for (j, h) in hashes.iter().enumerate() {
        if orphans.get(j).copied().unwrap_or(false) {
            let c = content(*h);
            let p = cas.paths.cas_file_path(&calculate_blob_hash(&c));
            if !p.exists() {
                std::fs::create_dir_all(p.parent().unwrap()).unwrap();
                std::fs::write(&p, &c).unwrap();
            }
        }
    }

    // translate the solver trace into native atoms (first marker of each block)
    let mut atoms: Vec<Atom> = Vec::new();
    let mut unlink_pos: BTreeMap<usize, usize> = BTreeMap::new(); // thread -> index in atoms where its apply unlinks / ends
    let mut applying: BTreeMap<usize, bool> = BTreeMap::new();
    for s in &steps {
        let mut it = s.split(':');
        let t: usize = it.next().unwrap()[1..].parse().unwrap();
        let what: Vec<&str> = it.collect();
        let kind = kinds[t].as_str();
        match (kind, what.as_slice()) {
            ("put", ["intent-insert"]) => atoms.push(Atom::Reg(t)),
            ("put", ["rename", _, "staging"]) => atoms.push(Atom::Blob(t)),
            ("put", ["acq", "state-write"]) => { if !applying.get(&t).copied().unwrap_or(false) { applying.insert(t, true); atoms.push(Atom::Apply(t)); } }
            ("put", ["unlink", _, "cas"]) | ("put", ["done"]) => { unlink_pos.entry(t).or_insert(atoms.len()); }
            ("get", ["acq", "state-read"]) => atoms.push(Atom::Lookup(t)),
            ("get", ["read", _, "cas"]) | ("get", ["open", _, "cas"]) => atoms.push(Atom::Open(t)),
            ("remove", ["acq", "state-write"]) => { if !applying.get(&t).copied().unwrap_or(false) { applying.insert(t, true); atoms.push(Atom::Remove(t)); } }
            ("remove", ["unlink", _, "cas"]) | ("remove", ["done"]) => { unlink_pos.entry(t).or_insert(atoms.len()); }
            ("delete_orphan", ["acq", "pending_intents"]) => atoms.push(Atom::Orphan(t)),
            _ => {}
        }
    }
    let n = atoms.len();
    let ctx = Ctx { cas: &cas, v: v.clone(), atoms, done: RefCell::new(vec![false; n]), unlink_pos, staged: RefCell::new(BTreeMap::new()),
                    guards: RefCell::new(BTreeMap::new()), looked_up: RefCell::new(BTreeMap::new()), failures: RefCell::new(Vec::new()),
                    unrealisable: Cell::new(false), depth: Cell::new(0) };
    for i in 0..n {
        ctx.run(i);
    }
    ctx.guards.borrow_mut().clear();
    if ctx.unrealisable.get() {
        println!("schedule is not realisable on the real code: a nested block needs a lock the real code still holds at that point");
        return;
    }
    // the instant invariant, at the end of the schedule: every key in the index has its blob
    let st = cas.read_index_state();
    for (k, item) in st.iter() {
        let p = cas.paths.cas_file_path(&item.blob_hash);
        assert!(p.exists(), "key {k:?} is visible in the index but its blob {} does not exist (dangling reference)", item.blob_hash);
    }
    drop(st);
    let f = ctx.failures.borrow();
    assert!(f.is_empty(), "{}", f.join("; "));
}
