// Native confirmation for the byte-structured-log obligations (child of crate::wal): a real log with
// the counterexample's versions, segment ids and record lengths is written with the crate's own
// SegmentWriter, optionally one payload byte of one record is altered or the log is cut inside a record,
// and the REAL WalReplayer::replay runs on it.  Expectation = the obligation's post-condition.
use crate::types::WalOp;
use crate::*;
use std::num::NonZeroU64;

#[cfg(test)]
fn op_with_len(i: usize, want: usize) -> (String, Vec<u8>) {
    let mk = |key: &str| {
        let op: WalOp<String> = WalOp::Put { key: key.to_string(), hash: calculate_blob_hash(key.as_bytes()), size: 1 };
        crate::serialization::serialize_wal_op_raw(&op.to_raw()).unwrap()
    };
    let stem = format!("k{i}");
    let base = mk(&stem).len();
    let pad = want.saturating_sub(base).min(32 << 20);
    let key = format!("{stem}{}", "x".repeat(pad));
    let bytes = mk(&key);
    (key, bytes)
}

#[cfg(test)]
#[test]
fn replay_byte_log() {
    let v = rv::load();
    let vals = &v;
    let ints = |n: &str| -> Vec<u64> { vals[n].as_array().map(|a| a.iter().map(|x| x.as_u64().unwrap_or(0)).collect()).unwrap_or_default() };
    let versions = ints("versions");
    let segments = ints("segments");
    let lengths = ints("lengths");
    let snap = vals["snap_ver"].as_u64().unwrap_or(0);
    let damaged = vals["damaged_record"].as_i64().unwrap_or(-1);
    let cut_rec = vals["cut_record"].as_i64().unwrap_or(-1);
    let cut_where = vals["cut_where"].as_str().unwrap_or("").to_string();
    let n = versions.len();

    let dir = tempfile::tempdir().unwrap();
    let paths = crate::paths::DbPaths::new(dir.path().to_path_buf());
    let storage = super::storage::SegmentStorage::new(paths.clone());
    let mut keys = Vec::new();
    let mut offsets: Vec<(u64, usize, usize)> = Vec::new(); // (segment, offset of record, payload len)
    let mut i = 0;
    while i < n {
        let seg = segments[i];
        let mut w = storage.open_writer(seg).unwrap();
        let mut off = 0usize;
        while i < n && segments[i] == seg {
            let (key, bytes) = op_with_len(i, lengths[i] as usize);
            w.write_entry(NonZeroU64::new(versions[i]).unwrap(), calculate_blob_hash(&bytes), &bytes).unwrap();
            offsets.push((seg, off, bytes.len()));
            off += 44 + bytes.len();
            keys.push(key);
            i += 1;
        }
        w.close().unwrap();
    }
    let seg_path = |seg: u64| paths.wal_path_for_segment(seg);
    if damaged >= 0 {
        let (seg, off, len) = offsets[damaged as usize];
        let mut d = std::fs::read(seg_path(seg)).unwrap();
        d[off + 44 + len / 2] ^= 0x5a;
        std::fs::write(seg_path(seg), &d).unwrap();
    }
    if cut_rec >= 0 {
        let (seg, off, len) = offsets[cut_rec as usize];
        let d = std::fs::read(seg_path(seg)).unwrap();
        let at = if cut_where == "header" { off + 20 } else { off + 44 + len / 2 };
        std::fs::write(seg_path(seg), &d[..at]).unwrap();
    }
    let bad: i64 = if damaged >= 0 { damaged } else { cut_rec };

    let cp = NonZeroU64::new(snap);
    let rep = super::replay::WalReplayer::new(&storage, cp);
    let mut applied: Vec<String> = Vec::new();
    let res = rep.replay::<String>(|op| {
        if let WalOp::Put { key, .. } = op {
            applied.push(key);
        }
    });
    let expect_upto = if bad >= 0 { bad as usize } else { n };
    let expected: Vec<String> = (0..expect_upto).filter(|i| versions[*i] > snap).map(|i| keys[i].clone()).collect();
    let short = |v: &Vec<String>| v.iter().map(|k| k.chars().take(4).collect::<String>()).collect::<Vec<_>>();
    match res {
        Err(e) => assert!(bad >= 0, "replay of an intact log fails: {e}"),
        Ok(hi) => {
            assert_eq!(short(&applied), short(&expected), "replay applied {:?}, the undamaged uncheckpointed records are {:?} (snapshot version {snap}, versions {versions:?}, lengths {lengths:?}, damage at {bad})",
                short(&applied), short(&expected));
            if bad < 0 {
                let want = versions.iter().copied().chain(std::iter::once(snap)).max().unwrap_or(0);
                assert_eq!(hi.map(|h| h.get()).unwrap_or(0), want, "highest version");
            }
        }
    }
}
