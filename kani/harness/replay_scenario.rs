// Native replays for ordering / discipline counterexamples (child of the crate root).
//  * replay_scenario: a deterministic history over the public API; the check runs it under
//    strace and evaluates the SAME trace predicates on the real system-call trace.
//  * replay_unlink_under_intents / replay_intent_before_rename / replay_register_intent:
//    lock-state probes on the real code (try_lock from a callback or a second thread).
use crate::*;
use std::num::NonZeroU64;

#[cfg(test)]
fn cfg2() -> Config {
    Config { num_ops_per_wal: NonZeroU64::new(2).unwrap(), scan_orphans_on_startup: false, ..Default::default() }
}

#[cfg(test)]
fn putv(cas: &Cas<String>, k: &str, v: &[u8]) {
    let mut tx = cas.put(k.to_string()).unwrap();
    for ch in v.chunks(4000) {
        tx.write(ch).unwrap();
    }
    tx.finish().unwrap();
}

#[cfg(test)]
#[test]
fn replay_scenario() {
    let dir = std::env::var("VERIF_DB").expect("VERIF_DB");
    let _ = std::fs::remove_dir_all(&dir);
    let cas: Cas<String> = Cas::open(&dir, cfg2()).unwrap();
    let x = vec![7u8; 9000];
    let y = vec![8u8; 10];
    putv(&cas, "a", &x);
    putv(&cas, "b", &y);
    putv(&cas, "c", &x); // same content under a second key
    putv(&cas, "a", &vec![9u8; 5]); // overwrite: x still referenced by c
    assert!(cas.remove(&"c".to_string()).unwrap()); // last reference to x goes away
    putv(&cas, "d", &vec![1u8; 20000]);
    // a record larger than the WAL BufWriter's capacity (long key)
    let long_key = "L".repeat(9000);
    putv(&cas, &long_key, b"v");
    assert!(cas.remove(&long_key).unwrap());
    let _ = cas.remove_range("b".to_string().."e".to_string()).unwrap();
    cas.checkpoint().unwrap();
    {
        // abandoned transactions, one of them while another on the same key is open
        let mut t1 = cas.put("k".to_string()).unwrap();
        let mut t2 = cas.put("k".to_string()).unwrap();
        t1.write(b"first").unwrap();
        t2.write(b"second").unwrap();
        drop(t2);
        t1.finish().unwrap();
        let mut t3 = cas.put("zz".to_string()).unwrap();
        t3.write(&vec![3u8; 12000]).unwrap();
        drop(t3);
    }
    assert_eq!(cas.get(&"k".to_string()).unwrap().unwrap().as_ref(), b"first");
    drop(cas);
    let cas: Cas<String> = Cas::open(&dir, cfg2()).unwrap();
    putv(&cas, "e", &y);
    drop(cas);
}

#[cfg(test)]
#[test]
fn replay_unlink_under_intents() {
    // the delete callback runs exactly where the real code unlinks blobs: probe the lock there
    let dir = tempfile::tempdir().unwrap();
    let cas: Cas<String> = Cas::open(dir.path(), cfg2()).unwrap();
    putv(&cas, "a", b"old");
    let probe = |hashes: &[BlobHash]| -> Result<(), crate::cas_manager::CasManagerError> {
        assert!(!hashes.is_empty());
        assert!(cas.index.pending_intents.try_lock().is_none(),
            "blobs are unlinked while the pending_intents lock is NOT held");
        Ok(())
    };
    // overwrite: 'old' becomes unreferenced -> callback invoked
    let h = calculate_blob_hash(b"new");
    cas.index.apply_put_op("a".to_string(), h, 3, &probe).unwrap();
    putv(&cas, "b", b"gone");
    cas.index.apply_remove_op(vec!["b".to_string()], &probe).unwrap();
}

#[cfg(test)]
#[test]
fn replay_intent_before_rename() {
    // hold the intents lock: a commit must block BEFORE its blob becomes visible under cas/
    let dir = tempfile::tempdir().unwrap();
    let cas: Cas<String> = Cas::open(dir.path(), cfg2()).unwrap();
    let content = b"protected-by-intent";
    let h = calculate_blob_hash(content);
    let path = cas.paths.cas_file_path(&h);
    let c2 = cas.clone();
    let g = cas.index.pending_intents.lock();
    let t = std::thread::spawn(move || {
        let mut tx = c2.put("k".to_string()).unwrap();
        tx.write(content).unwrap();
        tx.finish().unwrap();
    });
    std::thread::sleep(std::time::Duration::from_millis(700));
    let visible = path.exists();
    drop(g);
    t.join().unwrap();
    assert!(!visible, "the blob is visible under cas/ before the commit registered its intent");
}

#[cfg(test)]
#[test]
fn replay_register_intent() {
    // after register_intent(k, h) the intent must be in the map whatever the index holds
    use crate::index::IntentMeta;
    let dir = tempfile::tempdir().unwrap();
    let cas: Cas<String> = Cas::open(dir.path(), cfg2()).unwrap();
    putv(&cas, "other", b"shared");
    let h = calculate_blob_hash(b"shared");
    let g = cas.index.register_intent("k".to_string(), IntentMeta { blob_hash: h, blob_size: 6 }).unwrap();
    assert_eq!(cas.index.pending_intents.lock().get("k"), Some(&h),
        "register_intent did not record the intent for a hash that is already referenced");
    let h2 = calculate_blob_hash(b"fresh");
    let g2 = cas.index.register_intent("k2".to_string(), IntentMeta { blob_hash: h2, blob_size: 5 }).unwrap();
    assert_eq!(cas.index.pending_intents.lock().get("k2"), Some(&h2));
    drop(g2);
    drop(g);
    assert!(cas.index.pending_intents.lock().is_empty(), "dropping the guards must remove the intents");
}


// C13: an abandoned transaction leaves nothing in staging/ once its drop has returned - for small and large amounts written
// (below and above buffer sizes and typical "large file" thresholds), in one and in many chunks.
#[cfg(test)]
#[test]
fn replay_abandon_leaves_nothing() {
    let dir = tempfile::tempdir().unwrap();
    let cas: Cas<String> = Cas::open(dir.path(), cfg2()).unwrap();
    let staging = cas.paths.staging_root_path().to_path_buf();
    let count = || std::fs::read_dir(&staging).map(|d| d.count()).unwrap_or(0);
    assert_eq!(count(), 0);
    let mut bad = Vec::new();
    for (total, chunk) in [(0usize, 1usize), (1, 1), (5000, 5000), (8192, 4096), (70_000, 70_000), (1 << 20, 4096), ((1 << 20) + 1, 1 << 20),
                           (3 << 20, 65_536), ((16 << 20) + 1, 1 << 20), (33 << 20, 4 << 20)] {
        let mut tx = cas.put(format!("abandoned-{total}")).unwrap();
        let buf = vec![0x5Au8; chunk.max(1)];
        let mut left = total;
        while left > 0 {
            let n = left.min(chunk);
            tx.write(&buf[..n]).unwrap();
            left -= n;
        }
        drop(tx);
        let n = count();
        if n != 0 {
            bad.push(format!("after dropping a transaction that wrote {total} bytes, staging/ holds {n} file(s)"));
            for e in std::fs::read_dir(&staging).unwrap().flatten() { let _ = std::fs::remove_file(e.path()); }
        }
    }
    assert!(bad.is_empty(), "{}", bad.join("; "));
}
