// Native replay of lock-discipline counterexamples (child of the crate root).
// The solver-side witness says: on some path of entry point E the code acquires lock `wanted`
// while holding lock `held`, against the global order pending_intents < state < wal (or
// re-acquires a lock it holds).  Here the real operation runs in a loop on one thread while this
// thread repeatedly takes `wanted`; whenever it owns `wanted` and finds `held` locked and still
// locked 300 ms later although nobody else can make progress, the operation thread is provably
// holding `held` while blocked on `wanted`: the inversion is observed on the real code.
use crate::*;
use std::num::NonZeroU64;
use std::sync::atomic::{AtomicBool, Ordering};
use std::sync::Arc;
use std::time::{Duration, Instant};

#[cfg(test)]
fn is_locked<K>(cas: &Cas<K>, name: &str) -> bool {
    match name {
        "pending_intents" => cas.index.pending_intents.try_lock().is_none(),
        "state" => cas.index.state.try_write().is_none(),
        "wal" => cas.index.wal.try_lock().is_none(),
        _ => false,
    }
}

#[cfg(test)]
fn put(cas: &Cas<String>, k: &str, v: &[u8]) {
    let mut tx = cas.put(k.to_string()).unwrap();
    tx.write(v).unwrap();
    let _ = tx.finish();
}

#[cfg(test)]
fn run_entry(cas: &Cas<String>, entry: &str, i: u64) {
    let content = format!("content-{}", i % 3);
    match entry {
        "put.finish" => put(cas, if i % 2 == 0 { "a" } else { "b" }, content.as_bytes()),
        "remove" => {
            put(cas, "r", content.as_bytes());
            let _ = cas.remove(&"r".to_string());
        }
        "remove_range" => {
            put(cas, "r1", content.as_bytes());
            put(cas, "r2", b"zz");
            let _ = cas.remove_range("r0".to_string().."r9".to_string());
        }
        "checkpoint" => {
            put(cas, "c", content.as_bytes());
            let _ = cas.checkpoint();
        }
        "get" => { let _ = cas.get(&"a".to_string()); }
        "get_size" => { let _ = cas.get_size(&"a".to_string()); }
        "get_reader" => { let _ = cas.get_reader(&"a".to_string()); }
        "get_range" => { let _ = cas.get_range(&"a".to_string(), 0, 3); }
        "stats" => { let _ = cas.stats(); }
        "delete_orphan" | "delete_orphans" | "quarantine_orphans" => {
            // plant an orphan, scan, clean
            let h = calculate_blob_hash(content.as_bytes());
            let p = cas.paths.cas_file_path(&h);
            let _ = std::fs::create_dir_all(p.parent().unwrap());
            let _ = std::fs::write(&p, content.as_bytes());
            if let Ok(stats) = crate::orphan::scan_orphans(cas.as_arc(), cas.as_arc().clone(), false) {
                match entry {
                    "delete_orphan" => { let _ = stats.delete_orphan(&h); }
                    "delete_orphans" => { let _ = stats.delete_orphans(); }
                    _ => { let _ = stats.quarantine_orphans(&cas.paths.db_root_path().join("quarantine")); }
                }
            }
        }
        _ => {}
    }
}

#[cfg(test)]
#[test]
fn replay_lock_order() {
    let v = rv::load();
    let entry = v["entry"].as_str().unwrap_or("put.finish").to_string();
    let held = v["held"].as_str().unwrap_or("").to_string();
    let wanted = v["wanted"].as_str().unwrap_or("").to_string();
    let dir = tempfile::tempdir().unwrap();
    let cfg = Config {
        num_ops_per_wal: NonZeroU64::new(1).unwrap(), // every op rolls the log over
        scan_orphans_on_startup: false,
        ..Default::default()
    };
    let cas: Cas<String> = Cas::open(dir.path(), cfg).unwrap();
    put(&cas, "a", b"content-0");
    put(&cas, "b", b"content-1");
    let stop = Arc::new(AtomicBool::new(false));
    let done = Arc::new(AtomicBool::new(false));
    let (c2, s2, d2, e2) = (cas.clone(), stop.clone(), done.clone(), entry.clone());
    let worker = std::thread::spawn(move || {
        let mut i = 0u64;
        while !s2.load(Ordering::Relaxed) {
            run_entry(&c2, &e2, i);
            i += 1;
        }
        d2.store(true, Ordering::Relaxed);
    });
    let deadline = Instant::now() + Duration::from_secs(25);
    let mut observed = false;
    while Instant::now() < deadline && !observed {
        // take `wanted` (re-acquire case: held == wanted -> just watch for a hang below)
        if held != wanted {
            macro_rules! probe {
                ($g:expr) => {{
                    let _g = $g;
                    if is_locked(&cas, &held) {
                        std::thread::sleep(Duration::from_millis(300));
                        if is_locked(&cas, &held) {
                            observed = true;
                        }
                    }
                }};
            }
            match wanted.as_str() {
                "pending_intents" => probe!(cas.index.pending_intents.lock()),
                "state" => probe!(cas.index.state.write()),
                "wal" => probe!(cas.index.wal.lock()),
                _ => break,
            }
        } else {
            std::thread::sleep(Duration::from_millis(200));
        }
        std::thread::yield_now();
    }
    stop.store(true, Ordering::Relaxed);
    // a self-deadlock shows up as a worker that never finishes
    let t0 = Instant::now();
    while !done.load(Ordering::Relaxed) && t0.elapsed() < Duration::from_secs(10) {
        std::thread::sleep(Duration::from_millis(50));
    }
    let hung = !done.load(Ordering::Relaxed);
    if !hung {
        let _ = worker.join();
    }
    assert!(!observed, "{entry}: holds `{held}` while blocked acquiring `{wanted}` (lock-order inversion observed)");
    assert!(!hung, "{entry}: operation thread never returned (deadlock)");
}
