// C16 — KeyBytes codecs and WalOp<K>::to_raw/from_raw round-trip. Child of `crate::types`.
use super::*;

#[cfg(kani)]
macro_rules! int_key_roundtrip {
    ($name:ident, $ty:ty, $n:expr) => {
        #[kani::proof]
        #[kani::unwind(20)]
        fn $name() {
            let x: $ty = kani::any();
            let b = x.to_key_bytes();
            assert!(b.as_ref().len() == $n);
            let y = <$ty as KeyBytes>::from_key_bytes(b.as_ref());
            assert!(y == Some(x), "integer key does not round-trip");
            let o = x.to_key_bytes_owned();
            assert!(o.len() == $n);
            assert!(<$ty as KeyBytes>::from_key_bytes(&o) == Some(x));
            // wrong length is rejected, never panics
            let raw: [u8; 17] = kani::any();
            let l: usize = kani::any();
            kani::assume(l <= 17);
            let z = <$ty as KeyBytes>::from_key_bytes(&raw[..l]);
            assert!(z.is_some() == (l == $n), "length check of integer key decoder");
            if let Some(z) = z {
                // injective: decoding bytes then encoding gives the bytes back
                let zb = z.to_key_bytes();
                let mut i = 0;
                while i < $n {
                    assert!(zb.as_ref()[i] == raw[i]);
                    i += 1;
                }
            }
            kani::cover!(l == $n, "exact length decoded");
            core::mem::forget(o);
        }
    };
}
#[cfg(kani)]
int_key_roundtrip!(c16_key_u8, u8, 1);
#[cfg(kani)]
int_key_roundtrip!(c16_key_i8, i8, 1);
#[cfg(kani)]
int_key_roundtrip!(c16_key_u16, u16, 2);
#[cfg(kani)]
int_key_roundtrip!(c16_key_i16, i16, 2);
#[cfg(kani)]
int_key_roundtrip!(c16_key_u32, u32, 4);
#[cfg(kani)]
int_key_roundtrip!(c16_key_i32, i32, 4);
#[cfg(kani)]
int_key_roundtrip!(c16_key_u64, u64, 8);
#[cfg(kani)]
int_key_roundtrip!(c16_key_i64, i64, 8);
#[cfg(kani)]
int_key_roundtrip!(c16_key_u128, u128, 16);
#[cfg(kani)]
int_key_roundtrip!(c16_key_i128, i128, 16);

#[cfg(kani)]
macro_rules! arr_key_roundtrip {
    ($name:ident, $n:expr) => {
        #[kani::proof]
        #[kani::unwind(8)]
        fn $name() {
            let x: [u8; $n] = kani::any();
            let b = x.to_key_bytes();
            let y = <[u8; $n] as KeyBytes>::from_key_bytes(b.as_ref());
            match y {
                Some(y) => {
                    let mut i = 0;
                    while i < $n {
                        assert!(y[i] == x[i]);
                        i += 1;
                    }
                }
                None => panic!("array key does not round-trip"),
            }
            let raw: [u8; 6] = kani::any();
            let l: usize = kani::any();
            kani::assume(l <= 6);
            let z = <[u8; $n] as KeyBytes>::from_key_bytes(&raw[..l]);
            assert!(z.is_some() == (l == $n));
            kani::cover!(l == $n, "exact length decoded");
        }
    };
}
#[cfg(kani)]
arr_key_roundtrip!(c16_key_arr0, 0);
#[cfg(kani)]
arr_key_roundtrip!(c16_key_arr1, 1);
#[cfg(kani)]
arr_key_roundtrip!(c16_key_arr4, 4);

pub(crate) fn vec_key_body(raw: &[u8], l: usize) {
    let k: Vec<u8> = raw[..l].to_vec();
    let b = k.to_key_bytes();
    assert!(b.len() == l);
    let y = <Vec<u8> as KeyBytes>::from_key_bytes(&b).expect("Vec<u8> key always decodes");
    assert!(y.len() == l);
    let mut i = 0;
    while i < l {
        assert!(y[i] == raw[i]);
        i += 1;
    }
    let o = k.to_key_bytes_owned();
    assert!(o.len() == l);
    vcover!(l == 0, "empty key");
    vcover!(l == 3, "3-byte key");
    core::mem::forget((k, b, y, o));
}

#[cfg(kani)]
#[kani::proof]
#[kani::unwind(5)]
fn c16_key_vec_3() {
    let raw: [u8; 3] = kani::any();
    let l: usize = kani::any();
    kani::assume(l <= 3);
    vec_key_body(&raw, l);
}

// String keys: valid UTF-8 round-trips, invalid UTF-8 -> None (never panics)
pub(crate) fn string_key_body(raw: &[u8], l: usize) {
    let r = <String as KeyBytes>::from_key_bytes(&raw[..l]);
    match &r {
        Some(s) => {
            let b = s.to_key_bytes();
            assert!(b.len() == l);
            let mut i = 0;
            while i < l {
                assert!(b[i] == raw[i], "String key bytes changed");
                i += 1;
            }
            vcover!(l == 2 && raw[0] >= 0xc2, "two-byte UTF-8 sequence accepted");
            core::mem::forget(b);
        }
        None => {
            assert!(l > 0 && raw[0] >= 0x80 || l > 1, "ASCII rejected");
            vcover!(l == 1, "lone continuation/lead byte rejected");
        }
    }
    core::mem::forget(r);
}

#[cfg(kani)]
#[kani::proof]
#[kani::unwind(5)]
fn c16_key_string_2() {
    let raw: [u8; 2] = kani::any();
    let l: usize = kani::any();
    kani::assume(l <= 2);
    string_key_body(&raw, l);
}

#[cfg(test)]
#[test]
fn replay_c16_keys() {
    let v = rv::load();
    let raw: [u8; 3] = rv::arr(&v, "raw");
    let l = (rv::num(&v, "l") as usize).min(3);
    vec_key_body(&raw, l);
    string_key_body(&raw, l.min(2));
}

// WalOp<K> <-> WalOpRaw with K = u32 and K = Vec<u8>
pub(crate) fn walop_u32_body(key: u32, hash: [u8; 32], size: u64, k2: u32, which: u8) {
    if which == 0 {
        let op = WalOp::Put { key, hash: BlobHash::from_bytes(hash), size };
        let raw = op.to_raw();
        let back = WalOp::<u32>::from_raw(raw);
        match &back {
            Ok(WalOp::Put { key: k, hash: h, size: s }) => {
                assert!(*k == key && *s == size);
                assert!(h.0[0] == hash[0] && h.0[31] == hash[31] && h.0[13] == hash[13]);
            }
            _ => panic!("Put<u32> did not convert back"),
        }
        core::mem::forget(back);
    } else {
        let op = WalOp::Remove { keys: vec![key, k2] };
        let raw = op.to_raw();
        let back = WalOp::<u32>::from_raw(raw);
        match &back {
            Ok(WalOp::Remove { keys }) => {
                assert!(keys.len() == 2 && keys[0] == key && keys[1] == k2, "Remove<u32> keys changed");
                vcover!(key == k2, "duplicate keys preserved");
            }
            _ => panic!("Remove<u32> did not convert back"),
        }
        core::mem::forget(back);
    }
}

#[cfg(kani)]
#[kani::proof]
#[kani::unwind(6)]
fn c16_walop_u32() {
    let hash: [u8; 32] = kani::any();
    walop_u32_body(kani::any(), hash, kani::any(), kani::any(), kani::any());
}

#[cfg(test)]
#[test]
fn replay_c16_walop_u32() {
    let v = rv::load();
    let hash: [u8; 32] = rv::arr(&v, "hash");
    walop_u32_body(0, hash, 0, 0, 0);
    walop_u32_body(1, hash, 1, 2, 1);
}

// from_raw with a key that does not decode -> Err, never a panic
#[cfg(kani)]
#[kani::proof]
#[kani::unwind(6)]
fn c16_walop_bad_key() {
    let raw: [u8; 5] = kani::any();
    let l: usize = kani::any();
    kani::assume(l <= 5);
    let hash: [u8; 32] = kani::any();
    let r = WalOp::<u32>::from_raw(WalOpRaw::Put {
        key_bytes: raw[..l].to_vec(),
        hash: BlobHash::from_bytes(hash),
        size: kani::any(),
    });
    assert!(r.is_ok() == (l == 4));
    kani::cover!(l == 4, "decodable");
    core::mem::forget(r);
    let r2 = WalOp::<u32>::from_raw(WalOpRaw::Remove { keys_bytes: vec![raw[..l].to_vec()] });
    assert!(r2.is_ok() == (l == 4));
    core::mem::forget(r2);
}

// Native replay of a path-decoder totality counterexample: a text of the witnessed byte length with a two-byte
// character straddling the witnessed byte index (and the same character at every other position of texts around the
// blob-path length).  BlobHash::from_relative_path must answer every one of them with a value or an error.
#[cfg(test)]
#[test]
fn replay_c16_path_total() {
    let v = rv::load();
    let len = rv::num(&v, "path_strlen") as usize;
    let mid = rv::num(&v, "split_mid") as usize;
    let mut texts: Vec<String> = Vec::new();
    let mk = |len: usize, mid: usize| -> Option<String> {
        if mid == 0 || mid >= len { return None; }
        let mut s = String::new();
        s.push_str(&"a".repeat(mid - 1));
        s.push('é'); // bytes mid-1, mid: index `mid` is inside the character
        s.push_str(&"b".repeat(len - mid - 1));
        Some(s)
    };
    if let Some(s) = mk(len, mid) { texts.push(s); }
    for l in [66usize, 67, 68, 70, 130] {
        for m in 1..l { if let Some(s) = mk(l, m) { texts.push(s); } }
    }
    // ... and the same texts with path separators where a blob path has them
    let mut more = Vec::new();
    for t in &texts {
        let mut b: Vec<char> = t.chars().collect();
        let n = b.len();
        if n > 64 { b[n - 61] = '/'; b[n - 64] = '/'; }
        more.push(b.into_iter().collect::<String>());
    }
    texts.extend(more);
    let mut panics = Vec::new();
    for t in &texts {
        let p = std::path::PathBuf::from(t);
        let r = std::panic::catch_unwind(|| { let _ = BlobHash::from_relative_path(&p); });
        if r.is_err() { panics.push(format!("{} bytes, multi-byte character at byte {}", t.len(), t.find('é').unwrap_or(0))); }
    }
    assert!(panics.is_empty(), "BlobHash::from_relative_path panics on {} of {} paths, e.g. {}", panics.len(), texts.len(), panics[0]);
}
