// Native demonstration for the read-vs-unlink finding D5 (C05); child of the crate root.
// A reader looks the key up under the state read lock, RELEASES it, then opens the blob.  A writer
// overwriting the key unlinks the old blob in between: the read fails with BlobDataMissing although
// the key was present during the whole call.  Two threads, bounded time; the assertion fails as
// soon as one read of an always-present key returns an error.
use crate::*;
use std::num::NonZeroU64;
use std::sync::atomic::{AtomicBool, Ordering};
use std::sync::Arc;

#[cfg(test)]
#[test]
fn replay_read_vs_overwrite() {
    let dir = tempfile::tempdir().unwrap();
    let cfg = Config { num_ops_per_wal: NonZeroU64::new(10_000).unwrap(), scan_orphans_on_startup: false,
                       sync_mode: SyncMode::Async, ..Default::default() };
    let cas: Cas<String> = Cas::open(dir.path(), cfg).unwrap();
    let put = |c: &Cas<String>, v: &[u8]| {
        let mut tx = c.put("k".to_string()).unwrap();
        tx.write(v).unwrap();
        tx.finish().unwrap();
    };
    put(&cas, b"v0");
    let stop = Arc::new(AtomicBool::new(false));
    let (c2, s2) = (cas.clone(), stop.clone());
    let writer = std::thread::spawn(move || {
        let mut i = 0u64;
        while !s2.load(Ordering::Relaxed) {
            i += 1;
            let mut tx = c2.put("k".to_string()).unwrap();
            tx.write(format!("v{i}").as_bytes()).unwrap();
            tx.finish().unwrap();
        }
    });
    let t0 = std::time::Instant::now();
    let mut failure = None;
    let mut reads = 0u64;
    while t0.elapsed() < std::time::Duration::from_secs(90) && failure.is_none() {
        reads += 1;
        match cas.get(&"k".to_string()) {
            Ok(Some(b)) => assert!(b.starts_with(b"v"), "mixed content"),
            Ok(None) => failure = Some("key reported absent although it is never removed".to_string()),
            Err(e) => failure = Some(format!("read of an always-present key failed after {reads} reads: {e}")),
        }
    }
    stop.store(true, Ordering::Relaxed);
    writer.join().unwrap();
    assert!(failure.is_none(), "{}", failure.unwrap());
}
