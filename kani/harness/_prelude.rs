// ---- verification prelude (prepended to every injected harness module) -------------------
// The same module is compiled two ways:
//   cfg(kani): `#[kani::proof]` functions make the inputs symbolic and call a shared `*_body`;
//   cfg(test): `replay_*` tests read concrete values (a solver counterexample) from the JSON
//              file named by $VERIF_REPLAY and call the *same* body natively, on the real code.
#![allow(dead_code, unused_imports, unused_macros, unused_variables, clippy::all)]

macro_rules! vcover {
    ($($t:tt)*) => {
        #[cfg(kani)]
        kani::cover!($($t)*);
    };
}

#[cfg(test)]
pub(crate) mod rv {
    pub fn load() -> serde_json::Value {
        let p = std::env::var("VERIF_REPLAY").expect("VERIF_REPLAY not set");
        let s = std::fs::read_to_string(p).expect("replay file");
        let v: serde_json::Value = serde_json::from_str(&s).expect("replay json");
        v["values"].clone()
    }
    pub fn num(v: &serde_json::Value, name: &str) -> u64 {
        match &v[name] {
            serde_json::Value::Number(n) => n.as_u64().unwrap_or_else(|| n.as_i64().unwrap() as u64),
            serde_json::Value::String(s) => s.parse::<u64>().unwrap(),
            _ => 0,
        }
    }
    pub fn boolean(v: &serde_json::Value, name: &str) -> bool {
        num(v, name) != 0
    }
    /// arrays are stored as {"[i]": value}; missing elements are don't-care (0)
    pub fn arr<const N: usize>(v: &serde_json::Value, name: &str) -> [u8; N] {
        let mut out = [0u8; N];
        if let serde_json::Value::Object(m) = &v[name] {
            for (k, x) in m {
                let idx: usize = k.trim_matches(|c| c == '[' || c == ']').parse().unwrap();
                if idx < N {
                    out[idx] = x.as_u64().unwrap_or(0) as u8;
                }
            }
        }
        out
    }
}
// ---- end of prelude -----------------------------------------------------------------------
