// Native confirmation for the open-gate counterexamples (C11, C19); child of the crate root.
use crate::*;
use std::num::NonZeroU64;
use std::os::unix::fs::MetadataExt;

#[cfg(test)]
fn cfg(n: u64, pre: bool) -> Config {
    Config { num_ops_per_wal: NonZeroU64::new(n).unwrap(), pre_create_cas_dirs: pre, scan_orphans_on_startup: false, ..Default::default() }
}

#[cfg(test)]
fn snapshot(root: &std::path::Path) -> Vec<(String, u64, Vec<u8>)> {
    let mut v = Vec::new();
    for e in std::fs::read_dir(root).unwrap().flatten() {
        if e.path().is_file() {
            v.push((e.file_name().to_string_lossy().to_string(), e.metadata().unwrap().ino(), std::fs::read(e.path()).unwrap()));
        }
    }
    v.sort();
    v
}

#[cfg(test)]
#[test]
fn replay_open_exclusive() {
    let dir = tempfile::tempdir().unwrap();
    let owner: Cas<String> = Cas::open(dir.path(), cfg(2, false)).unwrap();
    let before = snapshot(dir.path());
    for attempt in 0..3 {
        let r: Result<Cas<String>, _> = Cas::open(dir.path(), cfg(2, false));
        assert!(matches!(r, Err(LibError::AlreadyOpened)), "open #{attempt} while the owner is alive did not fail with AlreadyOpened");
        assert_eq!(snapshot(dir.path()), before, "a losing open modified the database files (attempt {attempt})");
    }
    let clone = owner.clone();
    drop(owner);
    let r: Result<Cas<String>, _> = Cas::open(dir.path(), cfg(2, false));
    assert!(matches!(r, Err(LibError::AlreadyOpened)), "a clone still holds the store, open must fail");
    drop(clone);
    let again: Cas<String> = Cas::open(dir.path(), cfg(2, false)).expect("open after the owner is gone");
    drop(again);
}

#[cfg(test)]
#[test]
fn replay_settings_gate() {
    let dir = tempfile::tempdir().unwrap();
    {
        let cas: Cas<String> = Cas::open(dir.path(), cfg(2, false)).unwrap();
        let mut tx = cas.put("a".to_string()).unwrap();
        tx.write(b"one").unwrap();
        tx.finish().unwrap();
    }
    let before = snapshot(dir.path());
    // wrong segment size: rejected, nothing modified
    let r: Result<Cas<String>, _> = Cas::open(dir.path(), cfg(3, false));
    assert!(r.is_err(), "open with a different num_ops_per_wal must be rejected");
    assert_eq!(snapshot(dir.path()).iter().filter(|x| x.0 != "LOCK").collect::<Vec<_>>(),
        before.iter().filter(|x| x.0 != "LOCK").collect::<Vec<_>>(), "a rejected open modified database files");
    // the creation-time pre-creation choice is remembered: reopen with the other choice and write new content
    {
        let cas: Cas<String> = Cas::open(dir.path(), cfg(2, true)).unwrap();
        for i in 0..40u32 {
            let mut tx = cas.put(format!("k{i}")).unwrap();
            tx.write(format!("content-{i}").as_bytes()).unwrap();
            tx.finish().unwrap_or_else(|e| panic!("put after reopening with the other pre-create choice failed: {e}"));
        }
        assert_eq!(cas.get(&"a".to_string()).unwrap().unwrap().as_ref(), b"one");
    }
    // wrong format version: rejected, nothing modified
    let sp = dir.path().join("db_settings.json");
    let txt = std::fs::read_to_string(&sp).unwrap();
    for bad in ["\"version\":3", "\"version\":5"] {
        std::fs::write(&sp, txt.replace("\"version\":4", bad)).unwrap();
        let before = snapshot(dir.path());
        let r: Result<Cas<String>, _> = Cas::open(dir.path(), cfg(2, false));
        assert!(r.is_err(), "open with stored {bad} must be rejected");
        assert_eq!(snapshot(dir.path()).iter().filter(|x| x.0 != "LOCK").collect::<Vec<_>>(),
            before.iter().filter(|x| x.0 != "LOCK").collect::<Vec<_>>(), "a version-rejected open modified database files");
    }
    std::fs::write(&sp, txt).unwrap();
    let cas: Cas<String> = Cas::open(dir.path(), cfg(2, false)).unwrap();
    assert_eq!(cas.get(&"a".to_string()).unwrap().unwrap().as_ref(), b"one");
}
