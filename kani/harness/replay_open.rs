// Native confirmation for the open-gate counterexamples (C11, C19); child of the crate root.
use crate::*;
use std::num::NonZeroU64;
use std::os::unix::fs::MetadataExt;

#[cfg(test)]
fn cfg(n: u64, pre: bool) -> Config {
    Config { num_ops_per_wal: NonZeroU64::new(n).unwrap(), pre_create_cas_dirs: pre, scan_orphans_on_startup: false, ..Default::default() }
}

#[cfg(test)]
fn snapshot(root: &std::path::Path) -> Vec<(String, u64, Vec<u8>)> {
    let mut v = Vec::new();
    for e in std::fs::read_dir(root).unwrap().flatten() {
        if e.path().is_file() {
            v.push((e.file_name().to_string_lossy().to_string(), e.metadata().unwrap().ino(), std::fs::read(e.path()).unwrap()));
        }
    }
    v.sort();
    v
}

#[cfg(test)]
#[test]
fn replay_open_exclusive() {
    let dir = tempfile::tempdir().unwrap();
    let owner: Cas<String> = Cas::open(dir.path(), cfg(2, false)).unwrap();
    let before = snapshot(dir.path());
    for attempt in 0..3 {
        let r: Result<Cas<String>, _> = Cas::open(dir.path(), cfg(2, false));
        assert!(matches!(r, Err(LibError::AlreadyOpened)), "open #{attempt} while the owner is alive did not fail with AlreadyOpened");
        assert_eq!(snapshot(dir.path()), before, "a losing open modified the database files (attempt {attempt})");
    }
    let clone = owner.clone();
    drop(owner);
    let r: Result<Cas<String>, _> = Cas::open(dir.path(), cfg(2, false));
    assert!(matches!(r, Err(LibError::AlreadyOpened)), "a clone still holds the store, open must fail");
    drop(clone);
    let again: Cas<String> = Cas::open(dir.path(), cfg(2, false)).expect("open after the owner is gone");
    drop(again);
    // a FRESH directory whose owner is still inside its own open: it has created the directories and taken LOCK but has
    // not yet saved its settings.  A second open must lose without creating or touching anything (for every config).
    for (n, pre) in [(2u64, false), (7, false)] {
        let dir = tempfile::tempdir().unwrap();
        std::fs::create_dir_all(dir.path().join("staging")).unwrap();
        std::fs::create_dir_all(dir.path().join("cas")).unwrap();
        let lock = std::fs::OpenOptions::new().create(true).truncate(true).write(true).open(dir.path().join("LOCK")).unwrap();
        lock.try_lock().expect("the test itself could not lock a fresh LOCK file");
        let before = snapshot(dir.path());
        let r: Result<Cas<String>, _> = Cas::open(dir.path(), cfg(n, pre));
        assert!(r.is_err(), "open of a directory whose LOCK is held by a starting owner succeeded");
        drop(r);
        assert_eq!(snapshot(dir.path()), before, "a losing open of a fresh directory created or modified database files (config N={n})");
        assert!(std::fs::read_dir(dir.path().join("cas")).unwrap().next().is_none(), "a losing open of a fresh directory pre-created blob directories");
        drop(lock);
    }
}

#[cfg(test)]
#[test]
fn replay_settings_gate() {
    let dir = tempfile::tempdir().unwrap();
    {
        let cas: Cas<String> = Cas::open(dir.path(), cfg(2, false)).unwrap();
        let mut tx = cas.put("a".to_string()).unwrap();
        tx.write(b"one").unwrap();
        tx.finish().unwrap();
    }
    let before = snapshot(dir.path());
    // wrong segment size: rejected, nothing modified
    let r: Result<Cas<String>, _> = Cas::open(dir.path(), cfg(3, false));
    assert!(r.is_err(), "open with a different num_ops_per_wal must be rejected");
    assert_eq!(snapshot(dir.path()).iter().filter(|x| x.0 != "LOCK").collect::<Vec<_>>(),
        before.iter().filter(|x| x.0 != "LOCK").collect::<Vec<_>>(), "a rejected open modified database files");
    // ... for every combination of the stored and the requested pre-creation choice (the stored flag is edited in
    // the settings file; the gate must not depend on either)
    {
        let sp = dir.path().join("db_settings.json");
        let txt = std::fs::read_to_string(&sp).unwrap();
        for stored_pre in [false, true] {
            let edited = txt.replace("\"dir_tree_is_pre_created\":false", &format!("\"dir_tree_is_pre_created\":{stored_pre}"));
            std::fs::write(&sp, &edited).unwrap();
            for req_pre in [false, true] {
                for n in [1u64, 3, 4] {
                    let before = snapshot(dir.path());
                    let r: Result<Cas<String>, _> = Cas::open(dir.path(), cfg(n, req_pre));
                    assert!(r.is_err(), "open with num_ops_per_wal={n} (stored 2; stored pre-create flag {stored_pre}, requested {req_pre}) must be rejected");
                    drop(r);
                    assert_eq!(snapshot(dir.path()).iter().filter(|x| x.0 != "LOCK").collect::<Vec<_>>(),
                        before.iter().filter(|x| x.0 != "LOCK").collect::<Vec<_>>(), "a rejected open modified database files");
                }
            }
        }
        std::fs::write(&sp, &txt).unwrap();
    }
    // the creation-time pre-creation choice is remembered: reopen with the other choice and write new content
    {
        let cas: Cas<String> = Cas::open(dir.path(), cfg(2, true)).unwrap();
        for i in 0..40u32 {
            let mut tx = cas.put(format!("k{i}")).unwrap();
            tx.write(format!("content-{i}").as_bytes()).unwrap();
            tx.finish().unwrap_or_else(|e| panic!("put after reopening with the other pre-create choice failed: {e}"));
        }
        assert_eq!(cas.get(&"a".to_string()).unwrap().unwrap().as_ref(), b"one");
    }
    // wrong format version: rejected, nothing modified
    let sp = dir.path().join("db_settings.json");
    let txt = std::fs::read_to_string(&sp).unwrap();
    for bad in ["\"version\":3", "\"version\":5"] {
        std::fs::write(&sp, txt.replace("\"version\":4", bad)).unwrap();
        let before = snapshot(dir.path());
        let r: Result<Cas<String>, _> = Cas::open(dir.path(), cfg(2, false));
        assert!(r.is_err(), "open with stored {bad} must be rejected");
        assert_eq!(snapshot(dir.path()).iter().filter(|x| x.0 != "LOCK").collect::<Vec<_>>(),
            before.iter().filter(|x| x.0 != "LOCK").collect::<Vec<_>>(), "a version-rejected open modified database files");
    }
    std::fs::write(&sp, txt).unwrap();
    let cas: Cas<String> = Cas::open(dir.path(), cfg(2, false)).unwrap();
    assert_eq!(cas.get(&"a".to_string()).unwrap().unwrap().as_ref(), b"one");
}

// First-time initialisation over a partially created CAS tree (what a killed earlier initialisation leaves behind: no
// settings file yet, some of the pre-created directories): the open must succeed and leave EVERY leaf directory in
// place - afterwards puts never create directories again.
#[cfg(test)]
#[test]
fn replay_precreate_restart() {
    let v = rv::load();
    let existing: Vec<String> = v["existing"].as_array().map(|a| a.iter().filter_map(|x| x.as_str().map(|s| s.to_string())).collect()).unwrap_or_default();
    let dir = tempfile::tempdir().unwrap();
    std::fs::create_dir_all(dir.path().join("staging")).unwrap();
    std::fs::create_dir_all(dir.path().join("cas")).unwrap();
    for e in &existing {
        std::fs::create_dir_all(dir.path().join("cas").join(e)).unwrap();
    }
    let cas: Cas<String> = Cas::open(dir.path(), cfg(2, true)).expect("first-time initialisation over a partial tree");
    let mut missing = Vec::new();
    for i in 0..256u32 {
        for j in 0..256u32 {
            let p = dir.path().join("cas").join(format!("{i:02x}")).join(format!("{j:02x}"));
            if !p.is_dir() { missing.push(format!("{i:02x}/{j:02x}")); }
        }
    }
    assert!(missing.is_empty(), "after a successful first-time initialisation {} leaf directories are missing (e.g. cas/{}): every later put hashing there fails",
            missing.len(), missing[0]);
    drop(cas);
}
