// Native confirmation for fault-containment counterexamples (C14); child of the crate root.
// Real I/O failures are provoked with directories planted where a file must be created.
use crate::*;
use std::num::NonZeroU64;

#[cfg(test)]
fn cfg2() -> Config {
    Config { num_ops_per_wal: NonZeroU64::new(2).unwrap(), scan_orphans_on_startup: false, ..Default::default() }
}
#[cfg(test)]
fn try_put(cas: &Cas<String>, k: &str, v: &[u8]) -> Result<(), LibError> {
    let mut tx = cas.put(k.to_string())?;
    tx.write(v).map_err(|_| LibError::AlreadyOpened)?;
    tx.finish()
}
#[cfg(test)]
fn expect(cas: &Cas<String>, k: &str, v: Option<&[u8]>, what: &str) {
    let got = cas.get(&k.to_string()).unwrap_or_else(|e| panic!("{what}: get({k}) failed: {e}"));
    assert_eq!(got.as_ref().map(|b| b.as_ref()), v, "{what}: value of {k}");
}

#[cfg(test)]
#[test]
fn replay_fault_containment() {
    // 1. failure while rolling the log over (new segment cannot be created)
    let dir = tempfile::tempdir().unwrap();
    let cas: Cas<String> = Cas::open(dir.path(), cfg2()).unwrap();
    try_put(&cas, "a", b"PPPP").unwrap();
    try_put(&cas, "b", b"QQ").unwrap();
    let blocker = dir.path().join("1_index.wal");
    std::fs::create_dir(&blocker).unwrap();
    let r = try_put(&cas, "c", b"PPPP"); // same content as `a`
    assert!(r.is_err(), "the put must fail: its WAL segment cannot be created");
    expect(&cas, "a", Some(b"PPPP"), "after failed put");
    expect(&cas, "b", Some(b"QQ"), "after failed put");
    let r2 = try_put(&cas, "b", b"PPPP"); // overwrite attempt also fails; old value must stay readable
    assert!(r2.is_err());
    expect(&cas, "b", Some(b"QQ"), "after failed overwrite");
    std::fs::remove_dir(&blocker).unwrap();
    try_put(&cas, "d", b"later").unwrap();
    expect(&cas, "a", Some(b"PPPP"), "after recovery from the fault");
    expect(&cas, "d", Some(b"later"), "after recovery from the fault");
    drop(cas);
    let cas: Cas<String> = Cas::open(dir.path(), cfg2()).expect("reopen after a contained fault");
    expect(&cas, "a", Some(b"PPPP"), "after reopen");
    expect(&cas, "b", Some(b"QQ"), "after reopen");
    expect(&cas, "d", Some(b"later"), "after reopen");
    // 2. failure while writing the snapshot (index.tmp cannot be created)
    let tmp = dir.path().join("index.tmp");
    let _ = std::fs::remove_file(&tmp);
    std::fs::create_dir(&tmp).unwrap();
    let _ = cas.checkpoint();
    let _ = try_put(&cas, "e", b"e1");
    let _ = try_put(&cas, "f", b"f1");
    expect(&cas, "a", Some(b"PPPP"), "after failed checkpoint");
    std::fs::remove_dir(&tmp).unwrap();
    let _ = cas.remove(&"a".to_string());
    drop(cas);
    let cas: Cas<String> = Cas::open(dir.path(), cfg2()).expect("reopen after failed checkpoints");
    expect(&cas, "b", Some(b"QQ"), "after second reopen");
    expect(&cas, "d", Some(b"later"), "after second reopen");
}
