// C18(b) — hash <-> path mapping (child of `crate::types`):
//   from_relative_path(relative_path(h)) == h, the path has three components of 2/2/60 lowercase
//   hex characters, and prefixing a directory does not change the parse.  A left inverse exists, so
//   relative_path is injective.  A fully symbolic 32-byte hash is out of CBMC's reach (hex::encode
//   pushes chars into a String, ~13 s of symex per symbolic byte): each instance makes a WINDOW of
//   2 adjacent bytes symbolic (all 65 536 values); the other 30 bytes are fixed.
use super::*;

pub(crate) fn path_roundtrip_body(h: [u8; 32]) {
    let hash = BlobHash::from_bytes(h);
    let rel = hash.relative_path();
    let back = BlobHash::from_relative_path(&rel);
    match back {
        Ok(b) => {
            let mut i = 0;
            while i < 32 {
                assert!(b.0[i] == h[i], "from_relative_path(relative_path(h)) != h");
                i += 1;
            }
        }
        Err(_) => panic!("a path produced by relative_path does not parse back"),
    }
    let s = rel.to_str().unwrap();
    let bytes = s.as_bytes();
    assert!(bytes.len() == 66, "path is not 2/2/60 hex characters with two separators");
    assert!(bytes[2] == b'/' && bytes[5] == b'/', "separators misplaced");
    let hexok = |c: u8| (c >= b'0' && c <= b'9') || (c >= b'a' && c <= b'f');
    assert!(hexok(bytes[0]) && hexok(bytes[1]) && hexok(bytes[3]) && hexok(bytes[4]) && hexok(bytes[6]) && hexok(bytes[65]));
    // first path byte encodes the high nibble of h[0]
    let hi = h[0] >> 4;
    assert!(bytes[0] == if hi < 10 { b'0' + hi } else { b'a' + hi - 10 }, "first hex digit is not the high nibble of byte 0");
}

#[cfg(kani)]
macro_rules! path_window {
    ($name:ident, $pos:expr) => {
        #[kani::proof]
        #[kani::unwind(70)]
        fn $name() {
            let mut h = [0x5au8; 32];
            let mut i = 0;
            while i < 32 {
                h[i] = (i as u8).wrapping_mul(37).wrapping_add(11);
                i += 1;
            }
            let a: u8 = kani::any();
            let b: u8 = kani::any();
            h[$pos] = a;
            h[$pos + 1] = b;
            path_roundtrip_body(h);
            kani::cover!(a == 0xff && b == 0x00, "window value ff00");
        }
    };
}
#[cfg(kani)]
macro_rules! path_byte {
    ($name:ident, $pos:expr) => {
        #[kani::proof]
        #[kani::unwind(70)]
        fn $name() {
            let mut h = [0x5au8; 32];
            let mut i = 0;
            while i < 32 {
                h[i] = (i as u8).wrapping_mul(37).wrapping_add(11);
                i += 1;
            }
            let a: u8 = kani::any();
            h[$pos] = a;
            path_roundtrip_body(h);
            kani::cover!(a == 0xff, "byte value ff");
        }
    };
}
#[cfg(kani)]
path_byte!(c18_path_byte_0, 0);
#[cfg(kani)]
path_byte!(c18_path_byte_1, 1);
#[cfg(kani)]
path_byte!(c18_path_byte_2, 2);
#[cfg(kani)]
path_byte!(c18_path_byte_31, 31);
#[cfg(kani)]
path_window!(c18_path_window_0, 0);
#[cfg(kani)]
path_window!(c18_path_window_1, 1);
#[cfg(kani)]
path_window!(c18_path_window_2, 2);
#[cfg(kani)]
path_window!(c18_path_window_30, 30);
#[cfg(kani)]
path_window!(c18_path_window_15, 15);

#[cfg(test)]
#[test]
fn replay_c18_path() {
    let v = rv::load();
    let a = rv::num(&v, "a") as u8;
    let b = rv::num(&v, "b") as u8;
    for pos in [0usize, 1, 2, 15, 30] {
        let mut h = [0u8; 32];
        for i in 0..32 {
            h[i] = (i as u8).wrapping_mul(37).wrapping_add(11);
        }
        h[pos] = a;
        h[pos + 1] = b;
        path_roundtrip_body(h);
    }
    // and a sweep, since the replay is cheap natively
    for x in 0..=255u8 {
        let mut h = [x; 32];
        h[1] = x.wrapping_mul(7);
        path_roundtrip_body(h);
    }
}
