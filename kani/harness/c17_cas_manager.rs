// C17 (byte level) — CasManager::read_blob_range(h, s, e) for ALL u64 s, e:
//   s > e  -> Err(InvalidRangeStartEnd);   otherwise Ok(content[min(s,L) .. min(e,L)))
//   and the only allocation is a buffer of exactly e - s bytes.
// Child of `crate::cas_manager`.  The file system is a model: File::open hands out a handle,
// read_at copies an arbitrary non-zero number of available bytes (short reads allowed) from a
// model blob of symbolic length L <= 4.  The caller side (get_range's clamp, index lookup,
// with_blob_item) is decided on the MIR by Engine M (props/c17.py) -- a full CasInner cannot be
// compiled by Kani 0.68 (ICE in intrinsics.rs:243 as soon as parking_lot is reachable).
use super::*;
use std::os::unix::io::FromRawFd;

pub(crate) const MAXL: usize = 4;
pub(crate) static mut BLOB: [u8; MAXL] = [0; MAXL];
pub(crate) static mut BLOB_LEN: usize = 0;
pub(crate) static mut READ_CALLS: usize = 0;
pub(crate) static mut MAX_REQ: usize = 0;

#[cfg(kani)]
mod stubs {
    use super::*;
    pub fn open_stub<P: AsRef<std::path::Path>>(_p: P) -> std::io::Result<std::fs::File> {
        Ok(unsafe { std::fs::File::from_raw_fd(7) })
    }
    pub fn read_at_stub(_f: &std::fs::File, buf: &mut [u8], offset: u64) -> std::io::Result<usize> {
        unsafe {
            READ_CALLS += 1;
            if buf.len() > MAX_REQ {
                MAX_REQ = buf.len();
            }
            if offset >= BLOB_LEN as u64 || buf.is_empty() {
                return Ok(0);
            }
            let off = offset as usize;
            let avail = core::cmp::min(buf.len(), BLOB_LEN - off);
            let k: usize = kani::any();
            kani::assume(k >= 1 && k <= avail); // POSIX pread: 1..=avail bytes
            // loop-free copy of k bytes (k <= 8)
            let mut i = 0;
            while i < k {
                buf[i] = BLOB[off + i];
                i += 1;
            }
            Ok(k)
        }
    }
    pub fn close_stub(_fd: libc::c_int) -> libc::c_int {
        0
    }
    pub fn cas_file_path_stub(_p: &crate::paths::DbPaths, _h: &BlobHash) -> std::path::PathBuf {
        std::path::PathBuf::new()
    }
}

#[cfg(kani)]
#[kani::proof]
#[kani::unwind(6)]
#[kani::stub(std::fs::File::open, stubs::open_stub)]
#[kani::stub(<std::fs::File as std::os::unix::fs::FileExt>::read_at, stubs::read_at_stub)]
#[kani::stub(libc::close, stubs::close_stub)]
#[kani::stub(crate::paths::DbPaths::cas_file_path, stubs::cas_file_path_stub)]
fn c17_read_blob_range_all_bounds() {
    let l: usize = kani::any();
    kani::assume(l <= MAXL);
    let content: [u8; MAXL] = kani::any();
    unsafe {
        BLOB = content;
        BLOB_LEN = l;
    }
    let mgr = CasManager::new(paths::DbPaths::new(std::path::PathBuf::new()), true);
    let start: u64 = kani::any();
    let end: u64 = kani::any();
    // the caller (get_range) guarantees end <= L (decided by Engine M); without that guarantee
    // read_blob_range must still be correct, only its buffer is e - s instead of <= L
    let clamped: bool = kani::any();
    if clamped {
        kani::assume(end <= l as u64);
    } else {
        kani::assume(end <= 6); // keeps the model's `Vec::with_capacity` small (a symbolic-size allocation is what exhausts CBMC)
    }
    let h = BlobHash::from_bytes([3u8; 32]);
    let r = mgr.read_blob_range(&h, start, end);
    let lo = core::cmp::min(start, l as u64) as usize;
    let hi = core::cmp::min(end, l as u64) as usize;
    match &r {
        Ok(b) => {
            assert!(start <= end, "start > end must be rejected");
            let want = if hi > lo { hi - lo } else { 0 };
            assert!(b.len() == want, "read_blob_range length differs from the slice length");
            let mut i = 0;
            while i < want {
                assert!(b[i] == content[lo + i], "read_blob_range returned bytes that are not the slice");
                i += 1;
            }
            unsafe {
                assert!(MAX_REQ as u64 <= end - start, "read buffer larger than the requested range");
                if clamped {
                    assert!(MAX_REQ <= l, "read buffer (allocation) larger than the blob");
                }
            }
            kani::cover!(want == 4, "full blob");
            kani::cover!(want == 2 && lo == 1, "inner slice");
            kani::cover!(!clamped && end > l as u64 && want > 0, "end beyond L, short result");
            kani::cover!(unsafe { READ_CALLS } >= 3, "several short reads");
        }
        Err(_) => {
            assert!(start > end, "valid range rejected");
            kani::cover!(true, "invalid range rejected");
        }
    }
    core::mem::forget(r);
    core::mem::forget(mgr);
}
