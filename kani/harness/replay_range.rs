// Native replay of a range-read counterexample (child of the crate root): a real blob of the witnessed
// length, the witnessed bounds, through the public API; the answer must be the slice of the content.
use crate::*;

#[cfg(test)]
#[test]
fn replay_read_range() {
    let v = rv::load();
    let l = rv::num(&v, "blob_len");
    let start = rv::num(&v, "range_start");
    let end = rv::num(&v, "range_end");
    assert!(l <= 1 << 30, "blob length {l} too large to materialise");
    let content: Vec<u8> = (0..l).map(|i| ((i.wrapping_mul(31).wrapping_add(7)) % 251) as u8).collect();
    let dir = tempfile::tempdir().unwrap();
    let cas: Cas<String> = Cas::open(dir.path(), Config::default()).unwrap();
    let mut tx = cas.put("blob".to_string()).unwrap();
    for chunk in content.chunks(1 << 20) {
        tx.write(chunk).unwrap();
    }
    tx.finish().unwrap();
    let key = "blob".to_string();
    let mut cases = vec![(start, end)];
    // the same window placed at the end of the blob and over the whole blob
    if end > start && end - start <= l {
        cases.push((l - (end - start), l));
        cases.push((l - (end - start), u64::MAX));
    }
    cases.push((0, l));
    for (s, e) in cases {
        let got = cas.get_range(&key, s, e);
        if s >= l {
            assert_eq!(got.unwrap().map(|b| b.len()), Some(0), "get_range({s},{e}) on a blob of {l} bytes: start beyond the end gives empty bytes");
            continue;
        }
        if s > e {
            assert!(got.is_err(), "get_range({s},{e}): start > end must be an error");
            continue;
        }
        let want = &content[s as usize..(e.min(l)) as usize];
        let got = got.unwrap_or_else(|err| panic!("get_range({s},{e}) on a blob of {l} bytes failed: {err}")).expect("key present");
        assert_eq!(got.len(), want.len(), "get_range({s},{e}) on a blob of {l} bytes: wrong number of bytes");
        assert!(got.as_ref() == want, "get_range({s},{e}) on a blob of {l} bytes: wrong bytes");
    }
}
