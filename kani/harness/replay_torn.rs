// Deterministic native replay for the "one index lookup per read" discipline (C05); child of the crate root.
// The schedule the solver-side predicate describes is forced on the real code: the reader is stopped INSIDE
// its first BTreeMap lookup (the key type's Ord::cmp carries a one-shot thread-local hook), i.e. while it
// holds the shared state lock; a writer overwriting the same key is started and queues for the exclusive
// lock; the reader is released.  Whatever the read call does after that first lookup happens after the
// overwrite.  An atomic read returns the OLD value's answer (its single lookup preceded the overwrite);
// an answer that is neither the old nor the new value's is a torn read.  The old blob stays referenced by a
// second key, so blob unlinking (finding D5) plays no part here.
use crate::*;
use std::cell::RefCell;
use std::cmp::Ordering;
use std::num::NonZeroU64;
use std::sync::mpsc;

thread_local! {
    static HOOK: RefCell<Option<Box<dyn FnOnce()>>> = RefCell::new(None);
}

#[derive(Clone, Debug, Hash, PartialEq, Eq)]
struct PK(String);
impl Ord for PK {
    fn cmp(&self, o: &Self) -> Ordering {
        let h = HOOK.with(|h| h.borrow_mut().take());
        if let Some(h) = h {
            h();
        }
        self.0.cmp(&o.0)
    }
}
impl PartialOrd for PK {
    fn partial_cmp(&self, o: &Self) -> Option<Ordering> {
        Some(self.cmp(o))
    }
}
impl KeyBytes for PK {
    type Bytes = Vec<u8>;
    fn to_key_bytes(&self) -> Vec<u8> {
        self.0.as_bytes().to_vec()
    }
    fn from_key_bytes(b: &[u8]) -> Option<Self> {
        std::str::from_utf8(b).ok().map(|s| PK(s.to_string()))
    }
}

#[cfg(test)]
fn torn(api: &'static str) -> Result<(), String> {
    let old: &'static [u8] = b"AAAA";
    let new: &'static [u8] = b"BBBBBBBBBB";
    let dir = tempfile::tempdir().unwrap();
    let cfg = Config { num_ops_per_wal: NonZeroU64::new(10_000).unwrap(), scan_orphans_on_startup: false, ..Default::default() };
    let cas: Cas<PK> = Cas::open(dir.path(), cfg).unwrap();
    let put = |k: &str, v: &[u8]| {
        let mut tx = cas.put(PK(k.to_string())).unwrap();
        tx.write(v).unwrap();
        tx.finish().unwrap();
    };
    put("k", old);
    put("keep", old); // the old blob stays referenced
    let (paused_tx, paused_rx) = mpsc::channel::<()>();
    let (resume_tx, resume_rx) = mpsc::channel::<()>();
    let c2 = cas.clone();
    let reader = std::thread::spawn(move || -> Result<Vec<u8>, String> {
        HOOK.with(|h| {
            *h.borrow_mut() = Some(Box::new(move || {
                paused_tx.send(()).unwrap();
                let _ = resume_rx.recv_timeout(std::time::Duration::from_secs(20));
            }))
        });
        let k = PK("k".to_string());
        let r = match api {
            "get" => c2.get(&k).map(|o| o.map(|b| b.to_vec())),
            "get_range" => c2.get_range(&k, 0, 10).map(|o| o.map(|b| b.to_vec())),
            "get_size" => c2.get_size(&k).map(|o| o.map(|n| n.to_le_bytes().to_vec())),
            "get_reader" => c2.get_reader(&k).map(|o| o.map(|mut r| { let mut v = Vec::new(); std::io::Read::read_to_end(&mut r, &mut v).unwrap(); v })),
            _ => unreachable!(),
        };
        HOOK.with(|h| h.borrow_mut().take());
        match r {
            Ok(Some(v)) => Ok(v),
            Ok(None) => Err("key reported absent although it is never removed".to_string()),
            Err(e) => Err(format!("read failed: {e}")),
        }
    });
    paused_rx.recv_timeout(std::time::Duration::from_secs(20)).map_err(|_| "reader never reached its index lookup".to_string())?;
    let c3 = cas.clone();
    let writer = std::thread::spawn(move || {
        let mut tx = c3.put(PK("k".to_string())).unwrap();
        tx.write(new).unwrap();
        tx.finish().unwrap();
    });
    // wait until the writer is queued on the state lock (it owns the writer bit and waits for the reader to leave)
    let t0 = std::time::Instant::now();
    while cas.index.state.try_read().is_some() && t0.elapsed() < std::time::Duration::from_secs(10) {
        std::thread::yield_now();
    }
    resume_tx.send(()).unwrap();
    let got = reader.join().unwrap();
    writer.join().unwrap();
    let got = got?;
    let answers: Vec<Vec<u8>> = [old, new].iter().map(|v| match api {
        "get" | "get_reader" => v.to_vec(),
        "get_range" => v[..v.len().min(10)].to_vec(),
        _ => (v.len() as u64).to_le_bytes().to_vec(),
    }).collect();
    if answers.contains(&got) {
        Ok(())
    } else {
        Err(format!("{api}: returned {:?}, which is neither the old value's answer {:?} nor the new value's {:?} (torn read: the call consulted the index twice and an overwrite landed in between)",
            String::from_utf8_lossy(&got), String::from_utf8_lossy(&answers[0]), String::from_utf8_lossy(&answers[1])))
    }
}

#[cfg(test)]
#[test]
fn replay_single_lookup() {
    let mut fails = Vec::new();
    for api in ["get", "get_size", "get_range", "get_reader"] {
        if let Err(e) = torn(api) {
            fails.push(e);
        }
    }
    assert!(fails.is_empty(), "{}", fails.join("; "));
}
