// Native confirmation for API-level counterexamples (child of the crate root): a deterministic
// history over the public API checked step by step against a plain BTreeMap model (C01) and
// against "cas/ holds exactly the referenced blobs, staging/ is empty" (C07).
use crate::*;
use std::collections::{BTreeMap, BTreeSet};
use std::num::NonZeroU64;

#[cfg(test)]
fn cfgn(n: u64) -> Config {
    Config { num_ops_per_wal: NonZeroU64::new(n).unwrap(), scan_orphans_on_startup: false, ..Default::default() }
}

#[cfg(test)]
fn cas_files(root: &std::path::Path) -> BTreeSet<String> {
    let mut out = BTreeSet::new();
    fn walk(p: &std::path::Path, out: &mut BTreeSet<String>, pre: String) {
        if let Ok(rd) = std::fs::read_dir(p) {
            for e in rd.flatten() {
                let name = e.file_name().to_string_lossy().to_string();
                if e.path().is_dir() { walk(&e.path(), out, format!("{pre}{name}")); } else { out.insert(format!("{pre}{name}")); }
            }
        }
    }
    walk(&root.join("cas"), &mut out, String::new());
    out
}

#[cfg(test)]
fn check_all(cas: &Cas<String>, model: &BTreeMap<String, Vec<u8>>, root: &std::path::Path, what: &str) {
    for k in ["a", "b", "c", "d", "e", ""] {
        let k = k.to_string();
        let got = cas.get(&k).unwrap_or_else(|e| panic!("{what}: get({k:?}) failed: {e}"));
        assert_eq!(got.as_ref().map(|b| b.to_vec()), model.get(&k).cloned(), "{what}: get({k:?})");
        assert_eq!(cas.get_size(&k).unwrap(), model.get(&k).map(|v| v.len() as u64), "{what}: get_size({k:?})");
        if let Some(v) = model.get(&k) {
            let l = v.len() as u64;
            assert_eq!(cas.get_range(&k, 1, u64::MAX).unwrap().unwrap().as_ref(), &v[(1.min(v.len()))..], "{what}: get_range tail");
            assert_eq!(cas.get_range(&k, 0, l + 7).unwrap().unwrap().as_ref(), &v[..], "{what}: get_range past end");
        }
    }
    let keys: Vec<String> = cas.read_index_state().iter().map(|(k, _)| k.clone()).collect();
    assert_eq!(keys, model.keys().cloned().collect::<Vec<_>>(), "{what}: key iteration order/content");
    let want: BTreeSet<String> = model.values().map(|v| calculate_blob_hash(v).to_hex()).collect();
    assert_eq!(cas_files(root), want, "{what}: files under cas/ are not exactly the referenced contents");
    let staging = std::fs::read_dir(root.join("staging")).unwrap().count();
    assert_eq!(staging, 0, "{what}: staging/ is not empty");
    let st = cas.stats();
    assert_eq!(st.cas.unique_blobs as usize, want.len(), "{what}: unique_blobs");
    let uniq: BTreeMap<String, usize> = model.values().map(|v| (calculate_blob_hash(v).to_hex(), v.len())).collect();
    assert_eq!(st.cas.total_bytes as usize, uniq.values().sum::<usize>(), "{what}: total_bytes");
}

#[cfg(test)]
fn history(n: u64) {
    let dir = tempfile::tempdir().unwrap();
    let root = dir.path().to_path_buf();
    let mut cas: Cas<String> = Cas::open(&root, cfgn(n)).unwrap();
    let mut model: BTreeMap<String, Vec<u8>> = BTreeMap::new();
    let x = b"xxxx".to_vec();
    let y = b"yyyy".to_vec(); // same length as x
    let z = b"z".to_vec();
    let steps: Vec<(&str, &str, Vec<u8>)> = vec![
        ("put", "a", x.clone()), ("put", "b", y.clone()), ("put", "a", y.clone()), // same-length overwrite onto stored content
        ("put", "c", y.clone()), ("rm", "c", vec![]), ("rm", "a", vec![]), ("put", "a", x.clone()),
        ("put", "a", x.clone()), ("put", "d", vec![]), ("put", "", z.clone()), ("reopen", "", vec![]),
        ("put", "b", x.clone()), ("put", "a", z.clone()), ("rm", "zz", vec![]), ("range", "b", vec![]),
        ("put", "e", y.clone()), ("ckpt", "", vec![]), ("put", "c", x.clone()), ("reopen", "", vec![]),
        ("range", "", vec![]), ("put", "a", y.clone()), ("reopen", "", vec![]),
    ];
    for (i, (op, k, v)) in steps.into_iter().enumerate() {
        let what = format!("N={n} step {i} {op} {k:?}");
        match op {
            "put" => {
                let mut tx = cas.put(k.to_string()).unwrap();
                if v.len() > 2 { tx.write(&v[..2]).unwrap(); tx.write(&[]).unwrap(); tx.write(&v[2..]).unwrap(); } else { tx.write(&v).unwrap(); }
                tx.finish().unwrap_or_else(|e| panic!("{what}: finish failed: {e}"));
                model.insert(k.to_string(), v);
            }
            "rm" => {
                let was = model.remove(k).is_some();
                assert_eq!(cas.remove(&k.to_string()).unwrap(), was, "{what}: remove() result");
            }
            "range" => {
                let lo = k.to_string();
                let hi = "d".to_string();
                let ks: Vec<String> = model.range(lo.clone()..hi.clone()).map(|(k, _)| k.clone()).collect();
                let got = cas.remove_range(lo..hi).unwrap();
                assert_eq!(got, ks.len(), "{what}: remove_range count");
                for k in ks { model.remove(&k); }
            }
            "ckpt" => cas.checkpoint().unwrap(),
            "reopen" => {
                drop(cas);
                cas = Cas::open(&root, cfgn(n)).unwrap_or_else(|e| panic!("{what}: reopen failed: {e}"));
            }
            _ => unreachable!(),
        }
        check_all(&cas, &model, &root, &what);
    }
}

#[cfg(test)]
#[test]
fn replay_api_wrappers() {
    for n in [1u64, 2, 3, 10_000] {
        history(n);
    }
}

#[cfg(test)]
#[test]
fn replay_reclaim() {
    for n in [1u64, 2, 3, 10_000] {
        history(n);
    }
}

// crash inside start-up recovery: the store is opened on a log with un-checkpointed records while the
// after-replay checkpoint cannot be written (a directory sits at index.tmp); nothing acknowledged may
// be lost, and the next open must still see everything.
#[cfg(test)]
#[test]
fn replay_recovery_crash() {
    let dir = tempfile::tempdir().unwrap();
    let root = dir.path().to_path_buf();
    {
        let cas: Cas<String> = Cas::open(&root, cfgn(4)).unwrap();
        for i in 0..3 {
            let mut tx = cas.put(format!("k{i}")).unwrap();
            tx.write(format!("v{i}").as_bytes()).unwrap();
            tx.finish().unwrap();
        }
    }
    let tmp = root.join("index.tmp");
    let _ = std::fs::remove_file(&tmp);
    std::fs::create_dir(&tmp).unwrap();
    let r: Result<Cas<String>, _> = Cas::open(&root, cfgn(4)); // recovery runs, its checkpoint fails
    drop(r);
    std::fs::remove_dir(&tmp).unwrap();
    let cas: Cas<String> = Cas::open(&root, cfgn(4)).expect("open after a failed recovery");
    for i in 0..3 {
        let got = cas.get(&format!("k{i}")).unwrap();
        assert_eq!(got.as_ref().map(|b| b.to_vec()), Some(format!("v{i}").into_bytes()), "acknowledged key k{i} lost by a failed recovery");
    }
}
