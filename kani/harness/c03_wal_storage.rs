// C03/C20 (byte level, Engine K) — child of `crate::wal::storage`.
// One WAL record reaches the file with ONE write call, for every payload length up to 9000
// bytes (brackets BufWriter's 8192-byte capacity: 44-byte header + 8148 = 8192).  In the
// process-kill model of C03 completed calls persist and a crash falls between calls, so a
// record split over two calls can be torn into "complete header, no payload", which replay
// rejects as corruption (defect D1, fixed).  Runs the REAL SegmentWriter with its REAL
// BufWriter<File>; only File::write / sync_data / close are stubs (full writes).
use super::*;
use std::os::unix::io::FromRawFd;

pub(crate) static mut WRITES: usize = 0;
pub(crate) static mut TOTAL: usize = 0;
pub(crate) static mut SYNCS: usize = 0;
pub(crate) static mut WRITES_AT_SYNC: usize = 0;

#[cfg(kani)]
mod stubs {
    use super::*;
    pub fn write_stub(_f: &mut File, buf: &[u8]) -> std::io::Result<usize> {
        unsafe {
            WRITES += 1;
            TOTAL += buf.len();
        }
        Ok(buf.len())
    }
    pub fn sync_stub(_f: &File) -> std::io::Result<()> {
        unsafe {
            SYNCS += 1;
            WRITES_AT_SYNC = WRITES;
        }
        Ok(())
    }
    pub fn close_stub(_fd: libc::c_int) -> libc::c_int {
        0
    }
}

#[cfg(kani)]
#[kani::proof]
#[kani::unwind(2)]
#[kani::stub(<std::fs::File as std::io::Write>::write, stubs::write_stub)]
#[kani::stub(std::fs::File::sync_data, stubs::sync_stub)]
#[kani::stub(libc::close, stubs::close_stub)]
fn c03_write_entry_single_write() {
    static DATA: [u8; 9000] = [0u8; 9000];
    let len: usize = kani::any();
    kani::assume(len >= 1 && len <= 9000);
    let file = unsafe { File::from_raw_fd(9) };
    let mut w = SegmentWriter::new(3, file);
    let ver = NonZeroU64::new(kani::any()).unwrap_or(NonZeroU64::new(1).unwrap());
    let r = w.write_entry(ver, BlobHash::from_bytes([5u8; 32]), &DATA[..len]);
    assert!(r.is_ok());
    unsafe {
        assert!(TOTAL == WAL_ENTRY_HEADER_SIZE + len, "not all bytes of the record were handed to the file");
        assert!(WRITES == 1, "one WAL record is split over several write calls (a crash between them tears the record)");
        assert!(SYNCS == 1 && WRITES_AT_SYNC == 1, "record must be fully written before its fdatasync");
    }
    kani::cover!(len == 8148, "record exactly fills the BufWriter capacity");
    kani::cover!(len == 9000, "record larger than the BufWriter capacity");
    kani::cover!(len == 1, "tiny record");
    core::mem::forget(w);
}
