// Native confirmation for the scan-classification obligation (C08); child of the crate root.
// The counterexample's symbolic directory tree and index are rebuilt as a real store: keys are put
// through the public API, then the blob directory is edited to match the tree (blob files removed /
// planted / given wrong content or size, stray files at level 1 and 2, files whose name is not a
// hash, staging leftovers).  The REAL scan_orphans runs on it and its report is compared with an
// independent recount of what was planted.
use crate::*;
use std::collections::BTreeSet;
use std::num::NonZeroU64;

#[cfg(test)]
fn content(id: i64) -> Vec<u8> {
    format!("content-of-hash-{id}").into_bytes()
}

#[cfg(test)]
#[test]
fn replay_scan() {
    let v = rv::load();
    let ints = |n: &str| -> Vec<i64> { v[n].as_array().map(|a| a.iter().map(|x| x.as_i64().unwrap_or(0)).collect()).unwrap_or_default() };
    let bools = |n: &str| -> Vec<bool> { v[n].as_array().map(|a| a.iter().map(|x| x.as_bool().unwrap_or(false)).collect()).unwrap_or_default() };
    let b = |n: &str, i: usize| -> bool { v[n][i].as_bool().unwrap_or(false) };
    let keys = ints("keys");
    let pk = bools("pk");
    let hk = ints("hk");
    let verify = v["verify"].as_bool().unwrap_or(false);
    let dir = tempfile::tempdir().unwrap();
    let cfg = Config { num_ops_per_wal: NonZeroU64::new(10_000).unwrap(), scan_orphans_on_startup: false, ..Default::default() };
    let cas: Cas<String> = Cas::open(dir.path(), cfg).unwrap();
    let mut indexed: BTreeSet<i64> = BTreeSet::new();
    for i in 0..keys.len() {
        if pk[i] {
            let mut tx = cas.put(format!("key{}", keys[i])).unwrap();
            tx.write(&content(hk[i])).unwrap();
            tx.finish().unwrap();
            indexed.insert(hk[i]);
        }
    }
    let node = |n: &str| (b(&format!("node_{n}"), 0), b(&format!("node_{n}"), 1));
    let reach_dir = |n: &str| -> bool {
        match n {
            "B" => node("B").0,
            "C" => node("B").0 && node("C").0 && node("C").1,
            "D" => node("B").0 && node("D").0,
            _ => false,
        }
    };
    // what the tree says is on disk: hash id -> (content ok, size ok)
    let mut on_disk: std::collections::BTreeMap<i64, (bool, bool)> = Default::default();
    let mut bad_names = 0usize;
    for (leaf, parent) in [("c1", "C"), ("d1", "D"), ("d2", "D")] {
        let l = &v[format!("leaf_{leaf}")];
        if l.is_null() { continue; }
        let (exists, parses, h, size, verdict) = (l[0].as_bool().unwrap_or(false), l[1].as_bool().unwrap_or(false), l[2].as_i64().unwrap_or(0),
                                                  l[3].as_i64().unwrap_or(0), l[4].as_bool().unwrap_or(false));
        if !(exists && reach_dir(parent)) { continue; }
        if parses {
            let size_ok = size as usize == content(h).len();
            on_disk.insert(h, (verdict, size_ok));
        } else {
            bad_names += 1;
        }
    }
    let all_hashes: BTreeSet<i64> = ints("hashes").into_iter().chain(indexed.iter().copied()).collect();
    let cas_root = cas.paths.cas_root_path().to_path_buf();
    let mut expect_orph = BTreeSet::new();
    let mut expect_miss = BTreeSet::new();
    let mut expect_corr = BTreeSet::new();
    let mut some_l2: Option<std::path::PathBuf> = None;
    for h in &all_hashes {
        let c = content(*h);
        let bh = calculate_blob_hash(&c);
        let p = cas.paths.cas_file_path(&bh);
        match on_disk.get(h) {
            None => {
                let _ = std::fs::remove_file(&p);
                if indexed.contains(h) { expect_miss.insert(bh); }
            }
            Some((content_ok, size_ok)) => {
                std::fs::create_dir_all(p.parent().unwrap()).unwrap();
                let data = if !*size_ok { let mut d = c.clone(); d.push(b'!'); d } else if !*content_ok { let mut d = c.clone(); d[0] ^= 1; d } else { c.clone() };
                std::fs::write(&p, &data).unwrap();
                some_l2 = Some(p.parent().unwrap().to_path_buf());
                if !indexed.contains(h) { expect_orph.insert(bh); } else if verify && (!*size_ok || !*content_ok) { expect_corr.insert(bh); }
            }
        }
    }
    let mut expect_invalid: BTreeSet<std::path::PathBuf> = BTreeSet::new();
    if node("A").0 {
        let p = cas_root.join("zz");
        if node("A").1 { std::fs::create_dir_all(&p).unwrap(); } else { std::fs::write(&p, b"stray").unwrap(); expect_invalid.insert(p); }
    }
    if node("B").0 && node("C").0 && !node("C").1 {
        let l1 = cas_root.join("yy");
        std::fs::create_dir_all(&l1).unwrap();
        let p = l1.join("stray-l2");
        std::fs::write(&p, b"stray").unwrap();
        expect_invalid.insert(p);
    }
    for i in 0..bad_names {
        let l2 = some_l2.clone().unwrap_or_else(|| cas_root.join("xx").join("ww"));
        std::fs::create_dir_all(&l2).unwrap();
        let p = l2.join(format!("not-a-hash-{i}"));
        std::fs::write(&p, b"junk").unwrap();
        expect_invalid.insert(p);
    }
    let mut expect_stg: BTreeSet<std::path::PathBuf> = BTreeSet::new();
    for s in ["s1", "s2"] {
        let e = &v[format!("stg_{s}")];
        if e.is_null() || !e[0].as_bool().unwrap_or(false) { continue; }
        let p = cas.paths.staging_root_path().join(format!("left-{s}"));
        if e[1].as_bool().unwrap_or(false) { std::fs::write(&p, b"x").unwrap(); expect_stg.insert(p); } else { std::fs::create_dir_all(&p).unwrap(); }
    }
    let stats = crate::orphan::scan_orphans(cas.as_arc(), cas.as_arc().clone(), verify).expect("scan");
    let set = |v: &Vec<BlobHash>| v.iter().copied().collect::<BTreeSet<_>>();
    assert_eq!(stats.orphaned_blobs.len(), set(&stats.orphaned_blobs).len(), "a blob is reported orphaned twice");
    assert_eq!(set(&stats.orphaned_blobs), expect_orph, "orphaned set");
    assert_eq!(set(&stats.missing_blobs), expect_miss, "missing set");
    assert_eq!(set(&stats.corrupted_blobs), expect_corr, "corrupted set");
    assert_eq!(stats.invalid_files.iter().cloned().collect::<BTreeSet<_>>(), expect_invalid, "invalid files");
    assert_eq!(stats.staging_files.iter().cloned().collect::<BTreeSet<_>>(), expect_stg, "staging leftovers");
    assert_eq!(stats.total_blobs, on_disk.len(), "total_blobs");
}
