//! No-op stand-in for the `tracing` crate, used only in scratch copies of the
//! code under verification: logging has no effect on the store's state, and the
//! real macros make Kani 0.68 ICE / bloat the MIR.
#[macro_export]
macro_rules! trace { ($($t:tt)*) => {{}}; }
#[macro_export]
macro_rules! debug { ($($t:tt)*) => {{}}; }
#[macro_export]
macro_rules! info { ($($t:tt)*) => {{}}; }
#[macro_export]
macro_rules! warn { ($($t:tt)*) => {{}}; }
#[macro_export]
macro_rules! error { ($($t:tt)*) => {{}}; }
